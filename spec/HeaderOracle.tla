---------------------------- MODULE HeaderOracle ----------------------------
(* Oracle mode for the header grammar: every line of the case file is one     *)
(* recorded call of internal/format.Parse (input bytes and what came back).   *)
(* TLC judges each record against AgeHeader!Parse and the Canonical theorem.  *)
(* Records are independent, so the state space is a two-level tree (shard,    *)
(* record) that TLC's workers explore in parallel; disagreements are printed, *)
(* not raised, so one run reports all of them.                                *)
EXTENDS AgeHeader, TLC, Json, IOUtils

CONSTANT NShards
Cases == ndJsonDeserialize(IOEnv.CASES)
N == Len(Cases)

VARIABLES shard, i
vars == <<shard, i>>

Init == shard \in 1..NShards /\ i = 0
Next == /\ i = 0
        /\ \E k \in 1..N : k % NShards = shard - 1 /\ i' = k
        /\ UNCHANGED shard
Spec == Init /\ [][Next]_vars

Agree(c, r) == /\ r.ok = c.ok
               /\ c.ok => /\ r.stanzas = c.stanzas /\ r.mac = c.mac /\ r.rest = c.rest
Verdict(c) == LET r == Parse(c.input) IN
              IF ~Agree(c, r) THEN "disagree"
              ELSE IF r.ok /\ Marshal(HeaderOf(r)) \o r.rest # c.input THEN "noncanonical"
              ELSE "ok"
Judge == (i > 0) => LET v == Verdict(Cases[i]) IN
                    IF v = "ok" THEN TRUE
                    ELSE PrintT("BAD " \o ToJson([i |-> i, why |-> v, name |-> Cases[i].name]))
=============================================================================
