------------------------------- MODULE AgeFlow -------------------------------
(* The control flow of age.Encrypt and age.Decrypt as a machine: one action    *)
(* per step at which the code can return, in the order the code takes them.    *)
(* A call is a frame [kind, n, pc, i, lab]; calls nest (an Identity's Unwrap   *)
(* may itself call age.Decrypt: cmd/age's passphrase-protected identity files  *)
(* do), so a goroutine owns a stack of frames.                                 *)
(*                                                                             *)
(*   Encrypt(n recipients):  begin; wrap 1..n in order (each may fail; label   *)
(*     sets compared as they come; a difference refuses); header MAC; header   *)
(*     written; nonce drawn and written; the payload writer exists only then.  *)
(*   Decrypt(n identities):  begin; header parsed; Unwrap of identity 1, 2, .. *)
(*     in order until one returns a key or an error that is not "incorrect     *)
(*     identity"; no match only after all n; header MAC verified; nonce read;  *)
(*     the payload reader exists only then.                                    *)
(*                                                                             *)
(* Step(f, e) is the machine's transition function on one frame and one        *)
(* event [ev, a]: [ok |-> TRUE, f |-> f', pop |-> BOOLEAN] or, if the machine  *)
(* has no such step, [ok |-> FALSE, why |-> reason].  The reasons name the     *)
(* property clause that a real execution taking that step would break.         *)
(* AgeFlowMC checks the machine's own invariants over all event orders the     *)
(* machine allows; AgeFlowTrace replays recorded executions through Step.      *)
EXTENDS Integers, Sequences

\* (the "@type" comments are for Apalache, which checks an inductive invariant of one frame for ANY number of recipients
\* and identities in AgeFlowInd.tla; TLC ignores them.  Results of Step have one record shape for that reason.)
\* @typeAlias: frame = {kind: Str, n: Int, pc: Str, i: Int, lab: Int, opened: Bool};
\* @typeAlias: event = {ev: Str, a: Seq(Int)};
\* @typeAlias: result = {ok: Bool, f: $frame, pop: Bool, why: Str};
AgeFlowAliases == TRUE

\* @type: (Str, Int) => $frame;
Frame(kind, n) == [kind |-> kind, n |-> n, pc |-> (IF kind = "enc" THEN "wrap" ELSE "parse"), i |-> 0, lab |-> 0 - 1, opened |-> FALSE]
NoFrame == Frame("none", 0)

\* @type: ($frame) => $result;
Go(f) == [ok |-> TRUE, f |-> f, pop |-> FALSE, why |-> ""]
\* @type: ($frame) => $result;
Pop(f) == [ok |-> TRUE, f |-> f, pop |-> TRUE, why |-> ""]
\* @type: (Str) => $result;
No(why) == [ok |-> FALSE, f |-> NoFrame, pop |-> FALSE, why |-> why]
\* @type: ($event, Int) => Int;
A(e, k) == IF k <= Len(e.a) THEN e.a[k] ELSE 0 - 1

\* @type: ($frame, $event) => $result;
DecStep(f, e) ==
  CASE e.ev = "age.dec.header" ->
         IF f.pc # "parse" THEN No("flow:header-parsed-twice")
         ELSE IF A(e, 1) = 0 THEN Pop([f EXCEPT !.pc = "failed"]) ELSE Go([f EXCEPT !.pc = "unwrap"])
    [] e.ev = "age.dec.unwrap" ->
         IF f.pc \in {"mac", "nonce", "nokey"} THEN No("C01:identity-consulted-after-one-opened-the-file")
         ELSE IF f.pc # "unwrap" THEN No("C03:identity-consulted-before-the-header-was-parsed")
         ELSE IF f.i >= f.n THEN No("C01:more-unwrap-calls-than-identities")
         ELSE IF A(e, 1) = 2 THEN Go([f EXCEPT !.i = @ + 1])
         ELSE IF A(e, 1) = 3 THEN Pop([f EXCEPT !.i = @ + 1, !.pc = "failed"])
         ELSE IF A(e, 2) > 0 THEN Go([f EXCEPT !.i = @ + 1, !.pc = "mac", !.opened = TRUE])
         ELSE Go([f EXCEPT !.i = @ + 1, !.pc = "nokey"])           \* nil error and no key: reported as no match
    [] e.ev = "age.dec.nomatch" ->
         IF f.pc = "nokey" THEN Pop([f EXCEPT !.pc = "failed"])
         ELSE IF f.pc # "unwrap" THEN No("flow:no-match-out-of-place")
         ELSE IF f.i < f.n THEN No("C01:no-match-reported-before-every-identity-was-consulted")
         ELSE Pop([f EXCEPT !.pc = "failed"])
    [] e.ev = "age.dec.mac" ->
         IF f.pc # "mac" THEN No("C03:header-mac-checked-without-a-file-key")
         ELSE IF A(e, 1) = 0 THEN Pop([f EXCEPT !.pc = "failed"]) ELSE Go([f EXCEPT !.pc = "nonce"])
    [] e.ev = "age.dec.nonce" ->
         IF f.pc \in {"mac", "unwrap", "parse", "nokey"} THEN No("C03:payload-reached-before-the-header-mac-was-verified")
         ELSE IF f.pc # "nonce" THEN No("flow:nonce-out-of-place")
         ELSE IF A(e, 1) = 0 THEN Pop([f EXCEPT !.pc = "failed"]) ELSE Pop([f EXCEPT !.pc = "done"])
    [] OTHER -> No("flow:encrypt-event-inside-decrypt")

\* @type: ($frame, $event) => $result;
EncStep(f, e) ==
  CASE e.ev = "age.enc.rand" ->
         IF (f.pc = "wrap" /\ f.i = 0) \/ f.pc = "nonce" THEN Pop([f EXCEPT !.pc = "failed"]) ELSE No("flow:rand-out-of-place")
    [] e.ev = "age.enc.wrap" ->
         IF f.pc = "refuse" THEN No("C11:recipient-wrapped-after-a-label-mismatch")
         ELSE IF f.pc # "wrap" THEN No("C01:recipient-wrapped-after-the-header-was-written")
         ELSE IF f.i >= f.n THEN No("C01:more-wrap-calls-than-recipients")
         ELSE IF A(e, 1) # 1 THEN Pop([f EXCEPT !.i = @ + 1, !.pc = "failed"])
         ELSE IF f.i = 0 THEN Go([f EXCEPT !.i = 1, !.lab = A(e, 2)])
         ELSE IF A(e, 2) # f.lab THEN Go([f EXCEPT !.i = @ + 1, !.pc = "refuse"])    \* label counts differ: must be refused
         ELSE Go([f EXCEPT !.i = @ + 1])
    [] e.ev = "age.enc.incompatible" ->
         IF f.pc \in {"wrap", "refuse"} /\ f.i >= 2 THEN Pop([f EXCEPT !.pc = "failed"]) ELSE No("flow:incompatible-out-of-place")
    [] e.ev = "age.enc.mac" ->
         IF f.pc = "wrap" /\ f.i = f.n THEN Pop([f EXCEPT !.pc = "failed"]) ELSE No("flow:mac-out-of-place")
    [] e.ev = "age.enc.header" ->
         IF f.pc = "refuse" THEN No("C11:header-written-for-recipients-with-different-label-sets")
         ELSE IF f.pc # "wrap" THEN No("flow:header-written-twice")
         ELSE IF f.i < f.n THEN No("C01:header-written-before-every-recipient-was-wrapped")
         ELSE IF A(e, 1) = 0 THEN Pop([f EXCEPT !.pc = "failed"]) ELSE Go([f EXCEPT !.pc = "nonce"])
    [] e.ev = "age.enc.nonce" ->
         IF f.pc \in {"wrap", "refuse"} THEN No("C05:nonce-written-before-the-header")
         ELSE IF f.pc # "nonce" THEN No("flow:nonce-out-of-place")
         ELSE IF A(e, 1) = 0 THEN Pop([f EXCEPT !.pc = "failed"]) ELSE Pop([f EXCEPT !.pc = "done"])
    [] OTHER -> No("flow:decrypt-event-inside-encrypt")

\* @type: ($event) => Bool;
IsBegin(e) == e.ev \in {"age.enc.begin", "age.dec.begin"}
\* @type: ($event) => $frame;
NewFrame(e) == Frame(IF e.ev = "age.enc.begin" THEN "enc" ELSE "dec", A(e, 1))
\* a call may start inside another only while that one is inside a recipient's Wrap or an identity's Unwrap
\* @type: ($frame) => Bool;
CanNest(f) == f.pc \in {"wrap", "unwrap"}
\* @type: ($frame, $event) => $result;
Step(f, e) == IF f.kind = "enc" THEN EncStep(f, e) ELSE DecStep(f, e)

\* one event applied to a goroutine's stack: [ok, st, why]
\* @type: (Seq($frame), $event) => {ok: Bool, st: Seq($frame), why: Str};
Apply(st, e) ==
  IF IsBegin(e)
  THEN IF Len(st) > 0 /\ ~CanNest(st[Len(st)]) THEN [ok |-> FALSE, st |-> st, why |-> "flow:call-started-while-the-previous-one-had-not-returned"]
       ELSE IF A(e, 1) < 1 THEN [ok |-> FALSE, st |-> st, why |-> "flow:call-with-nothing-to-do-got-past-the-argument-check"]
       ELSE [ok |-> TRUE, st |-> Append(st, NewFrame(e)), why |-> ""]
  ELSE IF Len(st) = 0 THEN [ok |-> FALSE, st |-> st, why |-> "flow:event-outside-any-call"]
  ELSE LET r == Step(st[Len(st)], e) IN
       IF ~r.ok THEN [ok |-> FALSE, st |-> st, why |-> r.why]
       ELSE IF r.pop THEN [ok |-> TRUE, st |-> SubSeq(st, 1, Len(st) - 1), why |-> ""]
       ELSE [ok |-> TRUE, st |-> [st EXCEPT ![Len(st)] = r.f], why |-> ""]
=============================================================================
