------------------------------- MODULE CliIdent -------------------------------
(* Identity files on the age command line (cmd/age/parse.go parseIdentitiesFile, *)
(* cmd/age/encrypted_keys.go EncryptedIdentity and LazyScryptIdentity,           *)
(* cmd/age/age.go decryptNotPass / encryptNotPass), as a step machine.           *)
(*                                                                               *)
(* A command is `age -d -i F1 .. -i Fn FILE` or `age -e -i F1 .. -i Fn`.  Each   *)
(* identity file has a kind:                                                     *)
(*   plain_m / plain_o   unencrypted, holding the key the FILE is for / another  *)
(*   plain_bad           unencrypted with a malformed line                       *)
(*   enc_m / enc_o       passphrase-encrypted (age -p), holding that key /       *)
(*                       another key                                             *)
(*   enc_bad             passphrase-encrypted, the content has a malformed line  *)
(*   enc_key             an age file encrypted to a key, not to a passphrase     *)
(*   missing             no such file                                            *)
(* and the terminal answers the passphrase prompts, in order, with "right" or     *)
(* "wrong"; without a terminal (tty = FALSE) no prompt can be answered at all.    *)
(* FILE is for the key ("key") or is itself passphrase-encrypted ("pass").       *)
(*                                                                               *)
(* Decryption: every file is opened and, if unencrypted, parsed before anything  *)
(* else happens (an encrypted one is only read); a passphrase-encrypted FILE is  *)
(* refused because identities were given; then the identities are consulted in   *)
(* command-line order.  An encrypted identity file asks for its passphrase when  *)
(* it is first consulted - whether or not FILE turns out to be for its keys -    *)
(* and a wrong or missing answer, a content that does not parse, or a file that  *)
(* is not passphrase-encrypted ends the command there, even if a later identity  *)
(* would have opened FILE (WrongAnswerIsFinal: what the code does).              *)
(* Encryption: each file is resolved to recipients in turn, so an encrypted one  *)
(* asks for its passphrase as soon as it is reached.                             *)
EXTENDS Integers, Sequences, FiniteSets, TLC, Json

CONSTANTS MaxFiles, Kinds, WithNone      \* WithNone: also the commands run without a terminal

AllKinds == {"plain_m", "plain_o", "plain_bad", "enc_m", "enc_o", "enc_bad", "enc_key", "missing"}
ASSUME Kinds \subseteq AllKinds
Asks(k) == k \in {"enc_m", "enc_o", "enc_bad"}        \* the kinds that ask for a passphrase when used
Answers == {"right", "wrong"}

VARIABLES op, target, files, answers, tty,     \* the command and the terminal
          pc, i, asked, exit, delivered, why
vars == <<op, target, files, answers, tty, pc, i, asked, exit, delivered, why>>

NAsk(fs) == Cardinality({j \in 1..Len(fs) : Asks(fs[j])})
FileLists == UNION {[1..n -> Kinds] : n \in 1..MaxFiles}
Init == /\ op \in {"dec", "enc"}
        /\ target \in (IF op = "dec" THEN {"key", "pass"} ELSE {"key"})
        /\ files \in FileLists
        /\ answers \in UNION {[1..n -> Answers] : n \in {NAsk(files)}}
        /\ tty \in (IF WithNone THEN BOOLEAN ELSE {TRUE})
        /\ pc = (IF op = "dec" THEN "parse" ELSE "resolve") /\ i = 1 /\ asked = 0 /\ exit = 0 - 1 /\ delivered = FALSE /\ why = ""

Stop(code, reason) == /\ exit' = code /\ why' = reason /\ pc' = "done"
                      /\ UNCHANGED <<op, target, files, answers, tty, i, asked, delivered>>
Keep == UNCHANGED <<op, target, files, answers, tty, exit, delivered, why>>

\* ---------------------------------------------------------------- decryption
\* phase 1: every -i file is opened; unencrypted ones are parsed now
Parse == /\ pc = "parse"
         /\ IF i > Len(files) THEN /\ pc' = "reject" /\ UNCHANGED <<i, asked>> /\ Keep
            ELSE IF files[i] = "missing" THEN Stop(1, "cannot-open")
            ELSE IF files[i] = "plain_bad" THEN Stop(1, "malformed-identity-file")
            ELSE /\ i' = i + 1 /\ UNCHANGED <<pc, asked>> /\ Keep
\* phase 2: a passphrase-encrypted FILE with identities on the command line is refused outright
Reject == /\ pc = "reject"
          /\ IF target = "pass" THEN Stop(1, "passphrase-file-with-identities")
             ELSE /\ pc' = "consult" /\ i' = 1 /\ UNCHANGED asked /\ Keep
\* what using an encrypted identity file gives: [ok, asks, reason]
Open(k, a) == CASE k = "enc_key" -> [ok |-> FALSE, asks |-> FALSE, reason |-> "identity-file-not-passphrase-encrypted"]
                [] a = "none" -> [ok |-> FALSE, asks |-> TRUE, reason |-> "no-passphrase"]
                [] a = "wrong" -> [ok |-> FALSE, asks |-> TRUE, reason |-> "incorrect-passphrase"]
                [] k = "enc_bad" -> [ok |-> FALSE, asks |-> TRUE, reason |-> "malformed-identity-file"]
                [] OTHER -> [ok |-> TRUE, asks |-> TRUE, reason |-> ""]
NextAnswer == IF tty /\ asked < Len(answers) THEN answers[asked + 1] ELSE "none"
\* phase 3: the identities in command-line order
Consult == /\ pc = "consult"
           /\ IF i > Len(files) THEN Stop(1, "no-identity-matched")
              ELSE LET k == files[i] IN
                   IF k = "plain_m" THEN /\ delivered' = TRUE /\ exit' = 0 /\ why' = "" /\ pc' = "done"
                                         /\ UNCHANGED <<op, target, files, answers, tty, i, asked>>
                   ELSE IF k = "plain_o" THEN /\ i' = i + 1 /\ UNCHANGED <<pc, asked>> /\ Keep
                   ELSE LET r == Open(k, NextAnswer) IN
                        /\ asked' = (IF r.asks THEN asked + 1 ELSE asked)
                        /\ IF ~r.ok THEN /\ exit' = 1 /\ why' = r.reason /\ pc' = "done" /\ UNCHANGED <<op, target, files, answers, tty, i, delivered>>
                           ELSE IF k = "enc_m" THEN /\ delivered' = TRUE /\ exit' = 0 /\ why' = "" /\ pc' = "done"
                                                    /\ UNCHANGED <<op, target, files, answers, tty, i>>
                           ELSE /\ i' = i + 1 /\ UNCHANGED pc /\ Keep       \* a warning, then the next identity
\* ---------------------------------------------------------------- encryption to the recipients of identity files
Resolve == /\ pc = "resolve"
           /\ IF i > Len(files) THEN /\ delivered' = TRUE /\ exit' = 0 /\ why' = "" /\ pc' = "done"
                                     /\ UNCHANGED <<op, target, files, answers, tty, i, asked>>
              ELSE LET k == files[i] IN
                   IF k = "missing" THEN Stop(1, "cannot-open")
                   ELSE IF k = "plain_bad" THEN Stop(1, "malformed-identity-file")
                   ELSE IF k \in {"plain_m", "plain_o"} THEN /\ i' = i + 1 /\ UNCHANGED <<pc, asked>> /\ Keep
                   ELSE LET r == Open(k, NextAnswer) IN
                        /\ asked' = (IF r.asks THEN asked + 1 ELSE asked)
                        /\ IF ~r.ok THEN /\ exit' = 1 /\ why' = r.reason /\ pc' = "done" /\ UNCHANGED <<op, target, files, answers, tty, i, delivered>>
                           ELSE /\ i' = i + 1 /\ UNCHANGED pc /\ Keep
Next == Parse \/ Reject \/ Consult \/ Resolve
Spec == Init /\ [][Next]_vars
FairSpec == Spec /\ WF_vars(Next)       \* for Terminates: the command does not simply stop in the middle

\* ---------------------------------------------------------------- properties of the machine
Done == pc = "done"
\* C15: status 0 exactly when the result was delivered
ExitZeroIffDelivered == Done => ((exit = 0) <=> delivered)
\* C04 on the command line: plaintext only through an identity file that holds the key
OpenedOnlyByAMatch == (Done /\ op = "dec" /\ delivered) => (target = "key" /\ \E j \in 1..Len(files) : files[j] \in {"plain_m", "enc_m"})
\* nothing is asked before every file was opened and every unencrypted one parsed (decryption)
NoPromptBeforeParsing == (op = "dec" /\ pc \in {"parse", "reject"}) => asked = 0
\* a passphrase is asked for at most once per passphrase-encrypted identity file, never for another kind
AsksBounded == asked <= NAsk(files)
\* the identities in front of the first that opens the file are all consulted, none behind it
InOrder == (Done /\ op = "dec" /\ delivered) => /\ files[i] \in {"plain_m", "enc_m"}
                                                /\ \A j \in 1..(i - 1) : files[j] \in {"plain_o", "enc_o"}
                                                /\ asked = NAsk(SubSeq(files, 1, i))
\* the deviation a user meets: a wrong answer for an earlier file ends the command although a later file would open FILE
WrongAnswerIsFinal == (Done /\ why \in {"incorrect-passphrase", "no-passphrase"}) => exit = 1
\* every command ends
Terminates == <>Done

\* answers the command never got to are left in their first form, so that every behaviour is printed once
Canonical == \A n \in (IF tty THEN asked + 1 ELSE 1)..Len(answers) : answers[n] = "right"
Emit == (Done /\ Canonical) =>
   PrintT("CASE " \o ToJson([op |-> op, target |-> target, files |-> files, answers |-> answers, tty |-> tty,
                              exit0 |-> (exit = 0), asked |-> asked, why |-> why, delivered |-> delivered]))
=============================================================================
