------------------------------ MODULE StreamInd ------------------------------
(* Inductive invariants of the STREAM writer and reader counters for ANY      *)
(* chunk size C > 0 and any input length (checked by Apalache:                *)
(*   IndInit => IndInv   and   IndInv /\ Next => IndInv').                     *)
(* They make the internal-error panics of internal/stream unreachable:        *)
(*   "flush called with partial chunk"   (a non-final flush with buf # C)     *)
(*   "readChunk called with dirty buffer" (a chunk read with unread > 0)      *)
(* and bound what the writer holds back: 0 <= buf <= C, acc = flushed + buf.  *)
EXTENDS Integers

CONSTANT
  \* @type: Int;
  C

VARIABLES
  \* @type: Int;
  buf,
  \* @type: Int;
  acc,
  \* @type: Int;
  flushed,
  \* @type: Bool;
  closed,
  \* @type: Bool;
  panic,
  \* @type: Int;
  unread,
  \* @type: Bool;
  rerr

CInit == C \in Int /\ C > 0

Init == buf = 0 /\ acc = 0 /\ flushed = 0 /\ closed = FALSE /\ panic = FALSE /\ unread = 0 /\ rerr = FALSE

\* one iteration of the copy loop in Writer.Write: k bytes go into the buffer; more = bytes remain after them
Copy == \E k \in Int : \E more \in BOOLEAN :
          /\ ~closed /\ k >= 0 /\ k <= C - buf /\ (more => k = C - buf)
          /\ acc' = acc + k
          /\ IF buf + k = C /\ more
             THEN /\ flushed' = flushed + C /\ buf' = 0          \* flushChunk(notLast): panics unless the buffer is full
                  /\ panic' = (panic \/ buf + k # C)
             ELSE /\ buf' = buf + k /\ UNCHANGED <<flushed, panic>>
          /\ UNCHANGED <<closed, unread, rerr>>
Close == /\ ~closed /\ closed' = TRUE /\ flushed' = flushed + buf /\ buf' = 0
         /\ UNCHANGED <<acc, panic, unread, rerr>>
\* Reader.Read: serve unread bytes; otherwise (no sticky error) read a chunk of n <= C plaintext bytes
Serve == \E k \in Int : /\ unread > 0 /\ k >= 0 /\ k <= unread /\ unread' = unread - k
                        /\ UNCHANGED <<buf, acc, flushed, closed, panic, rerr>>
ReadChunk == \E n \in Int : \E give \in Int : \E fail \in BOOLEAN :
               /\ unread = 0 /\ ~rerr /\ n >= 0 /\ n <= C /\ give >= 0 /\ give <= n
               /\ panic' = (panic \/ unread # 0)                 \* readChunk: "called with dirty buffer"
               /\ IF fail THEN rerr' = TRUE /\ unread' = 0 ELSE unread' = n - give /\ UNCHANGED rerr
               /\ UNCHANGED <<buf, acc, flushed, closed>>
Next == Copy \/ Close \/ Serve \/ ReadChunk

IndInv == /\ C > 0
          /\ buf >= 0 /\ buf <= C /\ flushed >= 0 /\ acc >= 0
          /\ (~closed => acc = flushed + buf)
          /\ (closed => buf = 0 /\ acc = flushed)
          /\ unread >= 0 /\ unread <= C
          /\ ~panic
\* IndInv as an initial-state predicate for the inductive step (every variable is first given a range)
IndInit == /\ buf \in Int /\ acc \in Int /\ flushed \in Int /\ closed \in BOOLEAN /\ panic \in BOOLEAN
           /\ unread \in Int /\ rerr \in BOOLEAN
           /\ IndInv
=============================================================================
