----------------------------- MODULE ArmorOracle -----------------------------
(* Oracle mode for the armor: each line of the case file is one recorded run  *)
(* of armor.NewReader to the end (input text, accepted?, bytes).  TLC judges  *)
(* the record against AgeArmor!Dearmor and the ArmorCanonical theorem.        *)
EXTENDS AgeArmor, TLC, Json, IOUtils

CONSTANT NShards
Cases == ndJsonDeserialize(IOEnv.CASES)
N == Len(Cases)

VARIABLES shard, i
vars == <<shard, i>>
Init == shard \in 1..NShards /\ i = 0
Next == /\ i = 0
        /\ \E k \in 1..N : k % NShards = shard - 1 /\ i' = k
        /\ UNCHANGED shard
Spec == Init /\ [][Next]_vars

Verdict(c) == LET r == Dearmor(c.input) IN
              IF r.ok # c.ok \/ (c.ok /\ r.bytes # c.bytes) THEN "disagree"
              ELSE IF c.ok /\ Armor(c.bytes) # Normalise(c.input) THEN "noncanonical"
              ELSE "ok"
Judge == (i > 0) => LET v == Verdict(Cases[i]) IN
                    IF v = "ok" THEN TRUE
                    ELSE PrintT("BAD " \o ToJson([i |-> i, why |-> v, name |-> Cases[i].name, norm |-> Normalise(Cases[i].input)]))
=============================================================================
