----------------------------- MODULE StreamTrace -----------------------------
(* Trace validation of the real internal/stream package against Stream.tla,   *)
(* with the real constants (C = 65536, T = 16).  The trace file is a           *)
(* concatenation of recorded runs; WReset / RReset start a new writer /        *)
(* reader.  Every event binds the call's arguments and results and the cheap   *)
(* projected state (bytes and calls seen by dst, bytes taken from src) to the  *)
(* specification's action; the state invariants Holdback, FrameShape,          *)
(* SuccessMeansComplete and the reader's PrefixOnly are evaluated at every     *)
(* step.                                                                       *)
EXTENDS Stream, TLC, Json, IOUtils

Trace == ndJsonDeserialize(IOEnv.TRACE)

VARIABLES l, ws, allOK, file, avail, rs
vars == <<l, ws, allOK, file, avail, rs>>

Ev == Trace[l]
IsEvent(e) == l <= Len(Trace) /\ Trace[l].ev = e /\ l' = l + 1
ErrClass(e) == IF e = "" THEN "" ELSE IF e = "EOF" THEN "eof" ELSE "fail"
DstBytes(frames) == FoldLeft(LAMBDA a, f : a + (IF f.okay THEN f.len + T ELSE 0), 0, frames)

Init == l = 1 /\ ws = WInit /\ allOK = TRUE /\ file = <<>> /\ avail = 0 /\ rs = RInit

T_WReset == IsEvent("WReset") /\ ws' = WInit /\ allOK' = TRUE /\ UNCHANGED <<file, avail, rs>>
T_Write == /\ IsEvent("Write")
           /\ \E f \in 0..Flushes(ws.buf, Ev.n) :
                LET r == WWrite(ws, Ev.n, f) IN
                /\ (f > 0) = Ev.dstFailed
                /\ r.ret = Ev.ret /\ r.err = ErrClass(Ev.err)
                /\ Len(r.st.frames) = Ev.dstCalls /\ DstBytes(r.st.frames) = Ev.dstBytes
                /\ ws' = r.st /\ allOK' = (allOK /\ r.err = "")
           /\ UNCHANGED <<file, avail, rs>>
T_Close == /\ IsEvent("Close")
           /\ LET r == WClose(ws, Ev.dstFailed) IN
                /\ r.err = ErrClass(Ev.err)
                /\ Len(r.st.frames) = Ev.dstCalls /\ DstBytes(r.st.frames) = Ev.dstBytes
                /\ ws' = r.st /\ allOK' = (allOK /\ r.err = "")
           /\ UNCHANGED <<file, avail, rs>>
T_RReset == /\ IsEvent("RReset")
            /\ file' = [i \in 1..Len(Ev.file) |->
                          IF Ev.file[i].k = "S" THEN Sealed(Ev.file[i].key, Ev.file[i].ctr, Ev.file[i].fin, Ev.file[i].len)
                          ELSE Garbage(Ev.file[i].size)]
            /\ avail' = Ev.avail /\ rs' = RInit /\ UNCHANGED <<ws, allOK>>
T_Read == /\ IsEvent("Read")
          /\ LET r == RRead(file, avail, rs, Ev.p) IN
               /\ r.ret = Ev.ret /\ r.err = ErrClass(Ev.err) /\ r.src = Ev.src
               /\ Ev.okPrefix                      \* the bytes returned continue the original plaintext
               /\ rs' = r.st
          /\ UNCHANGED <<ws, allOK, file, avail>>
Next == T_WReset \/ T_Write \/ T_Close \/ T_RReset \/ T_Read
Spec == Init /\ [][Next]_vars

\* invariants evaluated at every step of every recorded run
HoldbackT == Holdback(ws)
FrameShapeT == FrameShape(ws)
SuccessT == (allOK /\ ws.err = "closed") => SuccessMeansComplete(ws)
PrefixOnlyT == rs.released + rs.unread <= GoodPlain(file, avail)
CleanT == (rs.err = "eof") => IsHonest(file, avail)

\* acceptance: every line consumed (the search is a single path, so the last state has l = Len+1)
HighWater == TLCSet(1, IF l > TLCGet(1) THEN l ELSE TLCGet(1))
Accepted == IF TLCGet(1) = Len(Trace) + 1 THEN PrintT("ACCEPTED " \o ToString(Len(Trace)))
            ELSE PrintT("REJECTED " \o ToString(TLCGet(1)))
ASSUME TLCSet(1, 0)
=============================================================================
