---------------------------- MODULE AgeFlowTrace ----------------------------
(* Trace validation of recorded executions of age.Encrypt / age.Decrypt        *)
(* against AgeFlow.tla.  The trace is the NDJSON log written by the verif      *)
(* hooks (VERIF_TRACE, or the harness's in-process recorder): one line per     *)
(* step [ev, pid, g, a], from any number of processes and goroutines, in the   *)
(* order the lines were appended.  Every goroutine owns a stack of call        *)
(* frames; each line is applied to the stack of its goroutine with             *)
(* AgeFlow!Apply.  The first line the machine has no step for stops the        *)
(* validation; its reason is printed with the line number.                     *)
EXTENDS AgeFlow, TLC, Json, IOUtils

Trace == ndJsonDeserialize(IOEnv.TRACE)

VARIABLES l, stacks, bad
vars == <<l, stacks, bad>>

Init == l = 1 /\ stacks = [k \in {} |-> <<>>] /\ bad = ""
Next == /\ l <= Len(Trace) /\ bad = ""
        /\ LET e == Trace[l]
               k == <<e.pid, e.g>>
               st == IF k \in DOMAIN stacks THEN stacks[k] ELSE <<>>
               r == Apply(st, e)
           IN IF r.ok
              THEN /\ bad' = ""
                   /\ stacks' = IF Len(r.st) = 0 THEN [x \in (DOMAIN stacks) \ {k} |-> stacks[x]]
                                ELSE [x \in (DOMAIN stacks) \cup {k} |-> IF x = k THEN r.st ELSE stacks[x]]
              ELSE bad' = r.why /\ UNCHANGED stacks
        /\ l' = l + 1
Spec == Init /\ [][Next]_vars

\* deepest nesting seen and calls still open (reported, not judged: a test may abandon a call by panicking)
HighWater == /\ TLCSet(1, IF l > TLCGet(1) THEN l ELSE TLCGet(1))
             /\ TLCSet(2, IF bad # "" THEN bad ELSE TLCGet(2))
Verdict == IF TLCGet(2) # "" THEN PrintT("REJECTED " \o ToString(TLCGet(1) - 1) \o " " \o TLCGet(2))
           ELSE IF TLCGet(1) = Len(Trace) + 1 THEN PrintT("ACCEPTED " \o ToString(Len(Trace)))
           ELSE PrintT("REJECTED " \o ToString(TLCGet(1)) \o " flow:stuck")
ASSUME TLCSet(1, 0) /\ TLCSet(2, "")
=============================================================================
