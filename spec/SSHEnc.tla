------------------------------- MODULE SSHEnc -------------------------------
(* The passphrase-protected SSH identity (agessh.EncryptedSSHIdentity): C19.  *)
(*                                                                            *)
(* An identity value is declared for public key "D"; its private-key file     *)
(* holds key Stored ("D" when the file belongs to the declared key, "A" when  *)
(* it does not).  A call presents a file (a sequence of stanza addressees,    *)
(* "D" | "A" | "U" = unrelated key of the same type | "X" = another type |    *)
(* "T" = a stanza of the OTHER SSH key type that carries D's public-key tag:  *)
(* type and tag together address a stanza, so "T" is not addressed to D |     *)
(* "N" = a stanza of D's type whose tag is another spelling-neighbour of D's  *)
(* tag (same bytes under a lenient base64 reading): not addressed to D |      *)
(* "Y" = a stanza of a foreign type that has no arguments at all |            *)
(* "M" = a stanza of D's type with another tag and the wrong number of        *)
(* arguments: the matching loop passes over it (its tag is not D's), a plain  *)
(* identity refuses the file when it reaches it.  The stanzas are read in     *)
(* order, so "M" matters exactly when it stands in front of the stanza that   *)
(* opens the file.  Files with "M" given to TLC also hold "D": without "D"    *)
(* the code is known to refuse differently with and without a remembered key  *)
(* (no match / malformed stanza), a refusal either way; DESIGN 10.4) and       *)
(* the passphrase callback answers "right" | "wrong" | "error" if asked.      *)
(* One action per step of Unwrap: Match, Prompt, ParseKey, Validate, Cache.   *)
(* CacheBeforeValidate = TRUE is the code before the F8 fix.                  *)
EXTENDS Integers, Sequences, FiniteSets, TLC, Json

CONSTANTS Stored,               \* "D", "A" (another key of the same type), "O" (a key of the other SSH type) or "G" (the
                                \* declared key's point negated: another key with the same Curve25519 coordinate)
          Files,                \* set of files (sequences over {"D","A","U","X","T","N","Y","M"})
          MaxCalls,
          CacheBeforeValidate   \* deviation switch

Answers == {"right", "wrong", "error"}
VARIABLES cache, hist
vars == <<cache, hist>>

Addressed(f, k) == \E i \in 1..Len(f) : f[i] = k
\* what a plain identity for key k makes of file f: the stanzas in order, up to the first that is k's or is malformed
RECURSIVE Scan(_, _, _)
Scan(k, f, i) == IF i > Len(f) THEN "nomatch"
                 ELSE IF f[i] = k THEN "ok"
                 ELSE IF f[i] = "M" THEN "err_malformed"
                 ELSE Scan(k, f, i + 1)
Plain(k, f) == Scan(k, f, 1)

\* one call on an identity whose cache is c: [out, prompted, cache']
Call(c, f, a) ==
  IF c # "none" THEN [out |-> Plain(c, f), prompted |-> FALSE, cache |-> c]
  ELSE IF ~Addressed(f, "D") THEN [out |-> "nomatch", prompted |-> FALSE, cache |-> c]       \* Match
  ELSE IF a = "error" THEN [out |-> "err_prompt", prompted |-> TRUE, cache |-> c]             \* Prompt
  ELSE IF a = "wrong" THEN [out |-> "err_decrypt", prompted |-> TRUE, cache |-> c]            \* ParseKey
  ELSE IF Stored # "D" THEN [out |-> "err_mismatch", prompted |-> TRUE,                        \* Validate
                             cache |-> (IF CacheBeforeValidate THEN Stored ELSE c)]
  ELSE [out |-> Plain("D", f), prompted |-> TRUE, cache |-> "D"]                               \* Cache, delegate

Init == cache = "none" /\ hist = <<>>
Next == /\ Len(hist) < MaxCalls
        /\ \E f \in Files, a \in Answers :
             LET r == Call(cache, f, a) IN
             /\ cache' = r.cache
             /\ hist' = Append(hist, [file |-> f, answer |-> a, out |-> r.out, prompted |-> r.prompted,
                                      fresh |-> Call("none", f, a).out, cached |-> (cache # "none")])
Spec == Init /\ [][Next]_vars

Last == hist[Len(hist)]
\* C19: the passphrase is asked for only if some stanza carries the declared type and tag
PromptOnlyOnMatch == \A i \in 1..Len(hist) : hist[i].prompted => Addressed(hist[i].file, "D")
\* C19: and for a file addressed to it always, unless a validated key is remembered
PromptWhenAddressed == \A i \in 1..Len(hist) : (Addressed(hist[i].file, "D") /\ ~hist[i].cached) => hist[i].prompted
\* C19: only a successfully validated key is remembered
CacheOnlyValidated == cache \in {"none", "D"} /\ (cache = "D" => Stored = "D")
\* C19: the outcome of decrypting a given file does not depend on earlier calls (a remembered validated key only
\*      saves the prompt: it gives what the right passphrase would give)
HistoryFree == \A i \in 1..Len(hist) :
                  IF hist[i].cached THEN hist[i].out = Call("none", hist[i].file, "right").out
                  ELSE hist[i].out = hist[i].fresh
Emit == (Len(hist) = MaxCalls) => PrintT("CASE " \o ToJson([stored |-> Stored, calls |-> hist]))
=============================================================================
