------------------------------ MODULE ArmorRead ------------------------------
(* The de-armoring reader as a machine: one action per Read call, the state   *)
(* of armor.armoredReader (started, unread, err), the position in the text    *)
(* and what has been delivered.  AgeArmor.tla says what a text means as a     *)
(* whole; this module says what every single call returns, for every          *)
(* schedule of read sizes and every position at which the source fails.       *)
(*                                                                             *)
(* The text is abstract: a sequence of lines                                   *)
(*   [k |-> "ws",    w, t]   whitespace-only line, w bytes before its end      *)
(*   [k |-> "begin", w, t]   the BEGIN marker                                  *)
(*   [k |-> "end",   w, t]   the END marker                                    *)
(*   [k |-> "data",  w, t, n] canonical base64 of n bytes, 1 <= n <= 48        *)
(*   [k |-> "bad",   w, t]   anything else (empty inside the body, too long,   *)
(*                           bad base64, stray CR, PEM header, garbage)        *)
(* w is the line's length without its terminator; t is the terminator:         *)
(* "lf", "crlf" or "none" (only the last line of a text can have none).        *)
(* The harness realises every line in bytes and replays the calls against      *)
(* armor.NewReader; ArmorGen/ArmorOracle tie the byte level to the classes.    *)
(*                                                                             *)
(* srcFail = k > 0: the source returns an I/O error instead of completing      *)
(* line k (what it delivered of line k before is lost to the line reader);     *)
(* k = Len(text) + 1: it returns the error instead of end-of-file.             *)
EXTENDS Integers, Sequences, FiniteSets, TLC, Json

CONSTANTS MaxWS,        \* 1024
          Full,         \* 48
          TextNext(_, _),   \* TextNext(text, gen): set of [text, gen, done] successors of the text generator
          GenInit,      \* initial generator state
          ReadSizes,    \* sizes of the caller's buffer
          MaxCalls,
          Faults,       \* BOOLEAN: explore failing sources
          Emit          \* print behaviours for replay

VARIABLES text, gen,                 \* the text and the state of its generator ("reading" once the text is fixed)
          srcFail,
          started, unread, err,       \* the reader's fields; err \in {"none","eof","armor","io"}
          pos,                        \* lines consumed from the source
          lead,                       \* removedWhitespace
          delivered,                  \* bytes returned so far
          errSeen,                    \* an error has been returned to the caller
          hist                        \* calls so far: [p, n, e]
vars == <<text, gen, srcFail, started, unread, err, pos, lead, delivered, errSeen, hist>>
view == <<text, gen, srcFail, started, unread, err, pos, lead, delivered, errSeen>>

TermLen(t) == IF t = "lf" THEN 1 ELSE IF t = "crlf" THEN 2 ELSE 0
RawLen(ln) == ln.w + TermLen(ln.t)
Mn(a, b) == IF a < b THEN a ELSE b

\* ------------------------------------------------------------------ getLine
\* [r, line]: r \in {"line", "ueof", "io"}
\* (a last line without terminator is complete only once the source reports end-of-file: an error in its place loses it)
GetLine(p) == IF srcFail > 0 /\ (p + 1 >= srcFail \/ (p + 1 <= Len(text) /\ text[p + 1].t = "none")) THEN [r |-> "io"]
              ELSE IF p + 1 > Len(text) THEN [r |-> "ueof"]
              ELSE [r |-> "line", line |-> text[p + 1]]

\* drainTrailing after the END marker at line e (1-based): "eof" | "armor" | "io"
RECURSIVE TrailBytes(_, _)
TrailBytes(tx, from) == IF from > Len(tx) THEN 0 ELSE RawLen(tx[from]) + TrailBytes(tx, from + 1)
\* position of the first non-whitespace byte after line e, counted in bytes after it (0: none)
RECURSIVE FirstNonWS(_, _, _)
FirstNonWS(tx, from, off) == IF from > Len(tx) THEN 0
                             ELSE IF tx[from].k # "ws" THEN off + 1     \* all other classes start with a non-ws byte
                             ELSE FirstNonWS(tx, from + 1, off + RawLen(tx[from]))
\* bytes available after line e before the source fails (the failing line contributes nothing)
RECURSIVE AvailAfter(_, _, _)
AvailAfter(tx, from, fail) == IF from > Len(tx) \/ (fail > 0 /\ from >= fail) THEN 0
                              ELSE RawLen(tx[from]) + AvailAfter(tx, from + 1, fail)
Drain(e) ==
  LET avail == AvailAfter(text, e + 1, srcFail)
      failsWithin == srcFail > 0 /\ avail < MaxWS          \* the limited read reaches the failure
      nws == FirstNonWS(text, e + 1, 0)
  IN IF failsWithin THEN "io"
     ELSE IF nws > 0 /\ nws <= Mn(avail, MaxWS) THEN "armor"        \* trailing data
     ELSE IF avail >= MaxWS THEN "armor"                              \* too much trailing whitespace
     ELSE "eof"

ErrOf(r) == IF r = "io" THEN "io" ELSE "armor"       \* unexpected EOF is an armor error

\* ------------------------------------------------------------------ one Read call
\* skip leading whitespace lines until the BEGIN marker: [ok, pos, lead, err]
RECURSIVE Start(_, _)
Start(p, ld) ==
  LET g == GetLine(p) IN
  IF g.r # "line" THEN [ok |-> FALSE, pos |-> p, lead |-> ld, err |-> ErrOf(g.r)]
  ELSE IF g.line.k = "ws"
       THEN IF ld + g.line.w + 1 > MaxWS THEN [ok |-> FALSE, pos |-> p + 1, lead |-> ld + g.line.w + 1, err |-> "armor"]
            ELSE Start(p + 1, ld + g.line.w + 1)
       ELSE IF g.line.k = "begin" THEN [ok |-> TRUE, pos |-> p + 1, lead |-> ld, err |-> "none"]
       ELSE [ok |-> FALSE, pos |-> p + 1, lead |-> ld, err |-> "armor"]

\* result of the call: [n, e, started, unread, err, pos, lead]   e: error returned ("" = nil)
Fail(s, p, ld, e) == [n |-> 0, e |-> e, started |-> s, unread |-> 0, err |-> e, pos |-> p, lead |-> ld]
ReadResult(p) ==
  IF unread > 0 THEN LET r == Mn(p, unread) IN
       [n |-> r, e |-> "", started |-> started, unread |-> unread - r, err |-> err, pos |-> pos, lead |-> lead]
  ELSE IF err # "none" THEN [n |-> 0, e |-> err, started |-> started, unread |-> 0, err |-> err, pos |-> pos, lead |-> lead]
  ELSE
    LET s0 == IF started THEN [ok |-> TRUE, pos |-> pos, lead |-> lead, err |-> "none"] ELSE Start(pos, lead) IN
    IF ~s0.ok THEN Fail(FALSE, s0.pos, s0.lead, s0.err)
    ELSE LET g == GetLine(s0.pos) IN
      IF g.r # "line" THEN Fail(TRUE, s0.pos, s0.lead, ErrOf(g.r))
      ELSE IF g.line.k = "end" THEN Fail(TRUE, s0.pos + 1, s0.lead, Drain(s0.pos + 1))
      ELSE IF g.line.k # "data" THEN Fail(TRUE, s0.pos + 1, s0.lead, "armor")
      ELSE LET n == g.line.n IN
        IF n = Full
        THEN LET r == Mn(p, n) IN
             [n |-> r, e |-> "", started |-> TRUE, unread |-> n - r, err |-> "none", pos |-> s0.pos + 1, lead |-> s0.lead]
        ELSE LET g2 == GetLine(s0.pos + 1) IN
          IF g2.r # "line" THEN Fail(TRUE, s0.pos + 1, s0.lead, ErrOf(g2.r))
          ELSE IF g2.line.k # "end" THEN Fail(TRUE, s0.pos + 2, s0.lead, "armor")
          ELSE LET r == Mn(p, n) IN
               [n |-> r, e |-> "", started |-> TRUE, unread |-> n - r, err |-> Drain(s0.pos + 2),
                pos |-> s0.pos + 2, lead |-> s0.lead]

Reading == gen.ph = "reading"
Init == /\ text = <<>> /\ gen = GenInit /\ srcFail = 0
        /\ started = FALSE /\ unread = 0 /\ err = "none" /\ pos = 0 /\ lead = 0 /\ delivered = 0
        /\ errSeen = FALSE /\ hist = <<>>

\* the text grows line by line; at any point it may be declared complete and handed to a reader
Grow == /\ ~Reading
        /\ \E nx \in TextNext(text, gen) : text' = nx.text /\ gen' = nx.gen
        /\ UNCHANGED <<srcFail, started, unread, err, pos, lead, delivered, errSeen, hist>>
Open == /\ ~Reading /\ gen' = [gen EXCEPT !.ph = "reading"]
        /\ srcFail' \in (IF Faults THEN 0..(Len(text) + 1) ELSE {0})
        /\ UNCHANGED <<text, started, unread, err, pos, lead, delivered, errSeen, hist>>
Read(p) == /\ Reading /\ Len(hist) < MaxCalls
           /\ LET r == ReadResult(p) IN
                /\ started' = r.started /\ unread' = r.unread /\ err' = r.err /\ pos' = r.pos /\ lead' = r.lead
                /\ delivered' = delivered + r.n
                /\ errSeen' = (errSeen \/ r.e # "")
                /\ hist' = Append(hist, [p |-> p, n |-> r.n, e |-> r.e])
           /\ UNCHANGED <<text, gen, srcFail>>
Next == Grow \/ Open \/ \E p \in ReadSizes : Read(p)
Spec == Init /\ [][Next]_vars

\* ------------------------------------------------------------------ what the text means, independently of the machine
\* index of the BEGIN marker if the text opens  ws* begin  within the whitespace limit, else 0
RECURSIVE OpenAt(_, _, _)
OpenAt(tx, i, ld) == IF i > Len(tx) THEN 0
                     ELSE IF tx[i].k = "ws" THEN (IF ld + tx[i].w + 1 > MaxWS THEN 0 ELSE OpenAt(tx, i + 1, ld + tx[i].w + 1))
                     ELSE IF tx[i].k = "begin" THEN i ELSE 0
\* bytes of the well-formed body prefix from line i on: full lines, then at most one short line if END follows
RECURSIVE BodyBytes(_, _)
BodyBytes(tx, i) == IF i > Len(tx) \/ tx[i].k # "data" THEN 0
                    ELSE IF tx[i].n = Full THEN Full + BodyBytes(tx, i + 1)
                    ELSE IF i + 1 <= Len(tx) /\ tx[i + 1].k = "end" THEN tx[i].n ELSE 0
GoodBytes(tx) == LET b == OpenAt(tx, 1, 0) IN IF b = 0 THEN 0 ELSE BodyBytes(tx, b + 1)
\* the canonical shape:  ws* begin full* short? end ws*  with both whitespace runs under the limit
RECURSIVE FullRun(_, _)
FullRun(tx, i) == IF i <= Len(tx) /\ tx[i].k = "data" /\ tx[i].n = Full THEN FullRun(tx, i + 1) ELSE i
Canonical(tx) ==
  LET b == OpenAt(tx, 1, 0) IN
  /\ b > 0
  /\ LET f == FullRun(tx, b + 1)
         e == IF f <= Len(tx) /\ tx[f].k = "data" THEN f + 1 ELSE f
     IN /\ e <= Len(tx) /\ tx[e].k = "end"
        /\ \A j \in (e + 1)..Len(tx) : tx[j].k = "ws"
        /\ TrailBytes(tx, e + 1) < MaxWS
CanonBytes(tx) == GoodBytes(tx)

\* ------------------------------------------------------------------ properties (C08, C13, C14)
TypeOK == /\ (~Reading => (pos = 0 /\ err = "none" /\ hist = <<>>))
          /\ unread \in 0..Full /\ err \in {"none", "eof", "armor", "io"} /\ pos \in 0..Len(text)
          /\ delivered >= 0 /\ lead >= 0
\* C13: once an error has been returned nothing more is ever returned, and the error stays the same
Sticky == errSeen => /\ unread = 0 /\ err # "none"
                     /\ \A p \in ReadSizes : ReadResult(p).n = 0 /\ ReadResult(p).e = err
\* C08/C13: what has been delivered (or is about to be) is a prefix of the well-formed body
PrefixOnly == delivered + unread <= GoodBytes(text)
\* C08: a clean end only for the canonical shape, with every byte delivered or pending;
\* C13: and never when the source failed anywhere, even in place of the end-of-file
CleanOnlyIfCanonical == (err = "eof") => /\ srcFail = 0 /\ Canonical(text)
                                          /\ delivered + unread = GoodBytes(text)
\* C08: a canonical text read from a source that does not fail never ends in an error
CanonicalIsClean == (Canonical(text) /\ srcFail = 0) => err \in {"none", "eof"}
\* C08: without a failing source the only errors are the armor type and the clean end
ErrorTypes == (srcFail = 0) => err \in {"none", "eof", "armor"}
\* C14: a call with room returns data or an error (no empty successes, so io.ReadAll terminates)
Progress == \A p \in ReadSizes : p > 0 => (ReadResult(p).n > 0 \/ ReadResult(p).e # "")

\* ------------------------------------------------------------------ emission for replay
\* A behaviour is printed when its first error is returned, or when it is out of calls.  (hist is outside the VIEW,
\* so what happens after the first error - the same state again - is never a new state for TLC; the replay harness
\* makes those further calls itself and Sticky says what they must return.)
Done == errSeen
Compact(ln) == <<ln.k, ln.kind, ln.w, ln.t, ln.n>>
EmitCase == (Emit /\ Len(hist) > 0 /\ (Done \/ Len(hist) = MaxCalls)) =>
              PrintT("CASE " \o ToJson([text |-> [i \in 1..Len(text) |-> Compact(text[i])], srcFail |-> srcFail,
                                        calls |-> [i \in 1..Len(hist) |-> <<hist[i].p, hist[i].n, hist[i].e>>],
                                        good |-> GoodBytes(text), canonical |-> Canonical(text)]))
=============================================================================
