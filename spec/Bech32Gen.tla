----------------------------- MODULE Bech32Gen -----------------------------
(* Generators and oracle for key strings (C09, C17, C14).                    *)
(*  Mode "subst":    every single substitution of every position of the      *)
(*                   native recipient and identity strings of a seed-chosen  *)
(*                   key by every character of SubChars (charset, other      *)
(*                   printable ASCII, controls, case-folding confusables).   *)
(*  Mode "insert":   every single insertion, at every position including   *)
(*                   before the first and after the last character, of every *)
(*                   character of InsChars into the same two strings.        *)
(*  Mode "variants": valid-checksum strings that differ semantically: wrong  *)
(*                   HRP, wrong case, payload of 0/31/33 bytes, non-zero     *)
(*                   padding bits, a surplus group, plugin names over a      *)
(*                   class alphabet.                                         *)
(*  Mode "oracle":   recorded calls of the implementation are judged.        *)
(* Each case is emitted with the specification's verdict and checked against *)
(* the OneSpelling theorem.                                                  *)
EXTENDS Bech32, TLC, Json, IOUtils

CONSTANTS Mode, Seed, NShards, SubChars, NameAlphabet, MaxName, InsChars

Key == [i \in 1..32 |-> ((i * 53) + (Seed * 97) + ((i * i) % 11)) % 256]
RStr == RecipientString(Key)
IStr == IdentityString(Key)

VARIABLES shard, c
vars == <<shard, c>>

\* ------------------------------------------------------------------ subst
SubstFor(k, str, sh) == {[class |-> "subst", kind |-> k, a |-> p, b |-> ch] :
                           p \in {q \in 1..Len(str) : q % NShards = sh - 1}, ch \in SubChars}
SubstCases(sh) == SubstFor("R", RStr, sh) \cup SubstFor("I", IStr, sh)
\* ------------------------------------------------------------------ insert
\* one character of InsChars (blanks of every kind, invisible characters, charset characters) put in front of, behind or
\* anywhere inside a valid string: a is the number of characters that stay in front of it
InsertFor(k, str, sh) == {[class |-> "insert", kind |-> k, a |-> p, b |-> ch] :
                           p \in {q \in 0..Len(str) : q % NShards = sh - 1}, ch \in InsChars}
InsertCases(sh) == InsertFor("R", RStr, sh) \cup InsertFor("I", IStr, sh)
InsertInto(str, p, ch) == SubSeq(str, 1, p) \o <<ch>> \o SubSeq(str, p + 1, Len(str))
\* ------------------------------------------------------------------ variants
PayloadG(n) == ToGroups([i \in 1..n |-> Key[((i - 1) % 32) + 1]])
G32 == ToGroups(Key)
VariantList == <<
  [class |-> "ok_R", kind |-> "R", input |-> RStr],
  [class |-> "ok_I", kind |-> "I", input |-> IStr],
  [class |-> "wrongcase_R", kind |-> "R", input |-> ToUpper(RStr)],
  [class |-> "wrongcase_I", kind |-> "I", input |-> ToLower(IStr)],
  [class |-> "mixedcase_R", kind |-> "R", input |-> [RStr EXCEPT ![10] = Upper(RStr[10]), ![11] = Upper(RStr[11]), ![12] = Upper(RStr[12])]],
  [class |-> "mixedcase_hrp_I", kind |-> "I", input |-> [IStr EXCEPT ![2] = Lower(IStr[2])]],
  [class |-> "hrp_agf", kind |-> "R", input |-> EncodeGroups(<<97,103,102>>, G32)],
  [class |-> "hrp_ag", kind |-> "R", input |-> EncodeGroups(<<97,103>>, G32)],
  [class |-> "hrp_age1x", kind |-> "R", input |-> EncodeGroups(<<97,103,101,49,120>>, G32)],
  [class |-> "hrp_AGE", kind |-> "R", input |-> EncodeGroups(<<65,71,69>>, G32)],
  [class |-> "hrp_secret_R", kind |-> "R", input |-> IStr],
  [class |-> "hrp_age_I", kind |-> "I", input |-> RStr],
  [class |-> "hrp_secret_nodash", kind |-> "I", input |-> EncodeGroups(SubSeq(SecretHrp, 1, 14), G32)],
  [class |-> "hrp_secret_lower", kind |-> "I", input |-> EncodeGroups(ToLower(SecretHrp), G32)],
  [class |-> "len31_R", kind |-> "R", input |-> EncodeGroups(AgeHrp, PayloadG(31))],
  [class |-> "len33_R", kind |-> "R", input |-> EncodeGroups(AgeHrp, PayloadG(33))],
  [class |-> "len0_R", kind |-> "R", input |-> EncodeGroups(AgeHrp, <<>>)],
  [class |-> "len31_I", kind |-> "I", input |-> EncodeGroups(SecretHrp, PayloadG(31))],
  [class |-> "len33_I", kind |-> "I", input |-> EncodeGroups(SecretHrp, PayloadG(33))],
  [class |-> "len64_I", kind |-> "I", input |-> EncodeGroups(SecretHrp, PayloadG(64))],
  [class |-> "padbits_R", kind |-> "R", input |-> EncodeGroups(AgeHrp, [G32 EXCEPT ![52] = G32[52] + 1])],
  [class |-> "padbits_I", kind |-> "I", input |-> EncodeGroups(SecretHrp, [G32 EXCEPT ![52] = G32[52] + 8])],
  [class |-> "surplus_R", kind |-> "R", input |-> EncodeGroups(AgeHrp, G32 \o <<0>>)],
  [class |-> "surplus_I", kind |-> "I", input |-> EncodeGroups(SecretHrp, G32 \o <<0>>)],
  [class |-> "surplus2_R", kind |-> "R", input |-> EncodeGroups(AgeHrp, G32 \o <<0, 0>>)],
  [class |-> "bech32m_R", kind |-> "R", input |-> EncodeGroupsConst(AgeHrp, G32, 734539939)],
  [class |-> "bech32m_I", kind |-> "I", input |-> EncodeGroupsConst(SecretHrp, G32, 734539939)],
  [class |-> "checksum_const0_R", kind |-> "R", input |-> EncodeGroupsConst(AgeHrp, G32, 0)],
  [class |-> "checksum_const2_I", kind |-> "I", input |-> EncodeGroupsConst(SecretHrp, G32, 2)],
  [class |-> "bech32m_PR", kind |-> "PR", input |-> EncodeGroupsConst(PluginRcpPrefix \o <<120>>, PayloadG(3), 734539939)],
  [class |-> "sep_moved_R", kind |-> "R", input |-> <<97,103,49,101>> \o SubSeq(RStr, 5, Len(RStr))],
  [class |-> "truncated_R", kind |-> "R", input |-> SubSeq(RStr, 1, Len(RStr) - 1)],
  [class |-> "extended_R", kind |-> "R", input |-> RStr \o <<113>>],
  [class |-> "empty", kind |-> "R", input |-> <<>>],
  [class |-> "only_sep", kind |-> "R", input |-> <<49>>],
  [class |-> "no_sep", kind |-> "R", input |-> <<97,103,101>>],
  [class |-> "short_data", kind |-> "R", input |-> <<97,103,101,49,113,113,113,113,113>>],
  [class |-> "space_in", kind |-> "R", input |-> [RStr EXCEPT ![20] = 32]],
  [class |-> "kelvin_I", kind |-> "I", input |-> [IStr EXCEPT ![12] = 8490]],
  [class |-> "kelvin_data_I", kind |-> "I", input |-> [i \in 1..Len(IStr) |-> IF i > 16 /\ IStr[i] = 75 THEN 8490 ELSE IStr[i]]],
  [class |-> "longs_R", kind |-> "R", input |-> [i \in 1..Len(RStr) |-> IF i > 4 /\ RStr[i] = 115 THEN 383 ELSE RStr[i]]],
  [class |-> "fullwidth_R", kind |-> "R", input |-> [RStr EXCEPT ![1] = 65345]],
  [class |-> "doti_I", kind |-> "I", input |-> [IStr EXCEPT ![5] = 304]],
  \* only the data part in the other case (the prefix untouched)
  [class |-> "mixedcase_data_I", kind |-> "I", input |-> [i \in 1..Len(IStr) |-> IF i > 16 THEN Lower(IStr[i]) ELSE IStr[i]]],
  [class |-> "mixedcase_data_R", kind |-> "R", input |-> [i \in 1..Len(RStr) |-> IF i > 4 THEN Upper(RStr[i]) ELSE RStr[i]]],
  \* plugin strings whose human-readable part is exactly the fixed prefix (empty name), with valid checksums
  [class |-> "plugin_hrp_bare_PI", kind |-> "PI", input |-> EncodeGroups(PluginIdPrefix, PayloadG(3))],
  [class |-> "plugin_hrp_nodash_PI", kind |-> "PI", input |-> EncodeGroups(SubSeq(PluginIdPrefix, 1, 10), PayloadG(3))],
  [class |-> "plugin_hrp_twodash_PI", kind |-> "PI", input |-> EncodeGroups(PluginIdPrefix \o <<45>>, PayloadG(3))],
  [class |-> "plugin_hrp_bare_PR", kind |-> "PR", input |-> EncodeGroups(PluginRcpPrefix, PayloadG(3))],
  [class |-> "plugin_native_as_PR", kind |-> "PR", input |-> RStr],
  [class |-> "plugin_native_as_PI", kind |-> "PI", input |-> IStr]
>>

\* plugin strings: every name over NameAlphabet up to MaxName characters, in both positions, payload 0..2 bytes
RECURSIVE Names(_)
Names(n) == IF n = 0 THEN {<<>>} ELSE LET Prev == Names(n - 1) IN Prev \cup {Append(nm, ch) : nm \in {t \in Prev : Len(t) = n - 1}, ch \in NameAlphabet}
PluginCases(sh) == {[class |-> "plugin", kind |-> k, a |-> nm, b |-> pl, v |-> v] :
                      k \in {"PR", "PI"}, nm \in {x \in Names(MaxName) : Len(x) % NShards = sh - 1},
                      pl \in {0, 1, 5}, v \in {"canon", "surplus", "pad", "junkfront"}}
\* canon: the encoding; surplus: one more all-zero group (valid checksum); pad: a non-zero padding bit;
\* junkfront: the canonical encoding of the same name and payload under a human-readable part that has a path-like piece
\* in FRONT of the fixed prefix ("/age1name", "PWN/AGE-PLUGIN-NAME-"): the prefix is there, but not at the start
PluginInput(d) ==
  LET data == [i \in 1..d.b |-> Key[i]]
      g0 == ToGroups(data)
      g == CASE d.v \in {"canon", "junkfront"} -> g0
             [] d.v = "surplus" -> g0 \o <<0>>
             [] d.v = "pad" -> IF d.b = 1 THEN [g0 EXCEPT ![2] = g0[2] + 1] ELSE g0 \o <<0, 0>>
      jr == IF d.v = "junkfront" THEN <<47>> ELSE <<>>                 \* "/"
      ji == IF d.v = "junkfront" THEN <<80, 87, 78, 47>> ELSE <<>>     \* "PWN/"
  IN IF d.kind = "PR" THEN EncodeGroups(jr \o PluginRcpPrefix \o ToLower(d.a), g)
     ELSE EncodeGroups(ji \o PluginIdPrefix \o ToUpper(d.a) \o <<45>>, g)

InputOf(d) == CASE d.class = "subst" -> [(IF d.kind = "R" THEN RStr ELSE IStr) EXCEPT ![d.a] = d.b]
                [] d.class = "insert" -> InsertInto((IF d.kind = "R" THEN RStr ELSE IStr), d.a, d.b)
                [] d.class = "plugin" -> PluginInput(d)
                [] OTHER -> d.input

\* ------------------------------------------------------------------ oracle
Cases == IF Mode = "oracle" THEN ndJsonDeserialize(IOEnv.CASES) ELSE <<>>
OracleCases(sh) == {[class |-> "oracle", kind |-> Cases[i].kind, a |-> i, b |-> 0] : i \in {j \in 1..Len(Cases) : j % NShards = sh - 1}}

CasesOf(sh) == CASE Mode = "subst" -> SubstCases(sh)
                 [] Mode = "insert" -> InsertCases(sh)
                 [] Mode = "variants" -> IF sh = 1 THEN {VariantList[i] : i \in 1..Len(VariantList)} ELSE {}
                 [] Mode = "plugin" -> PluginCases(sh)
                 [] Mode = "oracle" -> OracleCases(sh)

Init == shard \in 1..NShards /\ c = [class |-> "none"]
Next == c.class = "none" /\ (\E d \in CasesOf(shard) : c' = d) /\ UNCHANGED shard
Spec == Init /\ [][Next]_vars

ParseOf(kind, s) == CASE kind = "R" -> LET r == ParseRecipient(s) IN [ok |-> r.ok, key |-> r.key, name |-> <<>>]
                      [] kind = "I" -> LET r == ParseIdentity(s) IN [ok |-> r.ok, key |-> r.key, name |-> <<>>]
                      [] kind = "PR" -> LET r == ParsePluginRecipient(s) IN [ok |-> r.ok, key |-> r.data, name |-> r.name]
                      [] kind = "PI" -> LET r == ParsePluginIdentity(s) IN [ok |-> r.ok, key |-> r.data, name |-> r.name]
Respell(kind, r) == CASE kind = "R" -> RecipientString(r.key)
                      [] kind = "I" -> IdentityString(r.key)
                      [] kind = "PR" -> PluginRecipientString(r.name, r.key)
                      [] kind = "PI" -> PluginIdentityString(r.name, r.key)

\* emitted for replay + OneSpelling checked on every generated string
Emit == (c.class # "none" /\ Mode # "oracle") =>
          LET s == InputOf(c)
              r == ParseOf(c.kind, s)
              one == r.ok => (Respell(c.kind, r) = s)
          IN one /\ PrintT("CASE " \o ToJson([class |-> (IF c.class = "plugin" THEN "plugin_" \o c.v ELSE c.class), kind |-> c.kind, input |-> s, ok |-> r.ok, key |-> r.key, name |-> r.name,
                                             payload |-> (IF c.class = "plugin" THEN c.b ELSE 0 - 1),
                                             base |-> (IF c.class = "insert" THEN (IF c.kind = "R" THEN RStr ELSE IStr) ELSE <<>>),
                                             orig |-> (c.class = "subst" /\ s = (IF c.kind = "R" THEN RStr ELSE IStr))]))
\* a single substitution that changes the string is never accepted (consequence of Dist5, checked directly here)
SubstRejected == (c.class # "none" /\ Mode = "subst") =>
          LET s == InputOf(c) base == (IF c.kind = "R" THEN RStr ELSE IStr) IN (s # base) => ~ParseOf(c.kind, s).ok
\* a string with one character more than a valid one is never accepted (32 bytes are exactly 52 groups)
InsertRejected == (c.class # "none" /\ Mode = "insert") => ~ParseOf(c.kind, InputOf(c)).ok
Judge == (c.class # "none" /\ Mode = "oracle") =>
          LET rec == Cases[c.a]
              v == IF rec.kind = "ENC"
                   THEN (IF Encode(rec.hrp, rec.data) = rec.input THEN "ok" ELSE "encode-differs")
                   ELSE LET r == ParseOf(rec.kind, rec.input) IN
                        IF r.ok # rec.ok \/ (rec.ok /\ (r.key # rec.key \/ r.name # rec.name)) THEN "disagree"
                        ELSE IF r.ok /\ Respell(rec.kind, r) # rec.input THEN "noncanonical" ELSE "ok"
          IN IF v = "ok" THEN TRUE ELSE PrintT("BAD " \o ToJson([i |-> c.a, why |-> v, label |-> rec.label]))
RoundTripKey == RoundTripR(Key) /\ RoundTripI(Key)
=============================================================================
