------------------------------ MODULE AgeFlowInd ------------------------------
(* One frame of AgeFlow for ANY number N of recipients / identities, as an     *)
(* Apalache problem: IndInv is inductive (Init => IndInv at length 0,          *)
(* IndInv /\ Next => IndInv' at length 1 from IndInit), and it implies what    *)
(* C01 / C03 / C11 need from the control flow:                                 *)
(*   a Decrypt that reaches the payload ("done") was opened by exactly one     *)
(*   Unwrap, the last one, after at most N consultations, and passed the MAC;  *)
(*   a no-match result ("failed" out of "unwrap" with nothing opened) comes    *)
(*   only after all N identities; an Encrypt that reaches the payload wrapped   *)
(*   exactly N recipients with one label count and wrote header then nonce.    *)
(* TLC checks the same for N <= 3 in AgeFlowMC; here N is unbounded.           *)
EXTENDS AgeFlow

CONSTANT
  \* @type: Int;
  N
VARIABLES
  \* @type: $frame;
  f,
  \* @type: Str;
  lastEv,       \* the event that produced f
  \* @type: Int;
  lastArg

CInit == N \in Nat /\ N >= 1

Kinds == {"enc", "dec"}
\* @type: Set($event);
Events == {[ev |-> "age.enc.wrap", a |-> <<c, lb>>] : c \in {1, 3}, lb \in 0..1}
          \cup {[ev |-> e, a |-> <<ok>>] : e \in {"age.enc.header", "age.enc.nonce", "age.dec.mac", "age.dec.nonce", "age.dec.header"}, ok \in 0..1}
          \cup {[ev |-> "age.enc.rand", a |-> <<0>>], [ev |-> "age.enc.mac", a |-> <<0>>]}
          \cup {[ev |-> "age.enc.incompatible", a |-> <<0>>], [ev |-> "age.dec.nomatch", a |-> <<0>>]}
          \cup {[ev |-> "age.dec.unwrap", a |-> <<c, k>>] : c \in 1..3, k \in {0, 16}}

Init == \E k \in Kinds : f = Frame(k, N) /\ lastEv = "begin" /\ lastArg = 0
Next == \E e \in Events : LET r == Step(f, e) IN
           /\ f.pc \notin {"done", "failed"}
           /\ r.ok /\ f' = r.f /\ lastEv' = e.ev /\ lastArg' = e.a[1]

Pcs == {"wrap", "refuse", "nonce", "done", "failed", "parse", "unwrap", "mac", "nokey"}
TypeOK == /\ f.kind \in Kinds /\ f.n = N /\ f.pc \in Pcs /\ f.i \in 0..N /\ f.lab \in (0 - 1)..1 /\ f.opened \in BOOLEAN
IndInv ==
  /\ TypeOK
  /\ (f.kind = "dec") =>
       /\ f.pc \in {"parse", "unwrap", "mac", "nokey", "nonce", "done", "failed"}
       /\ (f.pc = "parse" => f.i = 0 /\ ~f.opened)
       /\ (f.pc = "unwrap" => ~f.opened)                          \* still consulting: nothing has opened the file
       /\ (f.pc \in {"mac", "nonce", "done"} => f.opened /\ f.i >= 1)   \* the payload side is reached only through an opener
       /\ (f.pc = "nokey" => ~f.opened /\ f.i >= 1)
       /\ (f.pc = "done" => lastEv = "age.dec.nonce" /\ lastArg = 1)
       \* a no-match verdict: every identity was consulted (or one returned no key and no error)
       /\ (f.pc = "failed" /\ lastEv = "age.dec.nomatch" => ~f.opened /\ (f.i = N \/ f.i >= 1))
  /\ (f.kind = "enc") =>
       /\ f.pc \in {"wrap", "refuse", "nonce", "done", "failed"}
       /\ ~f.opened
       /\ (f.pc \in {"nonce", "done"} => f.i = N)               \* header (and then nonce) only after all N wraps
       /\ (f.pc = "refuse" => f.i >= 2)
       /\ (f.pc = "done" => lastEv = "age.enc.nonce" /\ lastArg = 1)
       /\ (f.i >= 1 /\ f.pc # "failed" => f.lab \in 0..1)
\* any state satisfying the invariant (for the inductive step)
IndInit == /\ f \in [kind : Kinds, n : {N}, pc : Pcs, i : 0..N, lab : (0 - 1)..1, opened : BOOLEAN]
           /\ lastEv \in {"begin", "age.dec.nonce", "age.enc.nonce", "age.dec.nomatch", "age.dec.unwrap", "age.enc.wrap", "other"}
           /\ lastArg \in 0..3
           /\ IndInv

\* consequences used by the checks (implied by IndInv; stated for the reader and checked too)
PayloadOnlyAfterOpenAndMac == (f.kind = "dec" /\ f.pc = "done") => f.opened
HeaderOnlyAfterAllWraps == (f.kind = "enc" /\ f.pc \in {"nonce", "done"}) => f.i = N
===============================================================================
