------------------------------ MODULE StreamMC ------------------------------
(* Small-step machines for the STREAM reader and writer with their            *)
(* environment, model checked with small constants (C = 2..4, T = 1).         *)
(*                                                                            *)
(* Reader: one action per critical section of stream.Reader.Read:             *)
(*   Call(p)   entry: serve unread bytes / sticky error / start a chunk       *)
(*   Fill      ONE src.Read inside io.ReadFull: the source hands over any     *)
(*             k >= 1 of the remaining units, alone or together with EOF;     *)
(*             or (0, EOF); or the injected failure                           *)
(*   (Decide)  the end of ReadFull: open as non-final, retry as final, the    *)
(*             empty-final-chunk rule, short chunk = final                    *)
(*   Probe     the one-byte read after a final chunk                          *)
(* The source is independent of the reader, so TLC explores every delivery    *)
(* schedule against every read-buffer size.                                   *)
(*                                                                            *)
(* Writer: Write(n) and Close as in Stream!WWrite/WClose with the failing     *)
(* dst.Write chosen by the environment.                                       *)
EXTENDS Stream, TLC, Json

CONSTANTS KeepHist,      \* BOOLEAN: record the schedule in hist (generation runs)
          Mode,          \* "reader" | "writer"
          MaxL,          \* honest plaintexts of 0..MaxL units
          ReadSizes,     \* read-buffer sizes
          WriteSizes, MaxWrites,
          Faults,        \* BOOLEAN: inject source / destination failures
          ProbeIgnoresN  \* deviation switch: TRUE = the probe looks at the error only (the code before the F1 fix)

\* ---------------------------------------------------------------- files the reader is run on
G1 == Garbage(1)
Truncations(f) == {[file |-> f, avail |-> a] : a \in 0..TotalSize(f)}
Variants(L) ==
  LET h == Honest(L) n == Len(h) IN
       Truncations(h)
  \cup {[file |-> h \o <<G1>>, avail |-> TotalSize(h) + 1], [file |-> h \o <<Garbage(2)>>, avail |-> TotalSize(h) + 2],
        [file |-> h \o <<Garbage(E)>>, avail |-> TotalSize(h) + E]}
  \cup {[file |-> [h EXCEPT ![i] = Garbage(h[i].size)], avail |-> TotalSize(h)] : i \in 1..n}              \* a chunk corrupted in place
  \cup {[file |-> SubSeq(h, 1, i - 1) \o SubSeq(h, i + 1, n), avail |-> TotalSize(h) - h[i].size] : i \in 1..n} \* a chunk dropped
  \cup {[file |-> SubSeq(h, 1, i) \o SubSeq(h, i, n), avail |-> TotalSize(h) + h[i].size] : i \in 1..n}      \* a chunk duplicated
  \cup (IF n >= 2 THEN {[file |-> <<h[2], h[1]>> \o SubSeq(h, 3, n), avail |-> TotalSize(h)]} ELSE {})       \* first two swapped
  \cup {[file |-> [h EXCEPT ![n] = Sealed("K", n - 1, FALSE, h[n].len)], avail |-> TotalSize(h)]}            \* final flag cleared
  \cup {[file |-> [h EXCEPT ![1] = Sealed("K", 0, TRUE, h[1].len)], avail |-> TotalSize(h)]}                 \* first chunk flagged final
  \cup {[file |-> h \o <<Sealed("K", n, TRUE, 0)>>, avail |-> TotalSize(h) + T]}                            \* an empty final chunk appended
  \cup {[file |-> [h EXCEPT ![n] = Sealed("K", n - 1, FALSE, h[n].len)] \o <<Sealed("K", n, TRUE, 0)>>, avail |-> TotalSize(h) + T]}
  \cup {[file |-> [h EXCEPT ![i] = Sealed("X", h[i].ctr, h[i].fin, h[i].len)], avail |-> TotalSize(h)] : i \in 1..n} \* foreign key
Inputs == UNION {Variants(L) : L \in 0..MaxL}

\* ---------------------------------------------------------------- reader machine
VARIABLES file, avail,                       \* the source content (fixed)
          pos, eofSeen, failAt, fired,       \* source state; failAt: offset at which a Read fails (-1: never)
          phase, start, got, p,              \* "idle" | "fill" | "probe"; block being read is [start, start+got)
          ctr, rerr, unread, released, lastEnd,
          ws, wlog,                          \* writer state and log (writer mode)
          hist                               \* history of environment and caller choices (hidden by VIEW in exhaustive runs)
vars == <<file, avail, pos, eofSeen, failAt, fired, phase, start, got, p, ctr, rerr, unread, released, lastEnd, ws, wlog, hist>>
view == <<file, avail, pos, eofSeen, failAt, fired, phase, start, got, p, ctr, rerr, unread, released, lastEnd, ws, wlog>>
rvars == <<file, avail, pos, eofSeen, failAt, fired, phase, start, got, p, ctr, rerr, unread, released, lastEnd>>

RInitS == /\ \E x \in Inputs : file = x.file /\ avail = x.avail
          /\ failAt \in (IF Faults THEN -1..(MaxL + MaxL \div C + 2) ELSE {-1})
          /\ pos = 0 /\ eofSeen = FALSE /\ fired = FALSE
          /\ phase = "idle" /\ start = 0 /\ got = 0 /\ p = 0
          /\ ctr = 0 /\ rerr = "none" /\ unread = 0 /\ released = 0 /\ lastEnd = 0

Remaining == avail - pos

H(e) == hist' = (IF KeepHist THEN Append(hist, e) ELSE hist)
Call(n) ==
  /\ phase = "idle" /\ H([a |-> "read", n |-> n, eof |-> FALSE])
  /\ ~(KeepHist /\ rerr # "none" /\ unread = 0)       \* generation runs end where the reader has ended
  /\ IF unread > 0
     THEN LET r == Mn(n, unread) IN
          /\ released' = released + r /\ unread' = unread - r
          /\ UNCHANGED <<file, avail, pos, eofSeen, failAt, fired, phase, start, got, p, ctr, rerr, lastEnd>>
     ELSE IF rerr # "none" \/ n = 0 THEN UNCHANGED rvars
     ELSE /\ phase' = "fill" /\ start' = pos /\ got' = 0 /\ p' = n
          /\ UNCHANGED <<file, avail, pos, eofSeen, failAt, fired, ctr, rerr, unread, released, lastEnd>>

\* the end of io.ReadFull with block [start, start+n) and error class e \in {"nil", "EOF", "UEOF", "IOERR"}
Decide(n, e) ==
  IF e = "IOERR" THEN /\ rerr' = "srcerr" /\ phase' = "idle" /\ UNCHANGED <<ctr, unread, released, lastEnd>>
  ELSE IF e = "EOF" THEN /\ rerr' = "fail" /\ phase' = "idle" /\ UNCHANGED <<ctr, unread, released, lastEnd>>
  ELSE LET short == (e = "UEOF")
           emptyLast == short /\ ctr # 0 /\ n = T
           okNF == ~short /\ OpensAt(file, avail, start, n, ctr, FALSE)
           okF == OpensAt(file, avail, start, n, ctr, TRUE)
       IN IF emptyLast \/ ~(okNF \/ okF)
          THEN /\ rerr' = "fail" /\ phase' = "idle" /\ UNCHANGED <<ctr, unread, released, lastEnd>>
          ELSE LET pl == n - T
                   give == Mn(p, pl)
               IN /\ ctr' = ctr + 1 /\ released' = released + give /\ unread' = pl - give
                  /\ lastEnd' = start + n
                  /\ phase' = IF okNF THEN "idle" ELSE "probe"
                  /\ UNCHANGED rerr

SrcFailsNow == Faults /\ ~fired /\ failAt = pos

Fill ==
  /\ phase = "fill"
  /\ \/ /\ SrcFailsNow /\ fired' = TRUE /\ H([a |-> "srcfail", n |-> 0, eof |-> FALSE])   \* (0, error)
        /\ Decide(got, "IOERR") /\ UNCHANGED <<file, avail, pos, eofSeen, failAt, start, got, p>>
     \/ /\ ~SrcFailsNow /\ Remaining = 0 /\ eofSeen' = TRUE /\ H([a |-> "deliver", n |-> 0, eof |-> TRUE])  \* (0, EOF)
        /\ Decide(got, IF got = 0 THEN "EOF" ELSE "UEOF")
        /\ UNCHANGED <<file, avail, pos, failAt, fired, start, got, p>>
     \/ /\ ~SrcFailsNow
        /\ \E k \in 1..Remaining : \E withEOF \in BOOLEAN :
             /\ k <= E - got
             /\ withEOF => (k = Remaining)
             /\ (Faults /\ ~fired /\ failAt > pos) => (pos + k <= failAt)   \* the failure is met exactly at its offset
             /\ pos' = pos + k /\ eofSeen' = (eofSeen \/ withEOF) /\ H([a |-> "deliver", n |-> k, eof |-> withEOF])
             /\ IF got + k = E THEN Decide(E, "nil") /\ got' = E
                ELSE IF withEOF THEN Decide(got + k, "UEOF") /\ got' = got + k
                ELSE /\ got' = got + k /\ UNCHANGED <<phase, ctr, rerr, unread, released, lastEnd>>
             /\ UNCHANGED <<file, avail, failAt, fired, start, p>>

\* the one-byte read after a final chunk.  A unit that arrives means trailing data, with or without EOF.
Probe ==
  /\ phase = "probe" /\ phase' = "idle"
  /\ \/ /\ SrcFailsNow /\ fired' = TRUE /\ rerr' = "srcerr" /\ UNCHANGED <<pos, eofSeen>> /\ H([a |-> "srcfail", n |-> 0, eof |-> FALSE])
     \/ /\ ~SrcFailsNow /\ Remaining = 0 /\ rerr' = "eof" /\ eofSeen' = TRUE /\ UNCHANGED <<pos, fired>> /\ H([a |-> "deliver", n |-> 0, eof |-> TRUE])
     \/ /\ ~SrcFailsNow /\ Remaining >= 1 /\ pos' = pos + 1
        /\ \E withEOF \in BOOLEAN : /\ (withEOF => Remaining = 1) /\ eofSeen' = (eofSeen \/ withEOF)
                                     /\ rerr' = (IF ProbeIgnoresN /\ withEOF THEN "eof" ELSE "fail")
                                     /\ H([a |-> "deliver", n |-> 1, eof |-> withEOF])
        /\ UNCHANGED fired
  /\ UNCHANGED <<file, avail, failAt, start, got, p, ctr, unread, released, lastEnd>>


\* ---------------------------------------------------------------- writer machine
WInitS == ws = WInit /\ wlog = [calls |-> 0, allOK |-> TRUE, dstCalls |-> 0]
DoWrite(n, f) == LET r == WWrite(ws, n, f) IN
                 /\ ws' = r.st /\ hist' = (IF KeepHist THEN Append(hist, [a |-> "write", n |-> n, f |-> f, ret |-> r.ret, err |-> r.err]) ELSE hist)
                 /\ wlog' = [calls |-> wlog.calls + 1, allOK |-> wlog.allOK /\ r.err = "" /\ r.ret = n, dstCalls |-> Len(r.st.frames)]
DoClose(f) == LET r == WClose(ws, f) IN
              /\ ws' = r.st /\ hist' = (IF KeepHist THEN Append(hist, [a |-> "close", n |-> 0, f |-> (IF f THEN 1 ELSE 0), ret |-> 0, err |-> r.err]) ELSE hist)
              /\ wlog' = [calls |-> wlog.calls + 1, allOK |-> wlog.allOK /\ r.err = "", dstCalls |-> Len(r.st.frames)]
\* top-level actions (one per critical section / environment step), so that TLC reports coverage per action
RCall == Mode = "reader" /\ (\E n \in ReadSizes : Call(n)) /\ UNCHANGED <<ws, wlog>>
RFill == Mode = "reader" /\ Fill /\ UNCHANGED <<ws, wlog>>
RProbe == Mode = "reader" /\ Probe /\ UNCHANGED <<ws, wlog>>
\* generation runs stop at Close, except in mode "writer-postclose", whose histories go on calling a closed writer
IsWriter == Mode \in {"writer", "writer-postclose"}
WCanStep == IsWriter /\ wlog.calls < MaxWrites /\ (ws.err # "closed" \/ ~KeepHist \/ Mode = "writer-postclose")
WWriteA == /\ WCanStep
           /\ \E n \in WriteSizes : \E f \in (IF Faults THEN 0..(Flushes(ws.buf, n)) ELSE {0}) : DoWrite(n, f)
           /\ UNCHANGED rvars
WCloseA == /\ WCanStep
           /\ \E f \in (IF Faults THEN BOOLEAN ELSE {FALSE}) : DoClose(f)
           /\ UNCHANGED rvars

WriterIdleReader == /\ file = <<>> /\ avail = 0 /\ failAt = -1
                    /\ pos = 0 /\ eofSeen = FALSE /\ fired = FALSE /\ phase = "idle" /\ start = 0 /\ got = 0 /\ p = 0
                    /\ ctr = 0 /\ rerr = "none" /\ unread = 0 /\ released = 0 /\ lastEnd = 0
Init == /\ hist = <<>>
        /\ (IF Mode = "reader"
            THEN (RInitS /\ ws = WInit /\ wlog = [calls |-> 0, allOK |-> TRUE, dstCalls |-> 0])
            ELSE (WInitS /\ WriterIdleReader))
Next == RCall \/ RFill \/ RProbe \/ WWriteA \/ WCloseA
Spec == Init /\ [][Next]_vars

\* ---------------------------------------------------------------- properties
\* C02: only authentic plaintext, in its proper position, is ever released
PrefixOnlyS == released + unread <= GoodPlain(file, avail)
\* C02/C13: a clean end of stream only for the untouched file and only if the source never failed
CleanOnlyIfHonestS == (rerr = "eof") => (IsHonest(file, avail) /\ ~fired)
\* C13: a source failure is reported as such, never as clean EOF
FailureSurfaces == fired => rerr \in {"srcerr", "fail"} \/ phase # "idle"
\* C12: the terminal result is a function of the source content, not of the schedule or the buffer sizes
ScheduleIndependence ==
  (rerr # "none" /\ unread = 0 /\ phase = "idle" /\ ~fired) =>
      LET o == ReadAll(file, avail) IN released = o.released /\ rerr = o.class
\* C12: streaming: never more than one chunk plus the probe byte ahead of what has been opened
ReadAhead == pos <= lastEnd + E + 1
\* the internal-error panic of readChunk ("dirty buffer") is unreachable
NoPanicR == (phase = "fill") => unread = 0
\* C13/C02: errors are sticky (action property)
Sticky == [][(rerr # "none") => (rerr' = rerr)]_vars
StickyW == [][(ws.err # "none") => (ws'.err = ws.err \/ (ws.err = "none"))]_vars
TypeOK == pos >= 0 /\ pos <= avail /\ got >= 0 /\ got <= E /\ unread >= 0 /\ unread <= C

\* writer
HoldbackW == Holdback(ws)
FrameShapeW == FrameShape(ws)
SuccessMeansCompleteW == (wlog.allOK /\ ws.err = "closed") => SuccessMeansComplete(ws)
\* "flush called with partial chunk" is unreachable: every non-final frame is full (part of FrameShape)
FailureSurfacesW == (\E i \in 1..Len(ws.frames) : ~ws.frames[i].okay) => (~wlog.allOK /\ ws.err = "io")

\* ---------------------------------------------------------------- generation (KeepHist = TRUE)
\* a complete reader schedule: the reader has ended and everything was handed to the caller
EmitReader == (KeepHist /\ Mode = "reader" /\ rerr # "none" /\ unread = 0 /\ phase = "idle") =>
   PrintT("CASE " \o ToJson([file |-> file, avail |-> avail, failAt |-> failAt, fired |-> fired, hist |-> hist,
                              class |-> rerr, released |-> released, honest |-> IsHonest(file, avail)]))
\* a complete writer history (closed, or failed)
EmitWriter == (KeepHist /\ IsWriter /\ ws.err # "none") =>
   PrintT("CASE " \o ToJson([hist |-> hist, frames |-> ws.frames, acc |-> ws.acc, err |-> ws.err, allOK |-> wlog.allOK]))
=============================================================================
