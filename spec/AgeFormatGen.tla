----------------------------- MODULE AgeFormatGen -----------------------------
(* Prints the format terms of AgeFormat for every recipient list in bound     *)
(* (C05, C06), the reading-side terms, and single forged stanzas.  TLC also   *)
(* checks the draw-plan theorems of C06 on each list: every draw has exactly  *)
(* one role, the file key and the nonce are the first and last draw, and no   *)
(* draw atom occurs in two stanzas.                                           *)
EXTENDS AgeFormat, FiniteSets

CONSTANTS MaxRecips, WF

Universe == {[k |-> "X", id |-> "x1", wf |-> 0], [k |-> "X", id |-> "x2", wf |-> 0], [k |-> "E", id |-> "e1", wf |-> 0],
             [k |-> "E", id |-> "e2", wf |-> 0], [k |-> "R", id |-> "r1", wf |-> 0]}
ScryptAlone == <<[k |-> "S", id |-> "s1", wf |-> WF]>>
Lists == UNION {[1..n -> Universe] : n \in 1..MaxRecips} \cup {ScryptAlone}

VARIABLE rs
Init == rs \in Lists
Next == UNCHANGED rs
Spec == Init /\ [][Next]_rs

Plan == DrawPlan(rs)
\* C06 on the format definition
RoleSeparation ==
  /\ Plan[1].role = "filekey" /\ Plan[Len(Plan)].role = "nonce"
  /\ \A i \in 1..Len(rs) : \A j \in 1..Len(rs) : i # j =>
        {n \in 1..Len(Plan) : Plan[n].rcp = i} \cap {n \in 1..Len(Plan) : Plan[n].rcp = j} = {}
  /\ \A i \in 1..Len(rs) : Cardinality({n \in 1..Len(Plan) : Plan[n].rcp = i}) = Len(DrawRoles(rs[i]))
  /\ Cardinality({n \in 1..Len(Plan) : Plan[n].rcp = 0}) = 2
Emit == RoleSeparation /\
        PrintT("TERM " \o ToJson([rs |-> rs, plan |-> [n \in 1..Len(Plan) |-> [role |-> Plan[n].role, rcp |-> Plan[n].rcp, size |-> DrawSize(Plan[n].role)]],
                                   file |-> FileOf(rs), armored |-> Armor(FileOf(rs))]))

\* C06 for the command line's own secret: ten word draws, none of them a draw of the file, the file's plan unchanged behind them
CliPlan == CliPassphrasePlan
CliRoleSeparation ==
  /\ Len(CliPlan) = CliWords + Len(DrawPlan(<<CliAutoRecipient>>))
  /\ \A n \in 1..CliWords : CliPlan[n].role = "word" /\ CliPlan[n].rcp = 0 - n
  /\ \A n \in 1..Len(CliPlan) : \A m \in 1..Len(CliPlan) : (n # m /\ CliPlan[n].role = "word") => CliPlan[n].rcp # CliPlan[m].rcp
  /\ [n \in 1..Len(DrawPlan(<<CliAutoRecipient>>)) |-> CliPlan[CliWords + n]] = DrawPlan(<<CliAutoRecipient>>)
ASSUME CliRoleSeparation
ASSUME PrintT("CLIPLAN " \o ToJson([n \in 1..Len(CliPlan) |-> [role |-> CliPlan[n].role, rcp |-> CliPlan[n].rcp, size |-> DrawSize(CliPlan[n].role)]]))
ASSUME PrintT("READING " \o ToJson(ReadingTerms))
ASSUME PrintT("FORGE " \o ToJson([x |-> ForgedStanza([k |-> "X", id |-> "k", wf |-> 0]),
                                  e |-> ForgedStanza([k |-> "E", id |-> "k", wf |-> 0]),
                                  r |-> ForgedStanza([k |-> "R", id |-> "k", wf |-> 0]),
                                  s |-> ForgedStanza([k |-> "S", id |-> "k", wf |-> WF])]))
ASSUME PrintT("FORGESCRYPT " \o ToJson([n \in 1..14 |-> ForgedStanza([k |-> "S", id |-> "k", wf |-> n])]))
ASSUME PrintT("PAYLOAD " \o ToJson(Cat(<<Atom("nonce"), Stream(PayloadKey(Atom("fk"), Atom("nonce")), Atom("plaintext"))>>)))
=============================================================================
