----------------------------- MODULE AgeHeader -----------------------------
(* The age v1 textual header at the byte level.                              *)
(*                                                                           *)
(*   Parse(s)    what internal/format.Parse must make of the byte string s   *)
(*   Marshal(h)  the one serialisation of a header                           *)
(*                                                                           *)
(* A header is [stanzas |-> <<[type, args, body]>>, mac |-> bytes]; every    *)
(* string is a sequence of byte values.  Parse returns the header and the    *)
(* unread remainder (the payload).  The theorems Canonical / RoundTrip are   *)
(* checked by TLC over generated inputs (HeaderGen) and over recorded        *)
(* inputs of the implementation (HeaderOracle).                              *)
EXTENDS Bytes

Intro == <<97,103,101,45,101,110,99,114,121,112,116,105,111,110,46,111,114,103,47,118,49,10>> \* "age-encryption.org/v1\n"
StanzaPrefix == <<DASH, GT>>           \* "->"
FooterPrefix == <<DASH, DASH, DASH>>   \* "---"
BytesPerLine == 48
ColumnsPerLine == 64
MacLen == 32

Reject == [ok |-> FALSE, stanzas |-> <<>>, mac |-> <<>>, rest |-> <<>>]

\* printable ASCII without space, non-empty (types and arguments)
VChars(a) == Len(a) > 0 /\ \A i \in 1..Len(a) : a[i] >= 33 /\ a[i] <= 126

\* body lines starting at offset i: [ok, body, next]
RECURSIVE Body(_, _, _)
Body(s, i, acc) ==
  LET e == NextLF(s, i) IN
  IF e = 0 THEN [ok |-> FALSE, body |-> <<>>, next |-> 0]
  ELSE LET d == DecodeRaw(SubSeq(s, i, e - 1)) IN
       IF ~d.ok \/ Len(d.bytes) > BytesPerLine THEN [ok |-> FALSE, body |-> <<>>, next |-> 0]
       ELSE IF Len(d.bytes) < BytesPerLine
            THEN [ok |-> TRUE, body |-> acc \o d.bytes, next |-> e + 1]   \* a short line ends the body
            ELSE Body(s, e + 1, acc \o d.bytes)

\* stanzas, then the footer, starting at offset i
RECURSIVE Stanzas(_, _, _)
Stanzas(s, i, acc) ==
  IF Len(s) < i + 2 THEN Reject                       \* fewer than three bytes left to peek at
  ELSE IF HasPrefixAt(s, i, FooterPrefix) THEN
     LET e == NextLF(s, i) IN
     IF e = 0 THEN Reject
     ELSE LET parts == SplitSP(SubSeq(s, i, e - 1)) IN
          IF Len(parts) # 2 \/ parts[1] # FooterPrefix THEN Reject
          ELSE LET m == DecodeRaw(parts[2]) IN
               IF ~m.ok \/ Len(m.bytes) # MacLen THEN Reject
               ELSE [ok |-> TRUE, stanzas |-> acc, mac |-> m.bytes, rest |-> SubSeq(s, e + 1, Len(s))]
  ELSE LET e == NextLF(s, i) IN
     IF e = 0 THEN Reject
     ELSE LET parts == SplitSP(SubSeq(s, i, e - 1)) IN
          IF Len(parts) < 2 \/ parts[1] # StanzaPrefix \/ (\E k \in 2..Len(parts) : ~VChars(parts[k]))
          THEN Reject
          ELSE LET b == Body(s, e + 1, <<>>) IN
               IF ~b.ok THEN Reject
               ELSE Stanzas(s, b.next, Append(acc, [type |-> parts[2],
                                                     args |-> SubSeq(parts, 3, Len(parts)),
                                                     body |-> b.body]))

Parse(s) == IF ~HasPrefixAt(s, 1, Intro) THEN Reject ELSE Stanzas(s, Len(Intro) + 1, <<>>)

-----------------------------------------------------------------------------
\* base64 text of a body wrapped at 64 columns; always ends on a short
\* (possibly empty) line
RECURSIVE Wrap64(_)
Wrap64(b) == IF Len(b) < BytesPerLine THEN EncodeRaw(b) \o <<LF>>
             ELSE EncodeRaw(SubSeq(b, 1, BytesPerLine)) \o <<LF>> \o Wrap64(SubSeq(b, BytesPerLine + 1, Len(b)))

RECURSIVE JoinArgs(_)
JoinArgs(a) == IF Len(a) = 0 THEN <<>> ELSE <<SP>> \o a[1] \o JoinArgs(Tail(a))

MarshalStanza(st) == StanzaPrefix \o <<SP>> \o st.type \o JoinArgs(st.args) \o <<LF>> \o Wrap64(st.body)

RECURSIVE MarshalAll(_)
MarshalAll(ss) == IF Len(ss) = 0 THEN <<>> ELSE MarshalStanza(ss[1]) \o MarshalAll(Tail(ss))

MarshalNoMac(h) == Intro \o MarshalAll(h.stanzas) \o FooterPrefix
Marshal(h) == MarshalNoMac(h) \o <<SP>> \o EncodeRaw(h.mac) \o <<LF>>

WellFormedStanza(st) == VChars(st.type) /\ \A k \in 1..Len(st.args) : VChars(st.args[k])
WellFormed(h) == Len(h.mac) = MacLen /\ \A k \in 1..Len(h.stanzas) : WellFormedStanza(h.stanzas[k])

HeaderOf(r) == [stanzas |-> r.stanzas, mac |-> r.mac]

\* C07: accepted input re-serialises to itself followed by exactly the remainder
Canonical(s) == LET r == Parse(s) IN r.ok => (Marshal(HeaderOf(r)) \o r.rest = s)
\* C07: a well-formed header parses back to itself, whatever payload follows
RoundTrip(h, payload) == WellFormed(h) =>
     LET r == Parse(Marshal(h) \o payload) IN r.ok /\ HeaderOf(r) = h /\ r.rest = payload
=============================================================================
