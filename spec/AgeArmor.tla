------------------------------ MODULE AgeArmor ------------------------------
(* The age ASCII armor at the byte level: strict PEM with type              *)
(* "AGE ENCRYPTED FILE", 64 columns, padded std base64, no headers.         *)
(*                                                                           *)
(*   Armor(b)      the one armoring of the byte string b                    *)
(*   Dearmor(t)    [ok, bytes] : what armor.NewReader must make of text t   *)
(*   Normalise(t)  t with the documented tolerances removed: whitespace-only*)
(*                 lines before the BEGIN line, CR before LF at line ends,  *)
(*                 whitespace after the END line, a missing final LF        *)
(*                                                                           *)
(* C08:  Dearmor(Armor(b)) = b, and  Dearmor(t).ok => Armor(bytes) =        *)
(* Normalise(t).                                                             *)
EXTENDS Bytes

ArmorHeader == <<45,45,45,45,45,66,69,71,73,78,32,65,71,69,32,69,78,67,82,89,80,84,69,68,32,70,73,76,69,45,45,45,45,45>>
ArmorFooter == <<45,45,45,45,45,69,78,68,32,65,71,69,32,69,78,67,82,89,80,84,69,68,32,70,73,76,69,45,45,45,45,45>>
MaxWS == 1024
ABytesPerLine == 48
AColumns == 64

\* Whitespace is what Go's bytes.TrimSpace removes: the six ASCII characters and, in UTF-8, U+0085, U+00A0, U+1680,
\* U+2000..U+200A, U+2028, U+2029, U+202F, U+205F, U+3000.  (The implementation's notion, modelled as it is.)
WSBytes == {SP, TAB, CR, LF, 11, 12}
\* length of the whitespace token at position i of l (0: none)
WSTok(l, i) ==
  LET n == Len(l)
      b(k) == IF i + k <= n THEN l[i + k] ELSE 0 - 1
  IN IF l[i] \in WSBytes THEN 1
     ELSE IF l[i] = 194 /\ b(1) \in {133, 160} THEN 2
     ELSE IF l[i] = 225 /\ b(1) = 154 /\ b(2) = 128 THEN 3
     ELSE IF l[i] = 226 /\ b(1) = 128 /\ b(2) \in (128..138) \cup {168, 169, 175} THEN 3
     ELSE IF l[i] = 226 /\ b(1) = 129 /\ b(2) = 159 THEN 3
     ELSE IF l[i] = 227 /\ b(1) = 128 /\ b(2) = 128 THEN 3
     ELSE 0
RECURSIVE WSFrom(_, _)
WSFrom(l, i) == IF i > Len(l) THEN TRUE ELSE LET k == WSTok(l, i) IN IF k = 0 THEN FALSE ELSE WSFrom(l, i + k)
IsWS(l) == WSFrom(l, 1)

LFPos(t) == SetToSortSeq({j \in 1..Len(t) : t[j] = LF}, <)
\* lines split on LF; what follows the last LF is a line only if non-empty
RawLines(t) == LET P == <<0>> \o LFPos(t) IN
               [k \in 1..(Len(P) - 1) |-> SubSeq(t, P[k] + 1, P[k+1] - 1)]
               \o (IF P[Len(P)] < Len(t) THEN << SubSeq(t, P[Len(P)] + 1, Len(t)) >> ELSE <<>>)
StripCR(l) == IF Len(l) > 0 /\ l[Len(l)] = CR THEN SubSeq(l, 1, Len(l) - 1) ELSE l
\* offset in t just after line k (after its LF if it has one)
EndOfLine(t, k) == LET P == LFPos(t) IN IF k <= Len(P) THEN P[k] ELSE Len(t)

\* body lines from line k on: [ok, bytes, footer]  (footer = index of the END line)
RECURSIVE BodyFrom(_, _, _)
BodyFrom(ls, k, acc) ==
  IF k > Len(ls) THEN [ok |-> FALSE, bytes |-> <<>>, footer |-> 0]
  ELSE IF ls[k] = ArmorFooter THEN [ok |-> TRUE, bytes |-> acc, footer |-> k]
  ELSE IF Len(ls[k]) = 0 \/ Len(ls[k]) > AColumns THEN [ok |-> FALSE, bytes |-> <<>>, footer |-> 0]
  ELSE LET d == DecodeStd(ls[k]) IN        \* CR inside a line is not in the alphabet: rejected
       IF ~d.ok THEN [ok |-> FALSE, bytes |-> <<>>, footer |-> 0]
       ELSE IF Len(d.bytes) < ABytesPerLine
            THEN IF k + 1 <= Len(ls) /\ ls[k+1] = ArmorFooter
                 THEN [ok |-> TRUE, bytes |-> acc \o d.bytes, footer |-> k + 1]
                 ELSE [ok |-> FALSE, bytes |-> <<>>, footer |-> 0]
            ELSE BodyFrom(ls, k + 1, acc \o d.bytes)

\* index of the BEGIN line (first line that is not whitespace only), 0 if none
FirstNonWS(ls) == LET S == {k \in 1..Len(ls) : ~IsWS(ls[k])} IN
                  IF S = {} THEN 0 ELSE CHOOSE k \in S : \A j \in S : k <= j

Dearmor(t) ==
  LET raw == RawLines(t)
      ls == [k \in 1..Len(raw) |-> StripCR(raw[k])]
      h == FirstNonWS(ls)
  IN IF h = 0 THEN [ok |-> FALSE, bytes |-> <<>>]
     ELSE LET lead == IF h = 1 THEN 0 ELSE EndOfLine(t, h - 1) IN
          IF ls[h] # ArmorHeader \/ lead > MaxWS THEN [ok |-> FALSE, bytes |-> <<>>]
          ELSE LET b == BodyFrom(ls, h + 1, <<>>) IN
               IF ~b.ok THEN [ok |-> FALSE, bytes |-> <<>>]
               ELSE LET tail == SubSeq(t, EndOfLine(t, b.footer) + 1, Len(t)) IN
                    IF IsWS(tail) /\ Len(tail) < MaxWS THEN [ok |-> TRUE, bytes |-> b.bytes]
                    ELSE [ok |-> FALSE, bytes |-> <<>>]

RECURSIVE WrapStd(_)
WrapStd(b) == IF Len(b) = 0 THEN <<>>
              ELSE IF Len(b) <= ABytesPerLine THEN EncodeStd(b) \o <<LF>>
              ELSE EncodeStd(SubSeq(b, 1, ABytesPerLine)) \o <<LF>> \o WrapStd(SubSeq(b, ABytesPerLine + 1, Len(b)))
Armor(b) == ArmorHeader \o <<LF>> \o WrapStd(b) \o ArmorFooter \o <<LF>>

\* The documented tolerances, removed.  Defined on the text alone (not through Dearmor):
\* drop leading whitespace-only lines; cut whitespace after the first line that equals the END marker
\* (if everything after it is whitespace); strip one CR before each LF; end with LF.
RECURSIVE JoinLF(_)
JoinLF(ls) == IF Len(ls) = 0 THEN <<>> ELSE ls[1] \o <<LF>> \o JoinLF(Tail(ls))
Normalise(t) ==
  LET raw == RawLines(t)
      ls == [k \in 1..Len(raw) |-> StripCR(raw[k])]
      h == FirstNonWS(ls)
      F == {k \in 1..Len(ls) : ls[k] = ArmorFooter}
  IN IF h = 0 THEN t
     ELSE LET f == IF F = {} THEN 0 ELSE CHOOSE k \in F : \A j \in F : k <= j
              last == IF f > 0 /\ IsWS(SubSeq(t, EndOfLine(t, f) + 1, Len(t))) THEN f ELSE Len(ls)
          IN JoinLF(SubSeq(ls, h, last))

ArmorRoundTrip(b) == Dearmor(Armor(b)) = [ok |-> TRUE, bytes |-> b]
ArmorCanonical(t) == LET r == Dearmor(t) IN r.ok => (Armor(r.bytes) = Normalise(t))
=============================================================================
