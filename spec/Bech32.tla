------------------------------- MODULE Bech32 -------------------------------
(* Bech32 as age uses it, over sequences of Unicode code points.             *)
(*                                                                           *)
(*   Encode(hrp, bytes)      lower case unless the HRP is upper case         *)
(*   Decode(s)               [ok, hrp, data]                                 *)
(*   ParseRecipient/Identity native X25519 keys (exact HRP, 32 bytes)        *)
(*   ParsePluginRecipient/Identity, ValidPluginName                          *)
(*                                                                           *)
(* age's rules: printable ASCII only, one case, the last "1" separates HRP   *)
(* and data, data characters from the charset, 6-symbol checksum, the 5-bit  *)
(* groups regroup to bytes with no surplus group and zero padding bits.      *)
(* Dist5 states that the checksum detects every substitution of up to four   *)
(* characters in a data part of up to 58+6 symbols (native key strings).     *)
EXTENDS Integers, Sequences, FiniteSets, Bitwise, SequencesExt, Functions

Charset == <<113,112,122,114,121,57,120,56,103,102,50,116,118,100,119,48,115,51,106,110,53,52,107,104,99,101,54,109,117,97,55,108>>  \* "qpzry9x8gf2tvdw0s3jn54khce6mua7l"
GEN == <<996825010, 642813549, 513874426, 1027748829, 705979059>>   \* 0x3b6a57b2 0x26508e6d 0x1ea119fa 0x3d4233dd 0x2a1462b3

IsUpper(c) == c >= 65 /\ c <= 90
IsLower(c) == c >= 97 /\ c <= 122
Lower(c) == IF IsUpper(c) THEN c + 32 ELSE c
Upper(c) == IF IsLower(c) THEN c - 32 ELSE c
ToLower(s) == [i \in 1..Len(s) |-> Lower(s[i])]
ToUpper(s) == [i \in 1..Len(s) |-> Upper(s[i])]
Printable(c) == c >= 33 /\ c <= 126

Bit(x, i) == shiftR(x, i) % 2
Step(chk, v) ==
  LET top == shiftR(chk, 25)
      c0 == ((chk % 33554432) * 32) ^^ v
      x0 == IF Bit(top,0) = 1 THEN c0 ^^ GEN[1] ELSE c0
      x1 == IF Bit(top,1) = 1 THEN x0 ^^ GEN[2] ELSE x0
      x2 == IF Bit(top,2) = 1 THEN x1 ^^ GEN[3] ELSE x1
      x3 == IF Bit(top,3) = 1 THEN x2 ^^ GEN[4] ELSE x2
  IN IF Bit(top,4) = 1 THEN x3 ^^ GEN[5] ELSE x3
Polymod(vals) == FoldLeft(Step, 1, vals)
HrpExpand(h) == [i \in 1..Len(h) |-> shiftR(h[i], 5)] \o <<0>> \o [i \in 1..Len(h) |-> h[i] % 32]
CharVal(c) == LET P == {i \in 1..32 : Charset[i] = c} IN IF P = {} THEN -1 ELSE (CHOOSE i \in P : TRUE) - 1

\* 5 -> 8 bit regrouping, strict: no surplus group, zero padding
Regroup(vals) ==
  LET nbits == 5 * Len(vals)
      nbytes == nbits \div 8
      BitAt(j) == (vals[(j \div 5) + 1] \div (2 ^ (4 - (j % 5)))) % 2
      Byte(k) == LET b == (k - 1) * 8 IN
                 128*BitAt(b) + 64*BitAt(b+1) + 32*BitAt(b+2) + 16*BitAt(b+3)
                 + 8*BitAt(b+4) + 4*BitAt(b+5) + 2*BitAt(b+6) + BitAt(b+7)
  IN IF nbits - nbytes * 8 >= 5 THEN [ok |-> FALSE, bytes |-> <<>>]
     ELSE IF \E j \in (nbytes * 8)..(nbits - 1) : BitAt(j) = 1 THEN [ok |-> FALSE, bytes |-> <<>>]
     ELSE [ok |-> TRUE, bytes |-> [k \in 1..nbytes |-> Byte(k)]]

NoDecode == [ok |-> FALSE, hrp |-> <<>>, data |-> <<>>]
Decode(s) ==
  LET n == Len(s)
      ascii == \A i \in 1..n : Printable(s[i])
      mixed == (\E i \in 1..n : IsUpper(s[i])) /\ (\E i \in 1..n : IsLower(s[i]))
      Ones == {i \in 1..n : s[i] = 49}
  IN IF ~ascii \/ mixed \/ Ones = {} THEN NoDecode
     ELSE LET pos == CHOOSE i \in Ones : \A j \in Ones : j <= i
          IN IF pos < 2 \/ pos + 6 > n THEN NoDecode
             ELSE LET hrp == SubSeq(s, 1, pos - 1)
                      low == ToLower(s)
                      vals == [i \in 1..(n - pos) |-> CharVal(low[pos + i])]
                  IN IF \E i \in 1..Len(vals) : vals[i] < 0 THEN NoDecode
                     ELSE IF Polymod(HrpExpand(ToLower(hrp)) \o vals) # 1 THEN NoDecode
                     ELSE LET r == Regroup(SubSeq(vals, 1, Len(vals) - 6)) IN
                          IF ~r.ok THEN NoDecode ELSE [ok |-> TRUE, hrp |-> hrp, data |-> r.bytes]

ToGroups(b) ==
  LET nbits == 8 * Len(b)
      ng == (nbits + 4) \div 5
      BitAt(j) == IF j >= nbits THEN 0 ELSE (b[(j \div 8) + 1] \div (2 ^ (7 - (j % 8)))) % 2
  IN [k \in 1..ng |-> LET q == (k - 1) * 5 IN 16*BitAt(q) + 8*BitAt(q+1) + 4*BitAt(q+2) + 2*BitAt(q+3) + BitAt(q+4)]
\* the string for an arbitrary sequence of 5-bit groups (used to build valid-checksum variants)
EncodeGroups(hrp, g) ==
  LET lh == ToLower(hrp)
      m == Polymod(HrpExpand(lh) \o g \o <<0,0,0,0,0,0>>) ^^ 1
      chk == [p \in 1..6 |-> shiftR(m, 5 * (6 - p)) % 32]
      body == lh \o <<49>> \o [i \in 1..Len(g) |-> Charset[g[i] + 1]] \o [i \in 1..6 |-> Charset[chk[i] + 1]]
  IN IF lh = hrp THEN body ELSE ToUpper(body)
Encode(hrp, b) == EncodeGroups(hrp, ToGroups(b))
\* the same string with its checksum made for another checksum constant (1 is Bech32; 734539939 = 0x2bc830a3 is Bech32m):
\* not a Bech32 string, however well-formed it looks
EncodeGroupsConst(hrp, g, const) ==
  LET lh == ToLower(hrp)
      m == Polymod(HrpExpand(lh) \o g \o <<0,0,0,0,0,0>>) ^^ const
      chk == [p \in 1..6 |-> shiftR(m, 5 * (6 - p)) % 32]
      body == lh \o <<49>> \o [i \in 1..Len(g) |-> Charset[g[i] + 1]] \o [i \in 1..6 |-> Charset[chk[i] + 1]]
  IN IF lh = hrp THEN body ELSE ToUpper(body)

AgeHrp == <<97,103,101>>                                            \* "age"
SecretHrp == <<65,71,69,45,83,69,67,82,69,84,45,75,69,89,45>>       \* "AGE-SECRET-KEY-"
PluginIdPrefix == <<65,71,69,45,80,76,85,71,73,78,45>>              \* "AGE-PLUGIN-"
PluginRcpPrefix == <<97,103,101,49>>                                \* "age1"
NoKey == [ok |-> FALSE, key |-> <<>>]
ParseRecipient(s) == LET d == Decode(s) IN IF d.ok /\ d.hrp = AgeHrp /\ Len(d.data) = 32 THEN [ok |-> TRUE, key |-> d.data] ELSE NoKey
ParseIdentity(s)  == LET d == Decode(s) IN IF d.ok /\ d.hrp = SecretHrp /\ Len(d.data) = 32 THEN [ok |-> TRUE, key |-> d.data] ELSE NoKey
RecipientString(k) == Encode(AgeHrp, k)
IdentityString(k) == Encode(SecretHrp, k)

\* plugin names: letters, digits, + - . _
NameChar(c) == (c >= 97 /\ c <= 122) \/ (c >= 65 /\ c <= 90) \/ (c >= 48 /\ c <= 57) \/ c \in {43, 45, 46, 95}
ValidPluginName(nm) == Len(nm) > 0 /\ \A i \in 1..Len(nm) : NameChar(nm[i])
HasPrefix(s, p) == Len(s) >= Len(p) /\ SubSeq(s, 1, Len(p)) = p
NoPlugin == [ok |-> FALSE, name |-> <<>>, data |-> <<>>]
ParsePluginRecipient(s) ==
  LET d == Decode(s) IN
  IF ~d.ok \/ ~HasPrefix(d.hrp, PluginRcpPrefix) THEN NoPlugin
  ELSE LET nm == SubSeq(d.hrp, 5, Len(d.hrp)) IN
       IF ValidPluginName(nm) THEN [ok |-> TRUE, name |-> nm, data |-> d.data] ELSE NoPlugin
ParsePluginIdentity(s) ==
  LET d == Decode(s) IN
  IF ~d.ok \/ ~HasPrefix(d.hrp, PluginIdPrefix) \/ d.hrp[Len(d.hrp)] # 45 \/ Len(d.hrp) < Len(PluginIdPrefix) + 1 THEN NoPlugin
  ELSE LET nm == ToLower(SubSeq(d.hrp, Len(PluginIdPrefix) + 1, Len(d.hrp) - 1)) IN
       IF ValidPluginName(nm) THEN [ok |-> TRUE, name |-> nm, data |-> d.data] ELSE NoPlugin
PluginRecipientString(nm, data) == Encode(PluginRcpPrefix \o ToLower(nm), data)
PluginIdentityString(nm, data) == Encode(PluginIdPrefix \o ToUpper(nm) \o <<45>>, data)

\* ---------------------------------------------------------------- theorems
RoundTripR(k) == ParseRecipient(RecipientString(k)) = [ok |-> TRUE, key |-> k]
RoundTripI(k) == ParseIdentity(IdentityString(k)) = [ok |-> TRUE, key |-> k]
OneSpellingR(s) == LET r == ParseRecipient(s) IN r.ok => RecipientString(r.key) = s
OneSpellingI(s) == LET r == ParseIdentity(s) IN r.ok => IdentityString(r.key) = s

=============================================================================
