--------------------------------- MODULE Cli ---------------------------------
(* The age and age-keygen command lines as a step machine (C15).              *)
(*                                                                            *)
(* A command is a record of abstract choices (operation, key type, how keys   *)
(* are given, armor, where input comes from, its size, how it was damaged,    *)
(* where output goes and how that destination misbehaves).  The machine runs  *)
(* the phases of main(): flags, same-file check, open input, read keys,       *)
(* header (decrypt: before anything is written), lazy open of the output on   *)
(* the first write, copy, close, exit.  The file system is reduced to the     *)
(* state of the output path:  "absent" | "old" (pre-existing, untouched) |    *)
(* "partial" (created/truncated, a proper prefix written) | "complete".       *)
EXTENDS Integers, Sequences, FiniteSets, TLC, Json

CONSTANTS Sizes, Tier

Ops == {"enc", "dec"}
KeyTypes == {"x25519", "ssh-ed25519", "ssh-rsa", "scrypt"}
KeyArgs == {"r", "R", "ei"}            \* encryption: -r RECIPIENT | -R FILE | -e -i IDENTITYFILE
\* "tty": no INPUT argument and standard input is a terminal: the input is typed (plaintext ended by end-of-input when
\* encrypting; an armored file when decrypting, read up to its END line)
Inputs == {"file", "pipe", "missing", "tty"}
\* "trunc_chunk": the input ends exactly at a chunk boundary (after the nonce, or after the first whole chunk)
Damages == {"none", "hdrbit", "mac", "paybit_first", "paybit_last", "trunc", "trunc_chunk", "wrongkey", "garbage"}
\* "devnull": -o /dev/null (a character device that takes everything); "fifo": -o names a FIFO somebody reads from
\* "tty": no -o and standard output is a terminal; "tty_dash": the same with an explicit "-o -"
\* "fifo_gone": -o names a FIFO whose reader takes a few bytes and leaves while more than a pipe holds is still to come
Outs == {"stdout", "new", "existing", "missingdir", "underfile", "same_input", "same_keyfile", "devfull_o", "devfull_stdout", "limit", "devnull", "fifo", "fifo_gone", "tty", "tty_dash"}
Spellings == {"same", "dot", "dotdot", "abs", "dslash"}
Limits == {"zero", "one", "mid", "lastbutone", "exact"}     \* where a size-limited destination stops accepting bytes
\* "R_stdin" / "i_stdin": recipients (-R -) or identities (-i -) are to be read from standard input, which is also the input
FlagErrs == {"none", "e_and_d", "a_with_d", "p_with_d", "r_with_d", "i_without_e", "no_recipient", "p_with_r", "two_inputs", "R_stdin", "i_stdin"}

Cmd(op, key, keyarg, armor, input, size, damage, out, spelling, limit, flagerr) ==
  [op |-> op, key |-> key, keyarg |-> keyarg, armor |-> armor, input |-> input, size |-> size, damage |-> damage,
   out |-> out, spelling |-> spelling, limit |-> limit, flagerr |-> flagerr]

\* the enumerated command space, built family by family so that meaningless combinations are never formed
PlainOuts == Outs \ {"same_input", "same_keyfile", "limit", "tty", "tty_dash"}
OutVariants(op, key, ka, inp) ==
     {[out |-> o, spelling |-> "same", limit |-> "zero"] : o \in (IF key = "scrypt" THEN {"new", "existing", "missingdir"} ELSE PlainOuts)}
  \cup {[out |-> "limit", spelling |-> "same", limit |-> l] : l \in Limits}
  \cup (IF inp = "file" THEN {[out |-> "same_input", spelling |-> sp, limit |-> "zero"] : sp \in Spellings} ELSE {})
  \cup (IF key # "scrypt" /\ ~(op = "enc" /\ ka = "r") THEN {[out |-> "same_keyfile", spelling |-> sp, limit |-> "zero"] : sp \in Spellings} ELSE {})
DamagesFor(sz) == {"none", "hdrbit", "mac", "paybit_first", "wrongkey", "garbage", "trunc_chunk"} \cup (IF sz >= 1 THEN {"trunc"} ELSE {}) \cup (IF sz >= 2 THEN {"paybit_last"} ELSE {})
EncCommands == {Cmd("enc", key, ka, ar, inp, sz, "none", ov.out, ov.spelling, ov.limit, "none") :
                  key \in KeyTypes, ka \in KeyArgs, ar \in BOOLEAN, inp \in {"file", "pipe"}, sz \in Sizes,
                  ov \in UNION {OutVariants("enc", k2, ka2, i2) : k2 \in KeyTypes, ka2 \in KeyArgs, i2 \in {"file", "pipe"}}}
               \cup {Cmd("enc", key, "r", ar, "file", 1, "none", o, "same", "zero", "none") :
                  key \in KeyTypes \ {"scrypt"}, ar \in BOOLEAN, o \in {"tty", "tty_dash"}}
DecCommands == {Cmd("dec", key, "r", ar, inp, sz, dmg, ov.out, ov.spelling, ov.limit, "none") :
                  key \in KeyTypes, ar \in BOOLEAN, inp \in {"file", "pipe"}, sz \in Sizes, dmg \in Damages,
                  ov \in UNION {OutVariants("dec", k2, "r", i2) : k2 \in KeyTypes, i2 \in {"file", "pipe"}}}
Commands == EncCommands \cup DecCommands
  \cup {Cmd(op, "x25519", "r", FALSE, "missing", 1, "none", "new", "same", "zero", "none") : op \in Ops}
  \cup {Cmd(op, "x25519", "r", ar, "tty", 1, "none", o, "same", "zero", "none") : op \in Ops, ar \in BOOLEAN, o \in {"tty", "tty_dash", "new"}}
  \cup {Cmd(op, "x25519", "r", FALSE, "file", 1, "none", "new", "same", "zero", fe) : op \in Ops, fe \in FlagErrs \ {"none", "R_stdin", "i_stdin"}}
  \cup {Cmd("enc", "x25519", "R", FALSE, "pipe", 1, "none", "new", "same", "zero", "R_stdin"),
        Cmd("dec", "x25519", "r", FALSE, "pipe", 1, "none", "new", "same", "zero", "i_stdin")}
MoreThanAPipeHolds(sz) == sz >= 2     \* size class 2 is two chunks; a pipe holds one
Meaningful(c) ==
  /\ (c.key = "scrypt") => (c.keyarg = "r" /\ c.out \in {"new", "existing", "missingdir", "same_input", "limit"})
  /\ (c.out = "same_input") => c.input = "file"
  /\ (c.input = "tty" /\ c.op = "dec") => c.armor              \* what is typed is text
  /\ (c.out = "fifo_gone") => MoreThanAPipeHolds(c.size)      \* (a result that fits into the pipe is gone with its reader, unnoticed by anyone)
  /\ (c.out = "same_keyfile") => ~(c.op = "enc" /\ c.keyarg = "r") /\ c.key # "scrypt"
  /\ (c.op = "dec") => c.damage \in DamagesFor(c.size)

VARIABLES cmd, phase, outState, exit
vars == <<cmd, phase, outState, exit>>

Pre(c) == IF c.out \in {"existing", "same_input", "same_keyfile"} THEN "old" ELSE "absent"
Init == /\ cmd \in {c \in Commands : Meaningful(c)}
        /\ phase = "flags" /\ outState = Pre(cmd) /\ exit = -1

Fail == exit' = 1 /\ phase' = "done" /\ UNCHANGED <<cmd, outState>>
Go(p) == phase' = p /\ UNCHANGED <<cmd, outState, exit>>

\* does the header of the input pass (decryption)?
HeaderOK == cmd.damage \in {"none", "paybit_first", "paybit_last", "trunc", "trunc_chunk"}
\* how far does the copy get?  "all" | "none" (fails before the first byte) | "some" (a proper prefix)
CopyReach == CASE cmd.op = "enc" -> "all"
               [] cmd.damage = "none" -> "all"
               [] cmd.damage = "paybit_first" -> "none"
               [] cmd.damage = "paybit_last" -> "some"
               [] cmd.damage = "trunc" -> (IF cmd.size >= 2 THEN "some" ELSE "none")
               [] cmd.damage = "trunc_chunk" -> (IF cmd.size >= 2 THEN "some" ELSE "none")
               [] OTHER -> "none"
\* the destination: can it be created, and how much does it take?
\* (binary output to a terminal is refused before anything is written unless asked for with "-o -")
DestCreate == cmd.out \notin {"missingdir", "underfile"} /\ ~(cmd.out = "tty" /\ cmd.op = "enc" /\ ~cmd.armor)
DestTakes == CASE cmd.out \in {"devfull_o", "devfull_stdout"} -> "nothing"
               [] cmd.out = "fifo_gone" -> "some"
               [] cmd.out = "limit" -> (IF cmd.limit = "exact" THEN "all" ELSE IF cmd.limit = "zero" THEN "nothing" ELSE "some")
               [] OTHER -> "all"

Flags == phase = "flags" /\ IF cmd.flagerr # "none" THEN Fail ELSE Go("samefile")
SameFile == phase = "samefile" /\ IF cmd.out \in {"same_input", "same_keyfile"} THEN Fail ELSE Go("openin")
OpenIn == phase = "openin" /\ IF cmd.input = "missing" THEN Fail ELSE Go("header")
\* decrypt: keys are read and the header is checked before the output is touched; encrypt: recipients are parsed
Header == phase = "header" /\ IF cmd.op = "dec" /\ ~HeaderOK THEN Fail ELSE Go("open")
\* does anything have to be written at all?  (decrypting an empty plaintext writes nothing: even a destination that takes
\* nothing has then received the complete result; encryption always writes a header)
NeedsBytes == ~(cmd.op = "dec" /\ cmd.size = 0)
\* the first write creates (or truncates) the output; decrypt forces that write even for an empty plaintext
Open == /\ phase = "open"
        /\ IF ~DestCreate THEN Fail
           ELSE /\ outState' = (IF cmd.out \in {"stdout", "devfull_stdout", "tty", "tty_dash"} THEN outState ELSE "partial")
                /\ phase' = "copy" /\ UNCHANGED <<cmd, exit>>
Copy == /\ phase = "copy"
        /\ IF (DestTakes = "all" \/ ~NeedsBytes) /\ CopyReach = "all"
           THEN /\ outState' = "complete" /\ phase' = "close" /\ UNCHANGED <<cmd, exit>>
           ELSE /\ exit' = 1 /\ phase' = "done" /\ UNCHANGED <<cmd, outState>>    \* what was written stays: a prefix
Close == phase = "close" /\ exit' = 0 /\ phase' = "done" /\ UNCHANGED <<cmd, outState>>
Next == Flags \/ SameFile \/ OpenIn \/ Header \/ Open \/ Copy \/ Close
Spec == Init /\ [][Next]_vars

\* ---------------------------------------------------------------- C15 as invariants of the machine
ExitZeroIffDelivered == (phase = "done") => ((exit = 0) <=> (outState = "complete"))
HeaderRefusalLeavesOutputAlone == (phase \in {"flags", "samefile", "openin", "header"}) => outState = Pre(cmd)
RefusedBeforeOpen == (phase = "done" /\ exit = 1 /\ cmd.op = "dec" /\ ~HeaderOK) => outState = Pre(cmd)
SameFileRefused == (phase = "done" /\ cmd.out \in {"same_input", "same_keyfile"}) => (exit = 1 /\ outState = "old")
Emit == (phase = "done") => PrintT("CASE " \o ToJson([cmd |-> cmd, exit0 |-> (exit = 0), out |-> outState, pre |-> Pre(cmd)]))
=============================================================================
