----------------------------- MODULE ArmorWrite -----------------------------
(* The armoring writer (armor/armor.go armoredWriter over format.go's        *)
(* WrappedBase64Encoder over encoding/base64's streaming encoder) call by    *)
(* call, against a destination that can fail.                                *)
(*                                                                           *)
(* One behaviour is one history of Write(k) and Close calls on one writer    *)
(* whose destination fails at one chosen Write call of its own (never, for   *)
(* fault.call = 0), accepting a chosen part of that call's bytes, for good   *)
(* or only once.  Bytes are counted, not named: what is delivered is decided *)
(* by lengths alone (the content is the harness's oracle's business).        *)
(*                                                                           *)
(* The layers, as the code has them:                                         *)
(*   armoredWriter.Write : BEGIN line on the first call that gets it out     *)
(*                         (`started` is set only after the line was         *)
(*                         written: a failed BEGIN line is tried again by    *)
(*                         the next call), then the encoder.                 *)
(*   base64 encoder      : 0..2 pending bytes (nbuf); every complete 3-byte  *)
(*                         group is encoded at once, at most 768 bytes per   *)
(*                         inner write; its first error is sticky.           *)
(*   writeWrapped        : an LF after every 64 columns; one destination     *)
(*                         write per inner write.                            *)
(*   armoredWriter.Close : BEGIN line if nothing was written, the padded     *)
(*                         last group, then "\n"? + END line.  A second      *)
(*                         Close fails.  (Write after Close is not refused   *)
(*                         by the code: WriteAfterClose below says what it   *)
(*                         does; it is outside every listed property.)       *)
EXTENDS Integers, Sequences, TLC, Json

CONSTANTS Sizes,       \* the k of Write(k)
          MaxWrites,   \* writes before Close
          MaxAfter,    \* calls after the first Close
          MaxFaultCall,\* the destination's failing call is 0 (never) .. MaxFaultCall
          Parts,       \* how much of the failing call is accepted: subset of {"none", "one", "half", "allbut1"}
          Emit

Col == 64
HeaderLen == 35           \* "-----BEGIN AGE ENCRYPTED FILE-----\n"
FooterLen == 33           \* "-----END AGE ENCRYPTED FILE-----\n"
InnerMax == 768           \* bytes per inner write of the base64 encoder (1024 columns)

Min(a, b) == IF a < b THEN a ELSE b
Acc(part, L) == CASE part = "none" -> 0 [] part = "one" -> Min(1, L - 1) [] part = "half" -> L \div 2 [] part = "allbut1" -> L - 1

\* the whole armor of t bytes, and what has been delivered of it after t bytes were written and before Close
Chars(t) == 4 * ((t + 2) \div 3)
ArmorLen(t) == HeaderLen + Chars(t) + Chars(t) \div Col + (IF Chars(t) % Col # 0 THEN 1 ELSE 0) + FooterLen
StreamedLen(t) == LET c == 4 * (t \div 3) IN HeaderLen + c + c \div Col

VARIABLES
  fault,     \* [call, part, once]
  started, closed, encErr, nbuf, cols,   \* the code's own state (cols: WrappedBase64Encoder.written)
  dst,       \* the destination: [nc calls seen, out bytes accepted, dead, fired]
  fed,       \* bytes handed to the encoder
  good,      \* what the destination holds is a prefix of the armor of the bytes handed to the encoder
  complete,  \* the END line went out whole
  hist       \* calls and results: [op, k, n, ok, out]
vars == <<fault, started, closed, encErr, nbuf, cols, dst, fed, good, complete, hist>>

Faults == {[call |-> 0, part |-> "none", once |-> FALSE]} \cup [call : 1..MaxFaultCall, part : Parts, once : BOOLEAN]

Init == /\ fault \in Faults
        /\ started = FALSE /\ closed = FALSE /\ encErr = FALSE /\ nbuf = 0 /\ cols = 0
        /\ dst = [nc |-> 0, out |-> 0, dead |-> FALSE, fired |-> FALSE]
        /\ fed = 0 /\ good = TRUE /\ complete = FALSE /\ hist = <<>>

\* one Write call on the destination: [d, ok, acc]
DW(d, L) ==
  IF d.dead THEN [d |-> [d EXCEPT !.nc = @ + 1], ok |-> FALSE, acc |-> 0]
  ELSE IF d.nc + 1 = fault.call
       THEN LET a == Acc(fault.part, L) IN
            [d |-> [nc |-> d.nc + 1, out |-> d.out + a, dead |-> ~fault.once, fired |-> TRUE], ok |-> FALSE, acc |-> a]
       ELSE [d |-> [d EXCEPT !.nc = @ + 1, !.out = @ + L], ok |-> TRUE, acc |-> L]

\* writeWrapped(c columns): one destination write of the columns and the LFs that fall among them
WrapLen(w, c) == c + ((w + c) \div Col - w \div Col)

\* The encoder's state while one call runs: e = [nbuf, cols, d, err, n]; n counts what the call reports as consumed.
Inner(e, bytes) ==   \* one inner write of `bytes` (a multiple of 3) input bytes, or of the padded last group
  LET c == 4 * ((bytes + 2) \div 3)
      r == DW(e.d, WrapLen(e.cols, c)) IN
  [e EXCEPT !.d = r.d, !.cols = @ + c, !.err = ~r.ok]

RECURSIVE Chunks(_, _)
Chunks(e, rem) ==    \* the large interior chunks, then the trailing fringe
  IF rem < 3 THEN [e EXCEPT !.nbuf = rem, !.n = @ + rem]
  ELSE LET nn == IF rem >= InnerMax THEN InnerMax ELSE rem - (rem % 3)
           e2 == Inner(e, nn) IN
       IF e2.err THEN e2 ELSE Chunks([e2 EXCEPT !.n = @ + nn], rem - nn)

EncWrite(e, k) ==
  IF e.nbuf > 0
  THEN LET i == Min(k, 3 - e.nbuf)
           e1 == [e EXCEPT !.nbuf = @ + i, !.n = i] IN
       IF e1.nbuf < 3 THEN e1
       ELSE LET e2 == Inner(e1, 3) IN
            IF e2.err THEN e2 ELSE Chunks([e2 EXCEPT !.nbuf = 0], k - i)
  ELSE Chunks(e, k)

Rec(op, k, n, ok, d) == [op |-> op, k |-> k, n |-> n, ok |-> ok, out |-> d.out]

\* ---------------------------------------------------------------- bounds of the exploration
CloseIdx == {i \in 1..Len(hist) : hist[i].op = "c"}
After == CloseIdx # {}
CallsAfterFirstClose == IF CloseIdx = {} THEN 0 ELSE Len(hist) - (CHOOSE i \in CloseIdx : \A j \in CloseIdx : i <= j)
Bounded == ~After \/ CallsAfterFirstClose < MaxAfter

\* ---------------------------------------------------------------- Write(k)
WriteCall(k) ==
  LET h == IF started THEN [d |-> dst, ok |-> TRUE, acc |-> 0] ELSE DW(dst, HeaderLen)
      \* a BEGIN line written over the remains of an earlier, failed one spoils the output
      goodH == good /\ (started \/ dst.out = 0 \/ h.acc = 0) IN
  IF ~h.ok
  THEN /\ dst' = h.d /\ good' = goodH /\ hist' = Append(hist, Rec("w", k, 0, FALSE, h.d))
       /\ UNCHANGED <<started, encErr, nbuf, cols, fed, complete>>
  ELSE /\ started' = TRUE
       /\ IF encErr
          THEN /\ dst' = h.d /\ good' = goodH /\ hist' = Append(hist, Rec("w", k, 0, FALSE, h.d))
               /\ UNCHANGED <<encErr, nbuf, cols, fed>>
          ELSE LET e == EncWrite([nbuf |-> nbuf, cols |-> cols, d |-> h.d, err |-> FALSE, n |-> 0], k) IN
               /\ dst' = e.d /\ encErr' = e.err /\ nbuf' = e.nbuf /\ cols' = e.cols /\ fed' = fed + k
               \* after Close, anything more that reaches the destination follows the END line or the padding
               /\ good' = (goodH /\ ~(closed /\ e.d.out > dst.out))
               /\ hist' = Append(hist, Rec("w", k, e.n, ~e.err, e.d))
       /\ UNCHANGED complete
Write(k) == /\ Bounded /\ ~closed /\ Len(hist) < MaxWrites /\ WriteCall(k) /\ UNCHANGED <<fault, closed>>
\* what the code does, not what anyone should do
WriteAfterClose(k) == /\ Bounded /\ closed /\ WriteCall(k) /\ UNCHANGED <<fault, closed>>

\* ---------------------------------------------------------------- Close
Close ==
  /\ Bounded /\ UNCHANGED fault
  /\ IF closed
     THEN /\ hist' = Append(hist, Rec("c", 0, 0, FALSE, dst))
          /\ UNCHANGED <<started, closed, encErr, nbuf, cols, dst, fed, good, complete>>
     ELSE /\ closed' = TRUE /\ UNCHANGED fed
          /\ LET h == IF started THEN [d |-> dst, ok |-> TRUE, acc |-> 0] ELSE DW(dst, HeaderLen)
                 goodH == good /\ (started \/ dst.out = 0 \/ h.acc = 0) IN
             IF ~h.ok
             THEN /\ dst' = h.d /\ good' = goodH /\ hist' = Append(hist, Rec("c", 0, 0, FALSE, h.d))
                  /\ UNCHANGED <<started, encErr, nbuf, cols, complete>>
             ELSE /\ started' = TRUE /\ good' = goodH
                  /\ IF encErr
                     THEN /\ dst' = h.d /\ hist' = Append(hist, Rec("c", 0, 0, FALSE, h.d))
                          /\ UNCHANGED <<encErr, nbuf, cols, complete>>
                     ELSE LET e0 == [nbuf |-> nbuf, cols |-> cols, d |-> h.d, err |-> FALSE, n |-> 0]
                              e == IF nbuf > 0 THEN [Inner(e0, nbuf) EXCEPT !.nbuf = 0] ELSE e0 IN
                          IF e.err
                          THEN /\ dst' = e.d /\ encErr' = TRUE /\ nbuf' = nbuf /\ cols' = e.cols
                               /\ hist' = Append(hist, Rec("c", 0, 0, FALSE, e.d)) /\ UNCHANGED complete
                          ELSE LET f == DW(e.d, FooterLen + (IF e.cols % Col # 0 THEN 1 ELSE 0)) IN
                               /\ dst' = f.d /\ encErr' = FALSE /\ nbuf' = 0 /\ cols' = e.cols
                               /\ complete' = f.ok
                               /\ hist' = Append(hist, Rec("c", 0, 0, f.ok, f.d))

Next == (\E k \in Sizes : Write(k)) \/ (\E k \in Sizes : WriteAfterClose(k)) \/ Close
Spec == Init /\ [][Next]_vars

\* ---------------------------------------------------------------- invariants
TypeOK == /\ nbuf \in 0..3 /\ (nbuf = 3 => encErr) /\ cols >= 0 /\ dst.out >= 0 /\ fed >= 0
          /\ started \in BOOLEAN /\ closed \in BOOLEAN /\ encErr \in BOOLEAN /\ good \in BOOLEAN /\ complete \in BOOLEAN

AllOK == \A i \in 1..Len(hist) : hist[i].ok /\ hist[i].n = hist[i].k
Closed1 == Len(hist) > 0 /\ hist[Len(hist)].op = "c" /\ \A i \in 1..(Len(hist) - 1) : hist[i].op = "w"
\* C13 (destination side) and C08 (encoding side): if every call up to and including the Close reported success, the
\* destination holds the whole armor of what was written, whatever the destination did
NoSilentLoss == (Closed1 /\ AllOK) => (dst.out = ArmorLen(fed) /\ good /\ complete /\ ~dst.fired)
\* the call during which the destination failed reports it
FaultSurfaces == dst.fired => \E i \in 1..Len(hist) : ~hist[i].ok
\* C12: a successful Write reports the full count
FullCount == \A i \in 1..Len(hist) : (hist[i].op = "w" /\ hist[i].ok) => hist[i].n = hist[i].k
\* without a fault the writer streams: all complete groups are out after every Write
Streams == (~dst.fired /\ ~closed /\ started) => dst.out = StreamedLen(fed)
\* once the encoder has failed nothing more reaches the destination through it and every call fails
EncoderErrorSticky == [][encErr => (encErr' /\ dst'.out = dst.out /\ (hist' # hist => ~hist'[Len(hist')].ok))]_vars
\* under a destination that stays failed the output is a prefix of the armor, always
PrefixUnderPermanentFailure == (~fault.once /\ ~After) => good
\* a second Close is refused and changes nothing
SecondCloseFails == \A i \in 1..Len(hist) : \A j \in (i + 1)..Len(hist) :
   (hist[i].op = "c" /\ hist[j].op = "c") => (~hist[j].ok /\ hist[j].out = hist[j - 1].out)
\* the pending group is never longer than the columns account for
ColsAccount == (~encErr /\ ~closed) => cols = 4 * ((fed - nbuf) \div 3) \/ dst.fired

\* ---------------------------------------------------------------- behaviours for replay
Final == After /\ ~Bounded
EmitCase == (Emit /\ Final /\ (fault.call = 0 \/ dst.fired)) =>
   PrintT("CASE " \o ToJson([fault |-> fault, calls |-> hist, fed |-> fed, good |-> good, complete |-> complete,
                              out |-> dst.out, ncalls |-> dst.nc]))
=============================================================================
