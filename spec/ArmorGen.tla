------------------------------ MODULE ArmorGen ------------------------------
(* Generators for the armor (C08, C12, C14).                                 *)
(*                                                                           *)
(* Mode "read":  texts built from line classes (BEGIN, END, full, short,    *)
(*   empty, too long, non-canonical, CR variants, PEM headers, garbage,     *)
(*   whitespace outside ...), up to MaxLines lines.  At every state TLC     *)
(*   checks ArmorCanonical on the text and emits the text with the          *)
(*   specification's verdict, bytes and normal form.                        *)
(* Mode "write": the armoring writer as a machine (one action per Write and *)
(*   Close, the base64 encoder's 0..2 pending bytes and the column counter  *)
(*   as state).  TLC checks, for every schedule of write sizes, that the    *)
(*   output at Close is Armor(all bytes written) and de-armors to them, and *)
(*   emits the schedule for replay against armor.NewWriter.                 *)
EXTENDS AgeArmor, TLC, Json

CONSTANTS Mode, Seed, WriteSizes, MaxWrites, MaxTotal,
          PreWS, BeginCls, FullCls, ShortCls, EndCls, PostWS, BadCls, ContCls,   \* line classes per phase
          MaxPre, MaxFull, MaxPost, MaxCont

VARIABLES path,      \* read: sequence of class names; write: sequence of write sizes
          st,        \* read: "pre" | "body" | "post" | "stop";  write: "open" | "closed"
          w          \* write mode: [pend, col, out, data]  (read mode: 0)
vars == <<path, st, w>>

FullLine(k) == EncodeStd(Pattern(48, Seed + k))
ShortLine(n) == EncodeStd(Pattern(n, Seed + n))

LineOf(c) ==
  CASE c = "BEGIN" -> ArmorHeader \o <<LF>>
    [] c = "END" -> ArmorFooter \o <<LF>>
    [] c = "END_nolf" -> ArmorFooter
    [] c = "END_crlf" -> ArmorFooter \o <<CR, LF>>
    [] c = "BEGIN_crlf" -> ArmorHeader \o <<CR, LF>>
    [] c = "full" -> FullLine(0) \o <<LF>>
    [] c = "full_b" -> FullLine(1) \o <<LF>>
    [] c = "full_crlf" -> FullLine(2) \o <<CR, LF>>
    [] c = "short1" -> ShortLine(1) \o <<LF>>
    [] c = "short2" -> ShortLine(2) \o <<LF>>
    [] c = "short3" -> ShortLine(3) \o <<LF>>
    [] c = "short46" -> ShortLine(46) \o <<LF>>
    [] c = "short47" -> ShortLine(47) \o <<LF>>
    [] c = "short3_crlf" -> ShortLine(3) \o <<CR, LF>>
    [] c = "empty" -> <<LF>>
    [] c = "empty_crlf" -> <<CR, LF>>
    [] c = "crcr" -> <<CR, CR, LF>>
    [] c = "long" -> EncodeStd(Pattern(51, Seed)) \o <<LF>>
    [] c = "long65" -> FullLine(0) \o <<65, LF>>
    [] c = "noncanon" -> <<81, 82, EQ, EQ, LF>>
    [] c = "nopad" -> <<81, 81, LF>>
    [] c = "midpad" -> <<81, 81, EQ, EQ>> \o SubSeq(FullLine(0), 1, 60) \o <<LF>>
    [] c = "trail_sp" -> ShortLine(3) \o <<SP, LF>>
    [] c = "lead_sp" -> <<SP>> \o ShortLine(3) \o <<LF>>
    [] c = "cr_in" -> <<81, 85, CR, 74, 68, LF>>
    [] c = "cr_lead" -> <<CR, 81, 85, 74, 68, LF>>
    [] c = "cr_trail2" -> <<81, 85, 74, 68, CR, CR, LF>>
    [] c = "kv" -> <<75, 101, 121, 58, 32, 118, LF>>
    [] c = "garbage" -> <<104, 101, 108, 108, 111, LF>>
    [] c = "lower_marker" -> [i \in 1..Len(ArmorHeader) |-> IF ArmorHeader[i] >= 65 /\ ArmorHeader[i] <= 90 THEN ArmorHeader[i] + 32 ELSE ArmorHeader[i]] \o <<LF>>
    [] c = "sp_marker" -> ArmorHeader \o <<SP, LF>>
    [] c = "sp_end" -> ArmorFooter \o <<SP, LF>>
    [] c = "wrong_type" -> SubSeq(ArmorHeader, 1, 11) \o <<88>> \o SubSeq(ArmorHeader, 13, Len(ArmorHeader)) \o <<LF>>
    [] c = "ws1" -> <<SP, TAB, LF>>
    [] c = "ws_crlf" -> <<CR, LF>>
    [] c = "ws_big" -> Rep(SP, 600) \o <<LF>>
    [] c = "ws_nbsp" -> <<194, 160, SP, 194, 133, LF>>
    [] c = "ws_uni" -> <<226, 128, 168, 227, 128, 128, 225, 154, 128, 226, 129, 159, 226, 128, 138, CR, LF>>
    [] c = "ws_badutf" -> <<SP, 194, LF>>
    [] c = "ws_zwsp" -> <<226, 128, 139, LF>>
    [] c = "pgp_crc" -> <<EQ, 81, 85, 74, 68, LF>>
    [] c = "partial" -> <<81, 85>>

RECURSIVE TextOf(_)
TextOf(p) == IF Len(p) = 0 THEN <<>> ELSE LineOf(p[1]) \o TextOf(Tail(p))

\* classes that end the text (no LF at the end, nothing can follow)
Enders == {"END_nolf", "partial"}

\* ------------------------------------------------------------- writer machine
Data(n) == Pattern(n, Seed)      \* the byte stream is a fixed pattern; a schedule cuts it into writes
Total(p) == IF Len(p) = 0 THEN 0 ELSE FoldLeft(LAMBDA a, b : a + b, 0, p)

\* feed characters into the 64-column wrapper: LF after every 64th character
Columns(out, col, chars) ==
  LET n == Len(chars)
      pieces == [i \in 1..n |-> IF (col + i) % AColumns = 0 THEN <<chars[i], LF>> ELSE <<chars[i]>>]
  IN [out |-> out \o FlattenSeq(pieces), col |-> (col + n) % AColumns]

WInit == [pend |-> <<>>, col |-> 0, out |-> <<>>, data |-> <<>>, started |-> FALSE]
\* Write(p): header on first use; base64 of every complete 3-byte group; the rest stays pending
WWrite(s, p) ==
  LET o0 == IF s.started THEN s.out ELSE ArmorHeader \o <<LF>>
      all == s.pend \o p
      k == (Len(all) \div 3) * 3
      r == Columns(o0, s.col, EncodeRaw(SubSeq(all, 1, k)))
  IN [pend |-> SubSeq(all, k + 1, Len(all)), col |-> r.col, out |-> r.out, data |-> s.data \o p, started |-> TRUE]
\* Close: flush the pending group with padding, end the line if it is not empty, footer.
\* The header is written even if no Write ever happened (an empty file is a valid armor).
WClose(s) ==
  LET o0 == IF s.started THEN s.out ELSE ArmorHeader \o <<LF>>
      r == Columns(o0, s.col, IF Len(s.pend) = 0 THEN <<>> ELSE EncodeStd(s.pend))
  IN [s EXCEPT !.out = r.out \o (IF r.col = 0 THEN <<>> ELSE <<LF>>) \o ArmorFooter \o <<LF>>, !.pend = <<>>, !.col = 0, !.started = TRUE]

\* ------------------------------------------------------------- automaton
Init == /\ path = <<>>
        /\ st = (IF Mode = "read" THEN "pre" ELSE "open")
        /\ w = (IF Mode = "read" THEN [pre |-> 0, full |-> 0, post |-> 0, cont |-> 0] ELSE WInit)

Feed(c, next) == path' = Append(path, c) /\ st' = (IF c \in Enders THEN "stop" ELSE next)
\* a malformed line does not end the text at once: up to MaxCont well-formed lines may still follow it,
\* so that "accepted although malformed in the middle" is inside the enumerated space
Bad == \E c \in BadCls : Feed(c, "bad") /\ UNCHANGED w
ReadStep ==
  \/ /\ st = "pre"
     /\ \/ \E c \in PreWS : w.pre < MaxPre /\ Feed(c, "pre") /\ w' = [w EXCEPT !.pre = @ + 1]
        \/ \E c \in BeginCls : Feed(c, "body") /\ UNCHANGED w
        \/ Bad
  \/ /\ st = "body"
     /\ \/ \E c \in FullCls : w.full < MaxFull /\ Feed(c, "body") /\ w' = [w EXCEPT !.full = @ + 1]
        \/ \E c \in ShortCls : Feed(c, "short") /\ UNCHANGED w
        \/ \E c \in EndCls : Feed(c, "post") /\ UNCHANGED w
        \/ Bad
  \/ /\ st = "short"
     /\ \/ \E c \in EndCls : Feed(c, "post") /\ UNCHANGED w
        \/ Bad
  \/ /\ st = "post"
     /\ \/ \E c \in PostWS : w.post < MaxPost /\ Feed(c, "post") /\ w' = [w EXCEPT !.post = @ + 1]
        \/ Bad
  \/ /\ st = "bad"
     /\ \E c \in ContCls : w.cont < MaxCont /\ Feed(c, "bad") /\ w' = [w EXCEPT !.cont = @ + 1]

WriteStep == /\ st = "open" /\ Len(path) < MaxWrites
             /\ \E n \in WriteSizes :
                  /\ Total(path) + n <= MaxTotal
                  /\ path' = Append(path, n)
                  /\ w' = WWrite(w, SubSeq(Data(MaxTotal), Total(path) + 1, Total(path) + n))
             /\ UNCHANGED st
CloseStep == /\ st = "open" /\ st' = "closed" /\ w' = WClose(w) /\ UNCHANGED path

Next == IF Mode = "read" THEN ReadStep ELSE (WriteStep \/ CloseStep)
Spec == Init /\ [][Next]_vars

\* ------------------------------------------------------------- checked + emitted
ReadResult(t) == LET r == Dearmor(t) IN
  [path |-> path, input |-> t, ok |-> r.ok, bytes |-> r.bytes, norm |-> Normalise(t),
   canonical |-> (r.ok => Armor(r.bytes) = Normalise(t))]
ReadEmit == (Mode = "read" /\ Len(path) > 0) =>
              LET res == ReadResult(TextOf(path)) IN res.canonical /\ PrintT("CASE " \o ToJson(res))

\* the machine's output at Close is the declarative Armor of the bytes written, whatever the schedule
WriterMatchesArmor == (Mode = "write" /\ st = "closed") => (w.out = Armor(w.data) /\ ArmorRoundTrip(w.data))
\* before Close: the header has been written as soon as anything was, and nothing after the body
HeaderBeforeBody == (Mode = "write" /\ st = "open" /\ w.started) => HasPrefixAt(w.out, 1, ArmorHeader \o <<LF>>)
PendingSmall == (Mode = "write") => (Len(w.pend) <= 2 /\ w.col >= 0 /\ w.col < AColumns)
WriteEmit == (Mode = "write" /\ st = "closed") =>
              PrintT("CASE " \o ToJson([writes |-> path, data |-> w.data, out |-> w.out]))
=============================================================================
