----------------------------- MODULE Bech32Dist -----------------------------
(* The code-distance theorem of the Bech32 checksum as a TLC-evaluated        *)
(* constant: every substitution of up to four symbols among the 58 symbols    *)
(* after the separator of a native age key string changes the checksum.       *)
EXTENDS Bech32, TLC
CONSTANT DoW34

\* Code distance.  Polymod is affine over GF(2): the syndrome of an error pattern is the XOR of the
\* syndromes of its single-symbol errors.  S[d][x] is the syndrome of error value x at distance d from the end.
RECURSIVE Shift(_, _)
Shift(chk, d) == IF d = 0 THEN chk ELSE Shift(Step(chk, 0), d - 1)
DistN == 58
S == [d \in 0..(DistN - 1) |-> [x \in 1..31 |-> Shift(x, d)]]
Singles == {S[d][x] : d \in 0..(DistN - 1), x \in 1..31}
W1 == 0 \notin Singles                               \* no single substitution goes undetected
W2 == Cardinality(Singles) = DistN * 31              \* nor any double (two singles never cancel)
\* (operators with a parameter are not pre-evaluated by TLC at start-up)
Pairs(n) == {S[ab[1]][x] ^^ S[ab[2]][y] : ab \in {p \in (0..(n - 1)) \X (0..(n - 1)) : p[1] < p[2]}, x \in 1..31, y \in 1..31}
NPairs(n) == ((n * (n - 1)) \div 2) * 961
W34(n) == LET P == Pairs(n) IN
          /\ Cardinality(P) = NPairs(n)               \* weight 4: two pairs never cancel
          /\ 0 \notin P                               \* weight 2 again
          /\ P \cap Singles = {}                      \* weight 3
Dist3 == W1 /\ W2
Dist5(n) == W1 /\ W2 /\ W34(n)

ASSUME PrintT("DIST3 " \o ToString(Dist3))
ASSUME DoW34 => PrintT("DIST5 " \o ToString(Dist5(DistN)))
=============================================================================
