------------------------------ MODULE ScryptGate ------------------------------
(* C10: what a passphrase identity does with an scrypt stanza before it may    *)
(* spend any key-derivation work.                                              *)
(*   - the work-factor argument must be a canonical positive decimal           *)
(*     (a non-zero digit followed by digits), must fit an int, and must not exceed the identity's      *)
(*     configured maximum; only then is a key derived (Derive(logN))           *)
(*   - an scrypt stanza must be the only stanza of the header, wherever it     *)
(*     stands; otherwise the header is rejected without derivation             *)
(* Strings are sequences of one-character strings.                             *)
EXTENDS Integers, Sequences, FiniteSets, TLC, Json

CONSTANTS Alphabet, MaxLen, Maxima, MaxStanzas, OtherKinds, Specials

Digits == {"0", "1", "2", "3", "4", "5", "6", "7", "8", "9"}
DigitVal(c) == CASE c = "0" -> 0 [] c = "1" -> 1 [] c = "2" -> 2 [] c = "3" -> 3 [] c = "4" -> 4
                 [] c = "5" -> 5 [] c = "6" -> 6 [] c = "7" -> 7 [] c = "8" -> 8 [] c = "9" -> 9
Canonical(s) == Len(s) > 0 /\ (\A i \in 1..Len(s) : s[i] \in Digits) /\ s[1] # "0"
RECURSIVE Value(_)
Value(s) == IF Len(s) = 0 THEN 0 ELSE 10 * Value(SubSeq(s, 1, Len(s) - 1)) + DigitVal(s[Len(s)])
\* outcome for a lone, otherwise well-formed stanza
Gate(s, max) == IF ~Canonical(s) THEN [derive |-> FALSE, logN |-> 0, why |-> "encoding"]
                ELSE IF Len(s) > 18 THEN [derive |-> FALSE, logN |-> 0, why |-> "overflow"]
                \* (a canonical decimal of ten or more digits exceeds every maximum; TLC's integers are 32 bit)
                ELSE IF Len(s) > 9 THEN [derive |-> FALSE, logN |-> 0, why |-> "too-large"]
                ELSE IF Value(s) > max THEN [derive |-> FALSE, logN |-> 0, why |-> "too-large"]
                ELSE [derive |-> TRUE, logN |-> Value(s), why |-> ""]

RECURSIVE Strings(_)
Strings(n) == IF n = 0 THEN {<<>>} ELSE LET P == Strings(n - 1) IN P \cup {Append(s, c) : s \in {t \in P : Len(t) = n - 1}, c \in Alphabet}
AllStrings == Strings(MaxLen) \cup Specials

VARIABLES kind, wf, max, layout
vars == <<kind, wf, max, layout>>
\* kind "wf": a lone stanza with work-factor string wf against maximum max
\* kind "alone": a header whose stanza kinds are layout (a sequence over {"scrypt"} \cup OtherKinds), correct work factor
Layouts == UNION {[1..n -> {"scrypt"} \cup OtherKinds] : n \in 1..MaxStanzas}
Init == \/ kind = "wf" /\ wf \in AllStrings /\ max \in Maxima /\ layout = <<"scrypt">>
        \/ kind = "alone" /\ wf = <<"2">> /\ max = 10 /\ layout \in {l \in Layouts : \E i \in 1..Len(l) : l[i] = "scrypt"}
Next == UNCHANGED vars
Spec == Init /\ [][Next]_vars

Expected == IF Len(layout) # 1 THEN [derive |-> FALSE, logN |-> 0, why |-> "not-alone"] ELSE Gate(wf, max)
\* the gate never lets more work through than configured, and never derives for a non-canonical string
GateBound == Expected.derive => (Expected.logN >= 1 /\ Expected.logN <= max /\ Canonical(wf) /\ Len(layout) = 1)
Emit == GateBound /\ PrintT("CASE " \o ToJson([kind |-> kind, wf |-> wf, max |-> max, layout |-> layout, expected |-> Expected]))
=============================================================================
