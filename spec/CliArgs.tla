------------------------------- MODULE CliArgs -------------------------------
(* The synopsis of the age command as a decision table (cmd/age/age.go main):  *)
(* which combinations of -e -d -p -a -r -R -i and of 0, 1 or 2 input arguments  *)
(* are a command at all, which of the four operations a valid one selects, and  *)
(* who can open what it writes.  A flag may be repeated and the flags may come  *)
(* in any order and in their long spellings: the verdict is a function of the   *)
(* set of flags present (the harness permutes and respells).                    *)
(*                                                                              *)
(*   age [-e] (-r RECIPIENT | -R PATH)... [-a] [-o OUTPUT] [INPUT]              *)
(*   age [-e] -p [-a] [-o OUTPUT] [INPUT]                                       *)
(*   age -e -i PATH... [-r ..] [-R ..] [-a] [-o OUTPUT] [INPUT]                 *)
(*   age -d [-i PATH]... [-o OUTPUT] [INPUT]                                    *)
EXTENDS Integers, Sequences, FiniteSets, TLC, Json

Flags == [e : BOOLEAN, d : BOOLEAN, p : BOOLEAN, a : BOOLEAN, r : BOOLEAN, R : BOOLEAN, i : BOOLEAN, n : 0..2]

\* the checks of main() in their order: the first that applies names the refusal
Verdict(f) ==
  IF f.n = 2 THEN "too-many-inputs"
  ELSE IF f.d THEN
       IF f.e THEN "e-with-d"
       ELSE IF f.a THEN "a-with-d"
       ELSE IF f.p THEN "p-with-d"
       ELSE IF f.r THEN "r-with-d"
       ELSE IF f.R THEN "R-with-d"
       ELSE IF f.i THEN "decrypt-identities" ELSE "decrypt-passphrase"
  ELSE IF f.i /\ ~f.e THEN "i-without-e"
       ELSE IF ~(f.r \/ f.R \/ f.i) /\ ~f.p THEN "missing-recipients"
       ELSE IF f.p /\ f.r THEN "p-with-r"
       ELSE IF f.p /\ f.R THEN "p-with-R"
       ELSE IF f.p /\ f.i THEN "p-with-i"
       ELSE IF f.p THEN "encrypt-passphrase" ELSE "encrypt-recipients"

Operations == {"decrypt-identities", "decrypt-passphrase", "encrypt-passphrase", "encrypt-recipients"}
Valid(f) == Verdict(f) \in Operations
\* who must be able to open what a valid encryption writes: the key named by -r ("x1"), the key of the -R file ("x2"),
\* the key of the -i file ("x3"), the passphrase ("pw")
Openers(f) == (IF f.r THEN {"x1"} ELSE {}) \cup (IF f.R THEN {"x2"} ELSE {}) \cup (IF f.i THEN {"x3"} ELSE {}) \cup (IF f.p THEN {"pw"} ELSE {})

\* ---------------------------------------------------------------- theorems of the table (checked by TLC over all 384 rows)
\* the synopsis, read positively: a command is valid exactly when it is one of its four lines
Synopsis(f) == /\ f.n <= 1
               /\ \/ (f.d /\ ~f.e /\ ~f.a /\ ~f.p /\ ~f.r /\ ~f.R)
                  \/ (~f.d /\ f.p /\ ~f.r /\ ~f.R /\ ~f.i)
                  \/ (~f.d /\ ~f.p /\ (f.r \/ f.R) /\ (f.i => f.e))
                  \/ (~f.d /\ ~f.p /\ f.e /\ f.i)
ValidIsSynopsis == \A f \in Flags : Valid(f) <=> Synopsis(f)
\* C10 on the command line: a passphrase never shares a file with another recipient
PassphraseAlone == \A f \in Flags : (Valid(f) /\ f.p) => Openers(f) = {"pw"}
\* a valid encryption has somebody who can open it; decryption options never mix with encryption options
SomebodyOpens == \A f \in Flags : (Valid(f) /\ ~f.d) => Openers(f) # {}
NoMixing == \A f \in Flags : (Valid(f) /\ f.d) => ~(f.e \/ f.a \/ f.p \/ f.r \/ f.R)
\* -e and -a never decide validity of an encryption that names recipients
EIsOptional == \A f \in Flags : (~f.d /\ ~f.i) => (Valid(f) <=> Valid([f EXCEPT !.e = ~f.e]))
AIsOptional == \A f \in Flags : ~f.d => (Valid(f) <=> Valid([f EXCEPT !.a = ~f.a]))
ASSUME ValidIsSynopsis /\ PassphraseAlone /\ SomebodyOpens /\ NoMixing /\ EIsOptional /\ AIsOptional

\* ---------------------------------------------------------------- one behaviour per row, for replay
VARIABLE f
Init == f \in Flags
Next == UNCHANGED f
Spec == Init /\ [][Next]_f
Emit == PrintT("CASE " \o ToJson([flags |-> f, verdict |-> Verdict(f), valid |-> Valid(f),
                                   openers |-> [k \in {"x1", "x2", "x3", "pw"} |-> k \in Openers(f)]]))
=============================================================================
