------------------------------- MODULE Bytes -------------------------------
(* Byte strings as sequences of 0..255, strict base64 in both flavours age    *)
(* uses (raw/unpadded for the header, std/padded for the armor), and line      *)
(* helpers.  Everything here is a pure function; the modules AgeHeader,       *)
(* AgeArmor and AgeCore build the formats on top of it.                        *)
EXTENDS Integers, Sequences, FiniteSets, SequencesExt, Functions

LF  == 10
CR  == 13
SP  == 32
TAB == 9
EQ  == 61
DASH == 45
GT  == 62

BMin(a, b) == IF a < b THEN a ELSE b
BMax(a, b) == IF a > b THEN a ELSE b

\* value of a base64 (std alphabet) character, or -1
B64Val(c) == IF c >= 65 /\ c <= 90 THEN c - 65
             ELSE IF c >= 97 /\ c <= 122 THEN c - 71
             ELSE IF c >= 48 /\ c <= 57 THEN c + 4
             ELSE IF c = 43 THEN 62 ELSE IF c = 47 THEN 63 ELSE -1
B64Char(v) == IF v < 26 THEN 65 + v ELSE IF v < 52 THEN 71 + v
              ELSE IF v < 62 THEN v - 4 ELSE IF v = 62 THEN 43 ELSE 47

\* decode m sextets (already validated) into bytes, strict about trailing bits
SextetsToBytes(vals) ==
  LET m == Len(vals)
      nbytes == (m * 6) \div 8
      Bit(j) == (vals[(j \div 6) + 1] \div (2 ^ (5 - (j % 6)))) % 2
      Byte(k) == LET b == (k - 1) * 8 IN
                 128*Bit(b) + 64*Bit(b+1) + 32*Bit(b+2) + 16*Bit(b+3)
                 + 8*Bit(b+4) + 4*Bit(b+5) + 2*Bit(b+6) + Bit(b+7)
  IN IF \E j \in (nbytes * 8)..(m * 6 - 1) : Bit(j) = 1
     THEN [ok |-> FALSE, bytes |-> <<>>]
     ELSE [ok |-> TRUE, bytes |-> [k \in 1..nbytes |-> Byte(k)]]

\* strict unpadded ("raw") std-alphabet base64 of one line: no padding, no
\* characters outside the alphabet (so no CR/LF either), length not 1 mod 4,
\* unused trailing bits zero.
DecodeRaw(l) ==
  LET n == Len(l)
      vals == [i \in 1..n |-> B64Val(l[i])]
  IN IF (\E i \in 1..n : vals[i] < 0) \/ n % 4 = 1
     THEN [ok |-> FALSE, bytes |-> <<>>]
     ELSE SextetsToBytes(vals)

\* strict padded std base64 of one line (the armor flavour)
DecodeStd(l) ==
  LET n == Len(l)
      npad == IF n >= 2 /\ l[n] = EQ /\ l[n-1] = EQ THEN 2
              ELSE IF n >= 1 /\ l[n] = EQ THEN 1 ELSE 0
      m == n - npad
      vals == [i \in 1..m |-> B64Val(l[i])]
      shapeOK == /\ n % 4 = 0
                 /\ \A i \in 1..m : vals[i] >= 0
                 /\ \/ npad = 0
                    \/ npad = 1 /\ m % 4 = 3
                    \/ npad = 2 /\ m % 4 = 2
  IN IF ~shapeOK THEN [ok |-> FALSE, bytes |-> <<>>] ELSE SextetsToBytes(vals)

BytesToSextets(b) ==
  LET n == Len(b)
      nch == (n * 8 + 5) \div 6
      Bit(j) == IF j >= n * 8 THEN 0 ELSE (b[(j \div 8) + 1] \div (2 ^ (7 - (j % 8)))) % 2
      Val(k) == LET q == (k - 1) * 6 IN
                32*Bit(q) + 16*Bit(q+1) + 8*Bit(q+2) + 4*Bit(q+3) + 2*Bit(q+4) + Bit(q+5)
  IN [k \in 1..nch |-> Val(k)]

EncodeRaw(b) == LET v == BytesToSextets(b) IN [k \in 1..Len(v) |-> B64Char(v[k])]
EncodeStd(b) == EncodeRaw(b) \o (IF Len(b) % 3 = 1 THEN <<EQ, EQ>>
                                 ELSE IF Len(b) % 3 = 2 THEN <<EQ>> ELSE <<>>)

\* index of the first LF at or after i, or 0
NextLF(s, i) == LET P == {j \in i..Len(s) : s[j] = LF}
                IN IF P = {} THEN 0 ELSE CHOOSE j \in P : \A k \in P : j <= k

\* split a line on single spaces (like strings.Split(l, " "))
SplitSP(l) == LET P == <<0>> \o SetToSortSeq({j \in 1..Len(l) : l[j] = SP}, <) \o <<Len(l) + 1>>
              IN [k \in 1..(Len(P) - 1) |-> SubSeq(l, P[k] + 1, P[k+1] - 1)]

HasPrefixAt(s, i, pre) == /\ i + Len(pre) - 1 <= Len(s)
                          /\ SubSeq(s, i, i + Len(pre) - 1) = pre

\* n copies of byte c
Rep(c, n) == [i \in 1..n |-> c]

\* a deterministic "random looking" byte pattern, parametrised by a seed
Pattern(n, seed) == [i \in 1..n |-> ((i * 37) + (seed * 101) + ((i * i) % 7)) % 256]

RECURSIVE Concat(_)
Concat(ss) == IF Len(ss) = 0 THEN <<>> ELSE ss[1] \o Concat(Tail(ss))
=============================================================================
