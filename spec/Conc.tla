-------------------------------- MODULE Conc --------------------------------
(* Goroutines sharing one recipient value and one identity value (C20).       *)
(*                                                                            *)
(* Each process runs a short program of operations on the shared values:      *)
(*   "enc"  age.Encrypt to the shared recipient  (steps: entry, wrap, finish) *)
(*   "dec"  age.Decrypt with the shared identity (steps: entry, unwrap, finish)*)
(* The steps are the places where the implementation carries a verifhook      *)
(* Point; one model action is the code between two such points.  The shared   *)
(* values have fields that are read by every step and, in the design, written *)
(* by none after construction.  TLC enumerates every interleaving; each       *)
(* complete schedule is emitted and forced onto real goroutines by blocking   *)
(* hooks (gate mode), and the operation mixes are run free under the race     *)
(* detector (race mode).                                                      *)
EXTENDS Integers, Sequences, FiniteSets, TLC, Json

CONSTANTS Procs,        \* e.g. {1, 2}
          Programs,     \* set of programs: sequences over {"enc", "dec"}
          WritesShared  \* deviation switch: TRUE = the wrap step caches something in the shared value

StepsOf(op) == <<"entry", IF op = "enc" THEN "wrap" ELSE "unwrap", "finish">>

VARIABLES prog, pc, sched, writers, results
vars == <<prog, pc, sched, writers, results>>
\* pc[p] = <<index of the operation in prog[p], index of the next step in it>>

Init == /\ prog \in [Procs -> Programs]
        /\ pc = [p \in Procs |-> <<1, 1>>]
        /\ sched = <<>> /\ writers = {} /\ results = [p \in Procs |-> <<>>]
Running(p) == pc[p][1] <= Len(prog[p])
Step(p) ==
  /\ Running(p)
  /\ LET op == prog[p][pc[p][1]]
         st == StepsOf(op)[pc[p][2]]
     IN /\ sched' = Append(sched, p)
        /\ writers' = IF WritesShared /\ st = "wrap" THEN writers \cup {p} ELSE writers
        /\ IF pc[p][2] = 3
           THEN /\ pc' = [pc EXCEPT ![p] = <<pc[p][1] + 1, 1>>]
                \* with a shared write under way by another process the result may differ from the result alone
                /\ results' = [results EXCEPT ![p] = Append(@, IF writers \ {p} # {} /\ WritesShared THEN "maybe-wrong" ELSE "as-alone")]
           ELSE /\ pc' = [pc EXCEPT ![p] = <<pc[p][1], pc[p][2] + 1>>]
                /\ UNCHANGED results
  /\ UNCHANGED prog
Next == \E p \in Procs : Step(p)
Spec == Init /\ [][Next]_vars

Finished == \A p \in Procs : ~Running(p)
\* C20: no step writes the shared values
NoSharedWrite == writers = {}
\* C20: every operation yields the result it would yield alone
ResultAsAlone == \A p \in Procs : \A i \in 1..Len(results[p]) : results[p][i] = "as-alone"
Emit == Finished => PrintT("CASE " \o ToJson([progs |-> [p \in Procs |-> prog[p]], sched |-> sched]))
=============================================================================
