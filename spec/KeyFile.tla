------------------------------ MODULE KeyFile ------------------------------
(* Line-oriented key files (identities files, recipients files): C18.       *)
(*                                                                           *)
(* A file is a sequence of lines; a line is [cls, term] with a class and a  *)
(* terminator "lf" | "crlf" | "none" ("none" only on the last line).        *)
(* Classes:                                                                  *)
(*   key1..key3   a valid key of the file's kind                            *)
(*   comment      starts with '#'                                            *)
(*   empty        no characters (a CRLF-terminated empty line is empty too) *)
(*   skip         (CLI recipients files only) a well-formed SSH public key  *)
(*                of an unsupported type: skipped with a warning            *)
(*   anything in BadClasses: not a valid key (substitution, truncation,     *)
(*                added white space, wrong case, key of the other kind, two *)
(*                keys on a line, white-space-only line, '#' after a blank) *)
(* ParseFile: the first bad line fails the whole file and is named by its   *)
(* 1-based number; a file without any key fails; otherwise the keys, in     *)
(* order.                                                                    *)
EXTENDS Integers, Sequences, FiniteSets, TLC, Json

CONSTANTS MaxLines, KeyClasses, NeutralClasses, SkipClasses, BadClasses, Terms

Classes == KeyClasses \cup NeutralClasses \cup SkipClasses \cup BadClasses

RECURSIVE FirstBad(_, _)
FirstBad(f, i) == IF i > Len(f) THEN 0 ELSE IF f[i].cls \in BadClasses THEN i ELSE FirstBad(f, i + 1)
KeysOf(f) == SelectSeq([i \in 1..Len(f) |-> f[i].cls], LAMBDA c : c \in KeyClasses)
ParseFile(f) ==
  LET b == FirstBad(f, 1) IN
  IF b > 0 THEN [ok |-> FALSE, line |-> b, keys |-> <<>>]
  ELSE IF Len(KeysOf(f)) = 0 THEN [ok |-> FALSE, line |-> 0, keys |-> <<>>]
  ELSE [ok |-> TRUE, line |-> 0, keys |-> KeysOf(f)]

\* C18 as theorems about ParseFile
NothingSkipped(f) == LET r == ParseFile(f) IN
   r.ok => /\ \A i \in 1..Len(f) : f[i].cls \in KeyClasses \cup NeutralClasses \cup SkipClasses
           /\ Len(r.keys) = Cardinality({i \in 1..Len(f) : f[i].cls \in KeyClasses})
OrderKept(f) == LET r == ParseFile(f) IN
   r.ok => \A i, j \in 1..Len(r.keys) : i < j =>
              \E a, b \in 1..Len(f) : a < b /\ f[a].cls = r.keys[i] /\ f[b].cls = r.keys[j]
BadLineNamed(f) == LET r == ParseFile(f) IN
   (~r.ok /\ r.line > 0) => /\ f[r.line].cls \in BadClasses
                            /\ \A i \in 1..(r.line - 1) : f[i].cls \notin BadClasses

\* ------------------------------------------------------------ generator
VARIABLES file, done
vars == <<file, done>>
Init == file = <<>> /\ done = FALSE
Extend == /\ ~done /\ Len(file) < MaxLines
          /\ \E c \in Classes, t \in Terms \ {"none"} : file' = Append(file, [cls |-> c, term |-> t])
          /\ UNCHANGED done
\* finish: as is (last line terminated) or with the last terminator removed
Finish == /\ ~done /\ Len(file) > 0
          /\ \/ file' = file
             \/ ("none" \in Terms) /\ file' = [file EXCEPT ![Len(file)].term = "none"]
          /\ done' = TRUE
Next == Extend \/ Finish
Spec == Init /\ [][Next]_vars

Emit == done => /\ NothingSkipped(file) /\ OrderKept(file) /\ BadLineNamed(file)
                /\ LET r == ParseFile(file) IN
                   PrintT("CASE " \o ToJson([lines |-> file, ok |-> r.ok, line |-> r.line, keys |-> r.keys]))
=============================================================================
