------------------------------- MODULE Plugin -------------------------------
(* The age plugin client (plugin/client.go) against an arbitrary plugin: the  *)
(* recipient-v1 and identity-v1 state machines.  One behaviour is one         *)
(* conversation after the client's opening phase: the plugin sends messages   *)
(* from an alphabet of well-formed and malformed stanzas, the client answers. *)
(*                                                                            *)
(* State: what the client has collected (stanzas, labels, file key), the      *)
(* replies it has sent, and how the call ends.  The UI callbacks available    *)
(* to the client are part of the configuration.                               *)
EXTENDS Integers, Sequences, FiniteSets, TLC, Json

CONSTANTS MaxMsgs, Mode          \* Mode \in {"recipient", "identity"}

\* ("rs_long", "unknown_long": well-formed commands whose first line is longer than any line buffer)
RecipMsgs == {"rs_ok", "rs_ok2", "rs_long", "rs_idx1", "rs_neg", "rs_nan", "rs_short", "labels0", "labels_ab", "labels_ba"}
IdentMsgs == {"fk_ok", "fk_idx1", "fk_neg", "fk_nan", "fk_args0", "fk_args2"}
Common == {"error", "done", "msg", "req_secret", "req_public", "confirm1", "confirm2", "confirm0", "confirm3", "confirm_bad64",
           "unknown", "unknown_long", "garbage", "trunc", "eof"}
Alphabet == Common \cup (IF Mode = "recipient" THEN RecipMsgs ELSE IdentMsgs)
\* which callbacks the application provides, and how they behave
UIs == [disp : {"nil", "err", "ok"}, req : {"nil", "err", "ok"}, conf : {"nil", "err", "yes", "no"}]

VARIABLES ui, script, stanzas, labels, fk, replies, result, used
vars == <<ui, script, stanzas, labels, fk, replies, result, used>>

Init == /\ ui \in UIs /\ script = <<>> /\ stanzas = 0 /\ labels = "none" /\ fk = FALSE
        /\ replies = <<>> /\ result = "running" /\ used = {}

Abort(r) == result' = r /\ UNCHANGED <<stanzas, labels, fk, replies>>
Reply(r) == replies' = Append(replies, r)
Keep == UNCHANGED <<stanzas, labels, fk, result>>

Uses(m) == IF m = "msg" THEN {"disp"} ELSE IF m \in {"req_secret", "req_public"} THEN {"req"}
           ELSE IF m \in {"confirm1", "confirm2", "confirm_bad64"} THEN {"conf"} ELSE {}

Recv(m) ==
  /\ result = "running" /\ Len(script) < MaxMsgs
  /\ script' = Append(script, m) /\ used' = used \cup Uses(m) /\ UNCHANGED ui
  /\ CASE m \in {"rs_ok", "rs_ok2", "rs_long"} -> /\ stanzas' = stanzas + 1 /\ Reply("ok") /\ UNCHANGED <<labels, fk, result>>
       \* only file index 0 is accepted; too few arguments, a non-numeric or another index end the call with an error
       [] m \in {"rs_idx1", "rs_neg", "rs_nan", "rs_short", "fk_idx1", "fk_neg", "fk_nan", "fk_args0", "fk_args2", "confirm0", "confirm3"} -> Abort("err_malformed")
       [] m \in {"labels0", "labels_ab", "labels_ba"} ->
             IF labels # "none" THEN Abort("err_replabels")                         \* a repeated labels message is an error
             ELSE /\ labels' = m /\ Reply("ok") /\ UNCHANGED <<stanzas, fk, result>>
       [] m = "fk_ok" -> IF fk THEN Abort("err_dupkey")                              \* a repeated file key is an error
                         ELSE /\ fk' = TRUE /\ Reply("ok") /\ UNCHANGED <<stanzas, labels, result>>
       \* an error message is acknowledged, then the call fails with the plugin's text
       [] m = "error" -> /\ Reply("ok") /\ result' = "err_plugin" /\ UNCHANGED <<stanzas, labels, fk>>
       [] m = "done" -> /\ result' = IF Mode = "recipient" THEN (IF stanzas = 0 THEN "err_zero" ELSE "ok")
                                     ELSE (IF fk THEN "ok" ELSE "incorrect")
                        /\ UNCHANGED <<stanzas, labels, fk, replies>>
       [] m = "msg" -> Reply(IF ui.disp = "ok" THEN "ok" ELSE "fail") /\ Keep
       [] m \in {"req_secret", "req_public"} -> Reply(IF ui.req = "ok" THEN "ok_value" ELSE "fail") /\ Keep
       [] m \in {"confirm1", "confirm2"} ->
             Reply(IF ui.conf = "yes" THEN "ok_yes" ELSE IF ui.conf = "no" THEN "ok_no" ELSE "fail") /\ Keep
       \* a confirm whose option is not valid base64: without a Confirm callback the client answers fail before looking at it
       [] m = "confirm_bad64" -> IF ui.conf = "nil" THEN Reply("fail") /\ Keep ELSE Abort("err_malformed")
       \* unknown commands are answered "unsupported" and otherwise ignored
       [] m \in {"unknown", "unknown_long"} -> Reply("unsupported") /\ Keep
       \* a plugin that stops, or sends something that is not a stanza, is an error, not a hang
       [] m \in {"garbage", "trunc", "eof"} -> Abort("err_io")
\* the plugin closes its end without "done"
EndOfScript == /\ result = "running" /\ Len(script) = MaxMsgs /\ result' = "err_io"
               /\ script' = Append(script, "eof") /\ UNCHANGED <<ui, stanzas, labels, fk, replies, used>>
Next == (\E m \in Alphabet : Recv(m)) \/ EndOfScript
Spec == Init /\ [][Next]_vars

\* ---------------------------------------------------------------- the client's opening phase
\* What the client says before it starts listening, as stanza types in order.  kind: "recipient" (plugin.Recipient,
\* through WrapWithLabels or through the plain Wrap method: the same opening, the labels extension announced either way),
\* "recipient-from-identity" (the recipient-v1 machine opened for a plugin identity: age -e -i / -j), "identity"
\* (identity-v1, which forwards the nHdr stanzas of the file header, all with file index 0).
Rep(x, n) == [i \in 1..n |-> x]
Opening(kind, nHdr) ==
  CASE kind = "recipient" -> <<"add-recipient", "grease", "wrap-file-key", "extension-labels", "done">>
    [] kind = "recipient-from-identity" -> <<"add-identity", "grease", "wrap-file-key", "extension-labels", "done">>
    [] kind = "identity" -> <<"add-identity", "grease">> \o Rep("recipient-stanza", nHdr) \o <<"done">>
\* one target declaration and one grease stanza open every conversation, "done" closes the opening, and the file key is
\* sent exactly once and only on the recipient side
OpeningShape == \A k \in {"recipient", "recipient-from-identity", "identity"} : \A n \in 0..3 :
   LET o == Opening(k, n) IN
   /\ o[1] \in {"add-recipient", "add-identity"} /\ o[2] = "grease" /\ o[Len(o)] = "done"
   /\ Cardinality({i \in 1..Len(o) : o[i] = "wrap-file-key"}) = (IF k = "identity" THEN 0 ELSE 1)
   /\ Cardinality({i \in 1..Len(o) : o[i] = "recipient-stanza"}) = (IF k = "identity" THEN n ELSE 0)
ASSUME OpeningShape

\* ---------------------------------------------------------------- C16 as invariants
OnlyIndexZero == (result = "ok" /\ Mode = "recipient") => stanzas = Cardinality({i \in 1..Len(script) : script[i] \in {"rs_ok", "rs_ok2", "rs_long"}})
NoDuplicateKeyOrLabels == (result \in {"ok", "incorrect", "err_zero"}) =>
      /\ Cardinality({i \in 1..Len(script) : script[i] = "fk_ok"}) <= 1
      /\ Cardinality({i \in 1..Len(script) : script[i] \in {"labels0", "labels_ab", "labels_ba"}}) <= 1
ErrorAckedThenAbort == (result = "err_plugin") => (script[Len(script)] = "error" /\ replies[Len(replies)] = "ok")
EmptyWrapFails == (Mode = "recipient" /\ result = "ok") => stanzas > 0
NoKeyIsIncorrectIdentity == (Mode = "identity" /\ result \notin {"running"} /\ script[Len(script)] = "done") => (result = IF fk THEN "ok" ELSE "incorrect")
\* the client never waits once the plugin has closed: every conversation ends
Terminates == (Len(script) >= MaxMsgs) => (result # "running" \/ ENABLED EndOfScript)
\* one reply per message that asks for one
RepliesMatch == Len(replies) <= Len(script)

\* emitted once per conversation, with unused callbacks in their canonical (absent) configuration
Canonical == /\ ("disp" \notin used => ui.disp = "nil") /\ ("req" \notin used => ui.req = "nil") /\ ("conf" \notin used => ui.conf = "nil")
Emit == (result # "running" /\ Canonical) =>
   PrintT("CASE " \o ToJson([mode |-> Mode, ui |-> ui, script |-> script, replies |-> replies, result |-> result,
                              stanzas |-> stanzas, labels |-> labels, fk |-> fk,
                              opening |-> [k \in {"recipient", "recipient-from-identity", "identity"} |-> Opening(k, 2)]]))
=============================================================================
