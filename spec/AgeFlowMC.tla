------------------------------ MODULE AgeFlowMC ------------------------------
(* The AgeFlow machine under every event order it allows (one goroutine,       *)
(* calls of up to MaxN recipients / identities, nesting up to MaxDepth):       *)
(* invariants of the design that the per-step guards are meant to give.        *)
EXTENDS AgeFlow, TLC, FiniteSets

CONSTANTS MaxN, MaxDepth

VARIABLES st, last, hist     \* stack, the frame popped last, the events of the top-level call so far
vars == <<st, last, hist>>

Events == {[ev |-> "age.enc.begin", a |-> <<n>>] : n \in 1..MaxN} \cup {[ev |-> "age.dec.begin", a |-> <<n>>] : n \in 1..MaxN}
          \cup {[ev |-> "age.enc.wrap", a |-> <<c, lb>>] : c \in {1, 3}, lb \in 0..1}
          \cup {[ev |-> e, a |-> <<ok>>] : e \in {"age.enc.header", "age.enc.nonce", "age.dec.mac", "age.dec.nonce", "age.dec.header"}, ok \in 0..1}
          \cup {[ev |-> "age.enc.rand", a |-> <<0>>], [ev |-> "age.enc.mac", a |-> <<0>>], [ev |-> "age.enc.incompatible", a |-> <<>>], [ev |-> "age.dec.nomatch", a |-> <<>>]}
          \cup {[ev |-> "age.dec.unwrap", a |-> <<c, k>>] : c \in 1..3, k \in {0, 16}}

Init == st = <<>> /\ last = Frame("dec", 0) /\ hist = <<>>
Take(e) == /\ Len(st) < MaxDepth \/ ~IsBegin(e)
           /\ LET r == Apply(st, e) IN
                /\ r.ok
                /\ st' = r.st
                /\ last' = IF Len(r.st) < Len(st) THEN Step(st[Len(st)], e).f ELSE last
                /\ hist' = IF Len(st) = 0 THEN <<e>> ELSE IF Len(st) = 1 /\ ~IsBegin(e) THEN Append(hist, e) ELSE hist
Next == \E e \in Events : Take(e)
Spec == Init /\ [][Next]_vars

Count(p(_)) == Cardinality({j \in 1..Len(hist) : p(hist[j])})
IsUnwrap(e) == e.ev = "age.dec.unwrap"
IsWrap(e) == e.ev = "age.enc.wrap"
TopDone == Len(st) = 0 /\ Len(hist) > 0 /\ last.pc = "done"
\* C01: a Decrypt that hands out a payload reader consulted the identities in order, stopped at the first that
\* opened the file, and that one returned a key
DecDone == (TopDone /\ last.kind = "dec") =>
             /\ last.opened /\ last.i >= 1 /\ last.i <= last.n
             /\ \E j \in 1..Len(hist) : /\ IsUnwrap(hist[j]) /\ hist[j].a = <<1, 16>>
                                        /\ \A k \in (j + 1)..Len(hist) : ~IsUnwrap(hist[k])
                                        /\ \A k \in 1..(j - 1) : IsUnwrap(hist[k]) => hist[k].a[1] = 2
             \* C03: and the header MAC was verified after that and before the payload
             /\ \E j \in 1..Len(hist) : hist[j] = [ev |-> "age.dec.mac", a |-> <<1>>]
\* C01/C11: an Encrypt that hands out a payload writer wrapped every recipient, all with the same label count,
\* and wrote the header and then the nonce
EncDone == (TopDone /\ last.kind = "enc") =>
             /\ last.i = last.n
             /\ Cardinality({j \in 1..Len(hist) : IsWrap(hist[j]) /\ hist[j].a[1] = 1}) = last.n
             /\ \A j, k \in 1..Len(hist) : (IsWrap(hist[j]) /\ IsWrap(hist[k])) => hist[j].a[2] = hist[k].a[2]
             /\ hist[Len(hist) - 1] = [ev |-> "age.enc.header", a |-> <<1>>]
             /\ hist[Len(hist)] = [ev |-> "age.enc.nonce", a |-> <<1>>]
\* a no-match result only after every identity declined
NoMatch == (Len(st) = 0 /\ Len(hist) > 0 /\ hist[Len(hist)].ev = "age.dec.nomatch") =>
             \/ Cardinality({j \in 1..Len(hist) : IsUnwrap(hist[j]) /\ hist[j].a[1] = 2}) = hist[1].a[1]
             \/ \E j \in 1..Len(hist) : IsUnwrap(hist[j]) /\ hist[j].a = <<1, 0>>
\* reachability of the two success states (run as invariants that must be violated: vacuity guard)
NeverDecDone == ~(TopDone /\ last.kind = "dec" /\ last.i = 3)
NeverEncDone == ~(TopDone /\ last.kind = "enc" /\ last.n = 3)
Bounded == Len(hist) <= 2 * MaxN + 6
==============================================================================
