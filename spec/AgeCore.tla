------------------------------- MODULE AgeCore -------------------------------
(* age.Encrypt / age.Decrypt over symbolic cryptography.                      *)
(*                                                                            *)
(* Keys are identifiers; a stanza records what its bytes are bound to:        *)
(*   type   the stanza type string                                            *)
(*   tag    the key the public-key tag argument names (SSH types), "-" else   *)
(*   wk     the key (or passphrase) whose holder can derive the wrapping key  *)
(*   fk     the file key wrapped inside ("FK": this file's, "AK": attacker's) *)
(*   shape  "ok" | "badargs" (wrong argument count) | "badlen" (body of the   *)
(*          wrong size)                                                       *)
(*   wf     scrypt only: class of the work-factor string                      *)
(* AEAD opens iff the wrapping key is derived by the right holder; the header *)
(* MAC is [k |-> file key, over |-> the stanza sequence].  Perfect crypto is  *)
(* the stated assumption; x/crypto is the trusted base.                       *)
(*                                                                            *)
(* Unwrap(i, s) is transcribed per identity type from x25519.go, scrypt.go    *)
(* and agessh.go; Encrypt and Decrypt from age.go.                            *)
EXTENDS Integers, Sequences, FiniteSets, TLC, SequencesExt, Json

CONSTANTS Keys,          \* key identifiers in play, e.g. {"x1","x2","e1","r1","s1"}
          MaxRecips, MaxIds,
          Mode,          \* "roundtrip" (C01/C04) | "tamper" (C03) | "labels" (C11) | "scrypt" (C10)
          LabelSets,     \* label sequences available to labelled recipients (Mode = "labels")
          WFs            \* work-factor classes (Mode = "scrypt")

\* label-sequence universes selectable from a cfg (LabelSets <- LabelSetsFull)
LabelSetsNone == {}
\* a label declaration: absent (the recipient implements no label interface / returns nil) or a sequence
Absent == [present |-> FALSE, ls |-> <<>>]
Lbl(ls) == [present |-> TRUE, ls |-> ls]
LabelSetsSmall == {Absent, Lbl(<<>>), Lbl(<<"a">>), Lbl(<<"a", "b">>), Lbl(<<"b", "a">>)}
LabelSetsFull == {Absent, Lbl(<<>>), Lbl(<<"a">>), Lbl(<<"b">>), Lbl(<<"c">>), Lbl(<<"a", "b">>), Lbl(<<"b", "a">>), Lbl(<<"a", "c">>),
                  Lbl(<<"b", "c">>), Lbl(<<"c", "b">>), Lbl(<<"a", "b", "c">>), Lbl(<<"c", "a", "b">>),
                  Lbl(<<"a", "a">>), Lbl(<<"b", "b">>), Lbl(<<"a", "a", "b">>),      \* a recipient repeating a label
                  \* labels are opaque strings: one label containing a separator, or the empty string, is one label
                  Lbl(<<"a,b">>), Lbl(<<"">>), Lbl(<<"a b">>), Lbl(<<"", "a">>)}

KType(k) == LET c == SubSeq(k, 1, 1) IN
            IF c = "x" THEN "X25519" ELSE IF c = "e" THEN "ssh-ed25519" ELSE IF c = "r" THEN "ssh-rsa" ELSE "scrypt"
FK == "FK"
AK == "AK"

\* ---------------------------------------------------------------- recipients
\* [k |-> "K", key]    a key or passphrase recipient of the key's type
\* [k |-> "G"]         a custom recipient producing a stanza of an unknown type
\* [k |-> "L", labels] a custom recipient declaring labels (a sequence, or "absent")
\* [k |-> "Z", labels] a custom recipient declaring labels and contributing NO stanza (Wrap may return an empty list)
\* [k |-> "F"]         a recipient whose Wrap fails
KeyRecip(k) == [k |-> "K", key |-> k, labels |-> Absent]
Grease == [k |-> "G", key |-> "-", labels |-> Absent]
Labelled(ls) == [k |-> "L", key |-> "-", labels |-> ls]
NoStanza(ls) == [k |-> "Z", key |-> "-", labels |-> ls]
Failing == [k |-> "F", key |-> "-", labels |-> Absent]

StanzaFor(r, fk) ==
  IF r.k = "K" THEN [type |-> KType(r.key), tag |-> (IF KType(r.key) \in {"ssh-ed25519", "ssh-rsa"} THEN r.key ELSE "-"),
                     wk |-> r.key, fk |-> fk, shape |-> "ok", wf |-> "ok"]
  ELSE [type |-> "grease", tag |-> "-", wk |-> "-", fk |-> "-", shape |-> "ok", wf |-> "ok"]

\* the label SET a recipient declares; a passphrase recipient declares a fresh random label, different from every other
LabelSet(r, i) == IF r.k = "K" /\ KType(r.key) = "scrypt" THEN {"random#" \o ToString(i)}
                  ELSE IF ~r.labels.present THEN {}
                  ELSE {r.labels.ls[j] : j \in 1..Len(r.labels.ls)}

\* A recipient that repeats a label: if its SET equals another recipient's set while the lists differ only by the
\* repetition, the property text (sets) and a list reading disagree; such lists are marked and no verdict is taken on them.
LabelBag(r) == [l \in {"a", "b", "c"} |-> IF ~r.labels.present THEN 0 ELSE Cardinality({j \in 1..Len(r.labels.ls) : r.labels.ls[j] = l})]
Ambiguous(rs) == \E i \in 1..Len(rs) : rs[i].k \in {"L", "Z"} /\ LabelSet(rs[i], i) = LabelSet(rs[1], 1) /\ LabelBag(rs[i]) # LabelBag(rs[1])
                                          /\ rs[1].k \in {"L", "K", "Z"}

\* Encrypt(rs): [ok, why, stanzas, written]   written = bytes handed to dst before returning (0 on every refusal)
Encrypt(rs) ==
  IF Len(rs) = 0 THEN [ok |-> FALSE, why |-> "norecipients", stanzas |-> <<>>, written |-> 0]
  ELSE IF \E i \in 1..Len(rs) : rs[i].k = "F" /\ \A j \in 1..(i - 1) : LabelSet(rs[j], j) = LabelSet(rs[1], 1)
       THEN [ok |-> FALSE, why |-> "wrapfailed", stanzas |-> <<>>, written |-> 0]
  ELSE IF \E i \in 1..Len(rs) : LabelSet(rs[i], i) # LabelSet(rs[1], 1)
       THEN [ok |-> FALSE, why |-> "incompatible", stanzas |-> <<>>, written |-> 0]
  \* (a recipient without stanzas takes part in the label comparison like any other and leaves nothing in the header)
  ELSE [ok |-> TRUE, why |-> "", written |-> 1,
        stanzas |-> LET idx == SelectSeq([i \in 1..Len(rs) |-> i], LAMBDA i : rs[i].k # "Z") IN [j \in 1..Len(idx) |-> StanzaFor(rs[idx[j]], FK)]]
HonestHeader(rs) == LET ss == Encrypt(rs).stanzas IN [stanzas |-> ss, mac |-> [k |-> FK, over |-> ss]]

\* ---------------------------------------------------------------- identities
\* outcome of identity key i on one stanza s:  "incorrect" | "hard" | "key" (with fk)
Unwrap1(i, s, maxOK) ==
  LET t == KType(i) IN
  IF s.type # t THEN [c |-> "incorrect", fk |-> "-"]
  ELSE IF t = "X25519" THEN
         IF s.shape # "ok" THEN [c |-> "hard", fk |-> "-"]
         ELSE IF s.wk = i THEN [c |-> "key", fk |-> s.fk] ELSE [c |-> "incorrect", fk |-> "-"]
  ELSE IF t = "scrypt" THEN
         IF s.shape = "badargs" THEN [c |-> "hard", fk |-> "-"]
         ELSE IF s.wf # "ok" THEN [c |-> "hard", fk |-> "-"]          \* not canonical, or above the maximum: no derivation
         ELSE IF s.shape = "badlen" THEN [c |-> "hard", fk |-> "-"]     \* (after derivation)
         ELSE IF s.wk = i THEN [c |-> "key", fk |-> s.fk] ELSE [c |-> "incorrect", fk |-> "-"]
  ELSE IF t = "ssh-ed25519" THEN
         IF s.shape = "badargs" THEN [c |-> "hard", fk |-> "-"]
         ELSE IF s.tag # i THEN [c |-> "incorrect", fk |-> "-"]
         ELSE IF s.wk = i /\ s.shape = "ok" THEN [c |-> "key", fk |-> s.fk] ELSE [c |-> "hard", fk |-> "-"]
  ELSE \* ssh-rsa
         IF s.shape = "badargs" THEN [c |-> "hard", fk |-> "-"]
         ELSE IF s.tag # i THEN [c |-> "incorrect", fk |-> "-"]
         ELSE IF s.wk = i /\ s.shape = "ok" THEN [c |-> "key", fk |-> s.fk] ELSE [c |-> "hard", fk |-> "-"]

RECURSIVE Multi(_, _, _)
Multi(i, ss, n) == IF n > Len(ss) THEN [c |-> "incorrect", fk |-> "-"]
                   ELSE LET o == Unwrap1(i, ss[n], TRUE) IN IF o.c = "incorrect" THEN Multi(i, ss, n + 1) ELSE o
\* Identity.Unwrap(stanzas): a passphrase identity first insists that an scrypt stanza be alone
Unwrap(i, ss) == IF KType(i) = "scrypt" /\ Len(ss) # 1 /\ \E n \in 1..Len(ss) : ss[n].type = "scrypt"
                 THEN [c |-> "hard", fk |-> "-"]
                 ELSE Multi(i, ss, 1)

\* Decrypt: identities in order; the first that is not "incorrect" decides
RECURSIVE Dec(_, _, _, _)
Dec(ids, n, hdr, tried) ==
  IF n > Len(ids) THEN [c |-> "nomatch", fk |-> "-", tried |-> tried]
  ELSE LET o == Unwrap(ids[n], hdr.stanzas) IN
       IF o.c = "incorrect" THEN Dec(ids, n + 1, hdr, tried + 1)
       ELSE IF o.c = "hard" THEN [c |-> "hard", fk |-> "-", tried |-> tried + 1]
       ELSE IF hdr.mac = [k |-> o.fk, over |-> hdr.stanzas]
            THEN [c |-> "reader", fk |-> o.fk, tried |-> tried + 1]
            ELSE [c |-> "badmac", fk |-> o.fk, tried |-> tried + 1]
Decrypt(ids, hdr) == IF Len(ids) = 0 THEN [c |-> "noidentities", fk |-> "-", tried |-> 0] ELSE Dec(ids, 1, hdr, 0)

\* ---------------------------------------------------------------- attacker edits of a header
OtherOfType(k) == LET S == {x \in Keys : KType(x) = KType(k) /\ x # k} IN IF S = {} THEN k ELSE CHOOSE x \in S : TRUE
SubstOf(s) == {[what |-> "type", key |-> "-", s |-> [s EXCEPT !.type = "other"]],
               [what |-> "badlen", key |-> "-", s |-> [s EXCEPT !.shape = "badlen"]],
               [what |-> "badargs", key |-> "-", s |-> [s EXCEPT !.shape = "badargs"]]}
              \cup (IF s.wk \in Keys THEN {[what |-> "fk", key |-> s.wk, s |-> [s EXCEPT !.fk = AK]],                  \* re-wrapped attacker key
                                           [what |-> "wk", key |-> OtherOfType(s.wk),                                    \* re-addressed to another key
                                            s |-> [s EXCEPT !.wk = OtherOfType(s.wk),
                                                            !.tag = IF s.tag = "-" THEN "-" ELSE OtherOfType(s.wk)]]}
                    ELSE {})
Forged(k) == StanzaFor(KeyRecip(k), AK)
GreaseStanza == StanzaFor(Grease, FK)
InsAt(ss, p, s) == SubSeq(ss, 1, p - 1) \o <<s>> \o SubSeq(ss, p, Len(ss))
RemAt(ss, p) == SubSeq(ss, 1, p - 1) \o SubSeq(ss, p + 1, Len(ss))
PermFns(n) == {g \in [1..n -> 1..n] : \A a, b \in 1..n : a # b => g[a] # g[b]}
\* an edit is a record describing itself (for the replayer) together with the edited stanza sequence
Edits(ss) ==
     UNION {{[e |-> "subst", p |-> p, q |-> 0, what |-> x.what, key |-> x.key, perm |-> <<>>, ss |-> [ss EXCEPT ![p] = x.s]] : x \in SubstOf(ss[p])} : p \in 1..Len(ss)}
\cup {[e |-> "insert", p |-> p, q |-> 0, what |-> "grease", key |-> "-", perm |-> <<>>, ss |-> InsAt(ss, p, GreaseStanza)] : p \in 1..(Len(ss) + 1)}
\cup {[e |-> "insert", p |-> p, q |-> 0, what |-> "forged", key |-> k, perm |-> <<>>, ss |-> InsAt(ss, p, Forged(k))] : p \in 1..(Len(ss) + 1), k \in Keys}
\cup {[e |-> "delete", p |-> p, q |-> 0, what |-> "-", key |-> "-", perm |-> <<>>, ss |-> RemAt(ss, p)] : p \in 1..Len(ss)}
\cup {[e |-> "dup", p |-> p, q |-> q, what |-> "-", key |-> "-", perm |-> <<>>, ss |-> InsAt(ss, p, ss[q])] : p \in 1..(Len(ss) + 1), q \in 1..Len(ss)}
\cup {[e |-> "perm", p |-> 0, q |-> 0, what |-> "-", key |-> "-", perm |-> [j \in 1..Len(ss) |-> f[j]], ss |-> [j \in 1..Len(ss) |-> ss[f[j]]]] : f \in {g \in PermFns(Len(ss)) : \E j \in 1..Len(ss) : g[j] # j}}
MacChoices == {"orig", "random", "attacker"}
MacOf(choice, orig, ss2) == CASE choice = "orig" -> orig
                              [] choice = "random" -> [k |-> "rnd", over |-> <<>>]
                              [] choice = "attacker" -> [k |-> AK, over |-> ss2]

\* ---------------------------------------------------------------- generator
VARIABLES rs, ids, hdr, edit, res
vars == <<rs, ids, hdr, edit, res>>

EncOnly == Mode \in {"labels", "scryptlists"}     \* modes that stop after Encrypt
RecipUniverse ==
  CASE Mode = "labels" -> {Labelled(ls) : ls \in LabelSets} \cup {Failing, KeyRecip(CHOOSE k \in Keys : KType(k) = "X25519")}
                          \cup {NoStanza(Absent), NoStanza(Lbl(<<"a">>)), NoStanza(Lbl(<<"b", "a">>))}
    \* C10's lists: every key recipient together with custom recipients of every shape, those that contribute no stanza included
    [] Mode = "scryptlists" -> {KeyRecip(k) : k \in Keys} \cup {Grease, Failing, Labelled(Absent), Labelled(Lbl(<<>>)), Labelled(Lbl(<<"a">>)),
                                                             NoStanza(Absent), NoStanza(Lbl(<<>>)), NoStanza(Lbl(<<"a">>))}
    [] OTHER -> {KeyRecip(k) : k \in Keys} \cup {Grease}
RecipLists == UNION {[1..n -> RecipUniverse] : n \in 1..MaxRecips}
IdLists == UNION {[1..n -> Keys] : n \in 1..MaxIds}
NoEdit == [e |-> "none", p |-> 0, q |-> 0, what |-> "-", key |-> "-", perm |-> <<>>, mac |-> "orig"]

Init == /\ rs \in RecipLists
        /\ ids \in (IF EncOnly THEN {<<>>} ELSE IdLists)
        /\ hdr = (IF Encrypt(rs).ok THEN HonestHeader(rs) ELSE [stanzas |-> <<>>, mac |-> [k |-> "-", over |-> <<>>]])
        /\ edit = NoEdit /\ res = [c |-> "init", fk |-> "-", tried |-> 0]

Tamper == /\ Mode = "tamper" /\ res.c = "init" /\ Encrypt(rs).ok
          /\ \E ed \in {x \in Edits(hdr.stanzas) : x.ss # hdr.stanzas} : \E m \in MacChoices :
               /\ hdr' = [stanzas |-> ed.ss, mac |-> MacOf(m, hdr.mac, ed.ss)]
               /\ edit' = [e |-> ed.e, p |-> ed.p, q |-> ed.q, what |-> ed.what, key |-> ed.key, perm |-> ed.perm, mac |-> m]
          /\ res' = [c |-> "tampered", fk |-> "-", tried |-> 0] /\ UNCHANGED <<rs, ids>>
DoDecrypt == /\ ~EncOnly /\ Encrypt(rs).ok
             /\ res.c = (IF Mode = "tamper" THEN "tampered" ELSE "init")
             /\ res' = Decrypt(ids, hdr) /\ UNCHANGED <<rs, ids, hdr, edit>>
Next == Tamper \/ DoDecrypt
Spec == Init /\ [][Next]_vars

Done == res.c \notin {"init", "tampered"}
Listed(i) == \E j \in 1..Len(rs) : rs[j].k = "K" /\ rs[j].key = i
AnyListed == \E n \in 1..Len(ids) : Listed(ids[n])
FirstListed == CHOOSE n \in 1..Len(ids) : Listed(ids[n]) /\ \A m \in 1..(n - 1) : ~Listed(ids[m])
Untouched == hdr = HonestHeader(rs)

\* C01: untouched file, some identity listed: a reader under the file's own key; consulted in order, none after the opener.
\*      (a passphrase identity in front of a multi-stanza file containing an scrypt stanza cannot happen: such files do not exist)
EveryRecipientOpens == (Done /\ Untouched /\ AnyListed) => (res.c = "reader" /\ res.fk = FK /\ res.tried = FirstListed)
\* C03: a reader under this file's key only from the unchanged header
HeaderBound == (Done /\ res.c = "reader" /\ res.fk = FK) => Untouched
\* C03: from an edited header a reader is only possible under the attacker's own file key (which cannot open the payload)
NewFileOnly == (Done /\ res.c = "reader" /\ ~Untouched) => res.fk = AK
\* C04: untouched file, no identity listed: no reader; the dedicated error after trying everyone
\*      (hard errors can pre-empt it only for SSH identities meeting a stanza with their own tag - impossible when unlisted)
NoMatchNoReader == (Done /\ Untouched /\ ~AnyListed) => (res.c = "nomatch" /\ res.tried = Len(ids))
\* C10: no file mixes a passphrase stanza with another stanza
ScryptAloneEnc == Encrypt(rs).ok => \A i \in 1..Len(rs) : (rs[i].k = "K" /\ KType(rs[i].key) = "scrypt") => Len(rs) = 1
\* C11: success iff all label sets are equal; nothing written on refusal
LabelRule == /\ (Encrypt(rs).ok <=> (\A i \in 1..Len(rs) : rs[i].k # "F" /\ LabelSet(rs[i], i) = LabelSet(rs[1], 1)))
             /\ (~Encrypt(rs).ok => Encrypt(rs).written = 0)

Emit == (Done \/ EncOnly \/ (~Encrypt(rs).ok /\ res.c = "init")) =>
   PrintT("CASE " \o ToJson([rs |-> rs, ids |-> ids, edit |-> edit,
                              enc |-> [ok |-> Encrypt(rs).ok, why |-> (IF Mode = "labels" /\ Ambiguous(rs) THEN "ambiguous" ELSE Encrypt(rs).why)],
                              res |-> res, untouched |-> Untouched,
                              opener |-> (IF Done /\ AnyListed /\ Untouched THEN FirstListed ELSE 0)]))
=============================================================================
