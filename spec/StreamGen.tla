------------------------------ MODULE StreamGen ------------------------------
(* Attacker payloads for the STREAM reader (C02): every sequence of up to     *)
(* MaxFrames frames over the file's own chunks and their variants (other      *)
(* counter, other final flag, short, empty, foreign key, garbage of several   *)
(* sizes), every truncation of the last frame, trailing units.  A sequence is *)
(* extended only while every frame so far opens as a non-final chunk (any     *)
(* other frame ends the reader's progress, so what follows it is irrelevant), *)
(* and by one more frame after a frame that opens as final (trailing data).   *)
(* TLC checks the C02 theorems of the big-step reader on each and emits the   *)
(* file with the specified outcome for replay against the real reader.        *)
EXTENDS Stream, TLC, Json

CONSTANTS MaxFrames, Lens, MaxCtr

VARIABLES fs, st, cut     \* frames so far; "alive" | "final" | "stop"; units cut off the end
vars == <<fs, st, cut>>

Alphabet == {Sealed(key, c, fin, len) : key \in {"K", "X"}, c \in 0..MaxCtr, fin \in BOOLEAN, len \in Lens}
            \cup {Garbage(n) : n \in {1, T, T + 1, E - 1, E, E + 1}}

OpensNonFinal(x, i) == x.k = "S" /\ x.key = "K" /\ x.ctr = i /\ ~x.fin /\ x.len = C
OpensFinal(x, i) == x.k = "S" /\ x.key = "K" /\ x.ctr = i /\ x.fin /\ (x.len > 0 \/ i = 0)

Init == fs = <<>> /\ st = "alive" /\ cut = 0
Extend == /\ st \in {"alive", "final"} /\ Len(fs) < MaxFrames
          /\ \E x \in Alphabet :
               /\ fs' = Append(fs, x)
               /\ st' = IF st = "final" THEN "stop"
                        ELSE IF OpensNonFinal(x, Len(fs)) THEN "alive"
                        ELSE IF OpensFinal(x, Len(fs)) THEN "final"
                        ELSE "stop"
          /\ UNCHANGED cut
\* truncate the (so far untruncated) file inside its last frame
Cut == /\ Len(fs) > 0 /\ cut = 0 /\ st # "cut"
       /\ \E n \in 1..(fs[Len(fs)].size) : cut' = n
       /\ st' = "cut" /\ UNCHANGED fs
Next == Extend \/ Cut
Spec == Init /\ [][Next]_vars

Avail == TotalSize(fs) - cut
\* number of frames the reader releases
RECURSIVE Opened(_, _, _, _)
Opened(file, avail, pos, c) ==
  LET n == Mn(E, avail - pos)
      short == n < E
      okNF == ~short /\ OpensAt(file, avail, pos, n, c, FALSE)
      okF == n > 0 /\ OpensAt(file, avail, pos, n, c, TRUE)
  IN IF n = 0 \/ (short /\ c # 0 /\ n = T) \/ ~(okNF \/ okF) THEN 0
     ELSE IF okNF THEN 1 + Opened(file, avail, pos + n, c + 1) ELSE 1

Emit == LET o == ReadAll(fs, Avail) IN
        /\ CleanOnlyIfHonest(fs, Avail)
        /\ PrefixOnly(fs, Avail)
        /\ PrintT("CASE " \o ToJson([file |-> fs, avail |-> Avail, cut |-> cut, class |-> o.class, released |-> o.released,
                                     opened |-> Opened(fs, Avail, 0, 0), honest |-> IsHonest(fs, Avail)]))
\* every honest file in the bound is accepted completely
HonestAccepted == \A L \in 0..(C * MaxFrames) : HonestIsClean(L) /\ HonestSeqIsHonest(L)
=============================================================================
