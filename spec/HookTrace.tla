------------------------------ MODULE HookTrace ------------------------------
(* Trace validation of the repository's OWN test suite.  Built with the verif  *)
(* tag and run with VERIF_TRACE set, every STREAM chunk sealed (stream.flush)  *)
(* or opened (stream.chunk) and every scrypt key derivation (scrypt.derive)    *)
(* anywhere in `go test ./...` is logged with process and goroutine id.  The   *)
(* tests already reach these paths (114 CCTV vectors, round trips, CLI         *)
(* scripts); this module adds the per-step assertions their own checks lack:   *)
(*   - per stream (process, goroutine, direction) chunk counters run 0,1,2,..  *)
(*     (a counter 0 starts a new stream), the final flag ends the stream,      *)
(*     non-final chunks are full, an empty chunk is final and first (C06, C02) *)
(*   - no key derivation above the default maximum work factor (C10)           *)
EXTENDS Integers, Sequences, TLC, Json, IOUtils

CONSTANTS C, MaxLogN
Trace == ndJsonDeserialize(IOEnv.TRACE)

VARIABLES l, next      \* next: stream key -> expected counter (absent: nothing sealed/opened yet or last one was final)
vars == <<l, next>>
Ev == Trace[l]
Key(e) == <<e.pid, e.g, e.ev>>
Has(k) == k \in DOMAIN next
Upd(k, v) == [x \in (DOMAIN next) \cup {k} |-> IF x = k THEN v ELSE next[x]]
Del(k) == [x \in (DOMAIN next) \ {k} |-> next[x]]

Init == l = 1 /\ next = [x \in {} |-> 0]
FrameOK(e) == /\ e.fin \in {0, 1} /\ e.len >= 0 /\ e.len <= C
              /\ (e.fin = 0 => e.len = C)                    \* non-final chunks are full
              /\ (e.len = 0 => (e.ctr = 0 /\ e.fin = 1))      \* an empty chunk only as the only chunk
              /\ (e.ctr = 0 \/ (Has(Key(e)) /\ next[Key(e)] = e.ctr))   \* counters run 0,1,2,... within a stream
Frame == /\ l <= Len(Trace) /\ Ev.ev \in {"stream.flush", "stream.chunk"}
         /\ FrameOK(Ev)
         /\ next' = IF Ev.fin = 1 THEN (IF Has(Key(Ev)) THEN Del(Key(Ev)) ELSE next) ELSE Upd(Key(Ev), Ev.ctr + 1)
         /\ l' = l + 1
Derive == /\ l <= Len(Trace) /\ Ev.ev = "scrypt.derive"
          /\ Ev.logN >= 1 /\ Ev.logN <= MaxLogN
          /\ l' = l + 1 /\ UNCHANGED next
Next == Frame \/ Derive
Spec == Init /\ [][Next]_vars

HighWater == TLCSet(1, IF l > TLCGet(1) THEN l ELSE TLCGet(1))
Accepted == IF TLCGet(1) = Len(Trace) + 1 THEN PrintT("ACCEPTED " \o ToString(Len(Trace)))
            ELSE PrintT("REJECTED " \o ToString(TLCGet(1)))
ASSUME TLCSet(1, 0)
=============================================================================
