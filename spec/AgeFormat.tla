------------------------------ MODULE AgeFormat ------------------------------
(* The age v1 file as a term.  Cryptographic primitives are uninterpreted     *)
(* constructors (Hkdf, Hmac, Aead, X25519, Scrypt, Sha256 ...); everything    *)
(* that makes the format - labels, salt order, nonce layout, argument order,  *)
(* base64 flavour, line structure, chunk size, counter width, final flag -    *)
(* is written here and nowhere else.  TLC prints the term for a recipient     *)
(* list as JSON; a small generic evaluator (harness/internal/eval) that knows *)
(* only the primitives turns it into bytes.  That evaluator is the            *)
(* "independent implementation of the specification" of C05, the source of    *)
(* the expected draws of C06, and it forges the stanzas and headers of        *)
(* C03/C04/C10.                                                               *)
EXTENDS Integers, Sequences, TLC, Json, SequencesExt

Str(s) == [op |-> "str", s |-> s]
Cat(parts) == [op |-> "cat", parts |-> parts]
Atom(n) == [op |-> "atom", name |-> n]
Zero(n) == [op |-> "zero", n |-> n]
Dec(n) == [op |-> "dec", n |-> n]
B64(x) == [op |-> "b64raw", x |-> x]                 \* unpadded standard base64
Wrap64(x) == [op |-> "wrap64", x |-> x]              \* text wrapped at 64 columns, ending on a short (possibly empty) line
Hkdf(ikm, salt, info, n) == [op |-> "hkdf", ikm |-> ikm, salt |-> salt, info |-> info, n |-> n]     \* HKDF-SHA-256
Hmac(k, m) == [op |-> "hmac", k |-> k, m |-> m]                                                     \* HMAC-SHA-256
Aead(k, nonce, pt) == [op |-> "aead", k |-> k, nonce |-> nonce, pt |-> pt]                           \* ChaCha20-Poly1305, no AD
X25519(s, p) == [op |-> "x25519", s |-> s, p |-> p]
Basepoint == [op |-> "basepoint"]
Scrypt(pw, salt, logN) == [op |-> "scrypt", pw |-> pw, salt |-> salt, logN |-> logN, r |-> 8, p |-> 1, n |-> 32]
Sha256(x) == [op |-> "sha256", x |-> x]
Take(x, n) == [op |-> "take", x |-> x, n |-> n]
Ed2Mont(x) == [op |-> "ed2mont", x |-> x]            \* birational map of an Ed25519 public key to Curve25519
Oaep(pub, seed, label, msg) == [op |-> "oaep", pub |-> pub, seed |-> seed, label |-> label, msg |-> msg]   \* RSAES-OAEP-SHA-256
\* STREAM: 64 KiB chunks, nonce = 11-byte big-endian counter || flag byte (1 on the last chunk), empty last chunk only if alone
Stream(k, pt) == [op |-> "stream", k |-> k, pt |-> pt, chunk |-> 65536, ctrBytes |-> 11, finalFlag |-> 1]
Armor(x) == [op |-> "armor", x |-> x, begin |-> "-----BEGIN AGE ENCRYPTED FILE-----", end |-> "-----END AGE ENCRYPTED FILE-----", cols |-> 64]

\* ---------------------------------------------------------------- recipient stanzas
\* eph/salt/seed: this stanza's own CSPRNG draw; fk: the file key
X25519Stanza(eph, pub, fk) ==
  LET share == X25519(eph, Basepoint)
      wk == Hkdf(X25519(eph, pub), Cat(<<share, pub>>), Str("age-encryption.org/v1/X25519"), 32)
  IN [type |-> "X25519", args |-> <<B64(share)>>, body |-> Aead(wk, Zero(12), fk)]

ScryptStanza(salt, pw, logN, fk) ==
  [type |-> "scrypt", args |-> <<B64(salt), Dec(logN)>>,
   body |-> Aead(Scrypt(pw, Cat(<<Str("age-encryption.org/v1/scrypt"), salt>>), logN), Zero(12), fk)]

SshTag(wire) == B64(Take(Sha256(wire), 4))
\* wire: the SSH wire encoding of the public key; edpub: the 32-byte Ed25519 public key
SshEd25519Stanza(eph, wire, edpub, fk) ==
  LET label == Str("age-encryption.org/v1/ssh-ed25519")
      pub == Ed2Mont(edpub)
      share == X25519(eph, Basepoint)
      tweak == Hkdf(Zero(0), wire, label, 32)
      secret == X25519(tweak, X25519(eph, pub))
      wk == Hkdf(secret, Cat(<<share, pub>>), label, 32)
  IN [type |-> "ssh-ed25519", args |-> <<SshTag(wire), B64(share)>>, body |-> Aead(wk, Zero(12), fk)]

SshRsaStanza(seed, wire, rsapub, fk) ==
  [type |-> "ssh-rsa", args |-> <<SshTag(wire)>>,
   body |-> Oaep(rsapub, seed, Str("age-encryption.org/v1/ssh-rsa"), fk)]

\* ---------------------------------------------------------------- the file
RECURSIVE ArgBytes(_)
ArgBytes(a) == IF Len(a) = 0 THEN <<>> ELSE <<Str(" "), a[1]>> \o ArgBytes(Tail(a))
StanzaBytes(st) == Cat(<<Str("-> "), Str(st.type)>> \o ArgBytes(st.args) \o <<Str("\n"), Wrap64(B64(st.body)), Str("\n")>>)
HeaderNoMac(sts) == Cat(<<Str("age-encryption.org/v1\n")>> \o [i \in 1..Len(sts) |-> StanzaBytes(sts[i])] \o <<Str("---")>>)
MacKey(fk) == Hkdf(fk, Zero(0), Str("header"), 32)
Header(fk, sts) == Cat(<<HeaderNoMac(sts), Str(" "), B64(Hmac(MacKey(fk), HeaderNoMac(sts))), Str("\n")>>)
PayloadKey(fk, nonce) == Hkdf(fk, nonce, Str("payload"), 32)
File(fk, sts, nonce, pt) == Cat(<<Header(fk, sts), nonce, Stream(PayloadKey(fk, nonce), pt)>>)

\* ---------------------------------------------------------------- draw plan of Encrypt(recipients)
\* A recipient is [k, id]: k in "X" (native), "E" (ssh-ed25519), "R" (ssh-rsa), "S" (scrypt, with work factor wf)
DrawRoles(r) == CASE r.k = "X" -> <<"eph">> [] r.k = "E" -> <<"eph">> [] r.k = "R" -> <<"oaepseed">>
                  [] r.k = "S" -> <<"salt", "label">>        \* the label draw is not part of the file
DrawSize(role) == CASE role = "filekey" -> 16 [] role = "nonce" -> 16 [] role = "eph" -> 32
                    [] role = "oaepseed" -> 32 [] role = "salt" -> 16 [] role = "label" -> 16 [] role = "word" -> 2
RECURSIVE PlanFrom(_, _)
PlanFrom(rs, i) == IF i > Len(rs) THEN <<>> ELSE [j \in 1..Len(DrawRoles(rs[i])) |-> [role |-> DrawRoles(rs[i])[j], rcp |-> i]] \o PlanFrom(rs, i + 1)
\* the sequence of CSPRNG draws of one Encrypt call: file key, per recipient draws in order, payload nonce
DrawPlan(rs) == <<[role |-> "filekey", rcp |-> 0]>> \o PlanFrom(rs, 1) \o <<[role |-> "nonce", rcp |-> 0]>>
\* age -p answered with an empty line: the command makes up the passphrase itself, ten words of the 2048-word list, each
\* from a draw of its own (two bytes, big-endian, modulo 2048), before Encrypt draws for the passphrase recipient
CliWords == 10
CliAutoRecipient == [k |-> "S", id |-> "auto", wf |-> 18]
CliPassphrasePlan == [i \in 1..CliWords |-> [role |-> "word", rcp |-> 0 - i]] \o DrawPlan(<<CliAutoRecipient>>)
DrawIndex(rs, i, role) == CHOOSE n \in 1..Len(DrawPlan(rs)) : DrawPlan(rs)[n].rcp = i /\ DrawPlan(rs)[n].role = role
D(n) == Atom("draw" \o ToString(n))

StanzaOf(rs, i, fk) ==
  LET r == rs[i] IN
  CASE r.k = "X" -> X25519Stanza(D(DrawIndex(rs, i, "eph")), Atom("pub:" \o r.id), fk)
    [] r.k = "S" -> ScryptStanza(D(DrawIndex(rs, i, "salt")), Atom("pw:" \o r.id), r.wf, fk)
    [] r.k = "E" -> SshEd25519Stanza(D(DrawIndex(rs, i, "eph")), Atom("wire:" \o r.id), Atom("edpub:" \o r.id), fk)
    [] r.k = "R" -> SshRsaStanza(D(DrawIndex(rs, i, "oaepseed")), Atom("wire:" \o r.id), Atom("rsapub:" \o r.id), fk)
FileOf(rs) == LET fk == D(1) IN
              File(fk, [i \in 1..Len(rs) |-> StanzaOf(rs, i, fk)], D(Len(DrawPlan(rs))), Atom("plaintext"))
\* ---------------------------------------------------------------- the reading side, as terms over the file's own bytes
AeadOpen(k, nonce, ct) == [op |-> "aeadopen", k |-> k, nonce |-> nonce, ct |-> ct]
StreamOpen(k, ct) == [op |-> "streamopen", k |-> k, ct |-> ct, chunk |-> 65536, ctrBytes |-> 11, finalFlag |-> 1, tag |-> 16]
OaepOpen(priv, label, ct) == [op |-> "oaepopen", priv |-> priv, label |-> label, ct |-> ct]
\* file key from a stanza (atoms: "sec" own secret, "arg1"/"arg2" decoded arguments, "body")
X25519FileKey == LET share == Atom("arg1") sec == Atom("sec") IN
   AeadOpen(Hkdf(X25519(sec, share), Cat(<<share, X25519(sec, Basepoint)>>), Str("age-encryption.org/v1/X25519"), 32), Zero(12), Atom("body"))
ScryptFileKey == AeadOpen(Scrypt(Atom("pw"), Cat(<<Str("age-encryption.org/v1/scrypt"), Atom("arg1")>>), Atom("logN")), Zero(12), Atom("body"))
SshEd25519FileKey == LET label == Str("age-encryption.org/v1/ssh-ed25519") share == Atom("arg2") sec == Atom("sec") wire == Atom("wire")
                         tweak == Hkdf(Zero(0), wire, label, 32)
                         secret == X25519(tweak, X25519(sec, share)) IN
   AeadOpen(Hkdf(secret, Cat(<<share, X25519(sec, Basepoint)>>), label, 32), Zero(12), Atom("body"))
SshRsaFileKey == OaepOpen(Atom("rsapriv"), Str("age-encryption.org/v1/ssh-rsa"), Atom("body"))
SshTagOf == SshTag(Atom("wire"))
\* header MAC and payload from the file key (atoms: "fk", "hdrnomac" = header bytes up to and including "---", "nonce", "payload")
ExpectedMac == Hmac(MacKey(Atom("fk")), Atom("hdrnomac"))
Plaintext == StreamOpen(PayloadKey(Atom("fk"), Atom("nonce")), Atom("payload"))
ReadingTerms == [x25519 |-> X25519FileKey, scrypt |-> ScryptFileKey, sshed25519 |-> SshEd25519FileKey, sshrsa |-> SshRsaFileKey,
                 sshtag |-> SshTagOf, mac |-> ExpectedMac, plaintext |-> Plaintext]

\* a single stanza with free atoms, for forging headers
ForgedStanza(r) == StanzaOf(<<r>>, 1, Atom("fk"))
=============================================================================
