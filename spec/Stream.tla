------------------------------- MODULE Stream -------------------------------
(* The STREAM payload of age: chunks of C plaintext bytes, each sealed with   *)
(* a T-byte tag under a nonce made of a chunk counter and a final-chunk flag. *)
(*                                                                            *)
(* This module holds what writer, reader, generators and trace validation     *)
(* share.  Lengths are in abstract "units"; with C = 65536, T = 16 a unit is  *)
(* a byte, and every operator below is arithmetic (nothing enumerates 0..C),  *)
(* so the same definitions serve model checking with C = 2..4 and trace       *)
(* validation of the real package with the real constants.                    *)
(*                                                                            *)
(* A file (what follows the 16-byte nonce) is a sequence of frames:           *)
(*   [k |-> "S", key, ctr, fin, len]   len plaintext units sealed under key,  *)
(*                                      counter ctr and final flag fin        *)
(*   [k |-> "G", size]                 size units of anything else            *)
(* AEAD is perfect: a block of n units opens under (key K, ctr, fin) iff it   *)
(* is exactly one sealed frame with that key, counter and flag.               *)
EXTENDS Integers, Sequences, SequencesExt, FiniteSets

CONSTANTS C, T
E == C + T                              \* size of a full sealed chunk
Mn(a, b) == IF a < b THEN a ELSE b

Sealed(key, ctr, fin, len) == [k |-> "S", key |-> key, ctr |-> ctr, fin |-> fin, len |-> len, size |-> len + T]
Garbage(size) == [k |-> "G", key |-> "-", ctr |-> 0, fin |-> FALSE, len |-> 0, size |-> size]
Size(f) == f.size
TotalSize(file) == FoldLeft(LAMBDA a, f : a + f.size, 0, file)
StartOf(file, i) == FoldLeft(LAMBDA a, f : a + f.size, 0, SubSeq(file, 1, i - 1))

\* ---------------------------------------------------------------- honest writer, declaratively
NChunks(L) == IF L = 0 THEN 1 ELSE (L + C - 1) \div C
ChunkLen(L, i) == IF i < NChunks(L) - 1 THEN C ELSE L - C * (NChunks(L) - 1)        \* i from 0
Honest(L) == [j \in 1..NChunks(L) |-> Sealed("K", j - 1, j = NChunks(L), ChunkLen(L, j - 1))]

\* ---------------------------------------------------------------- reader, big step
\* does the block of n units at offset pos open under (ctr c, flag fin)?  (avail = units before EOF)
OpensAt(file, avail, pos, n, c, fin) ==
  \E i \in 1..Len(file) : /\ file[i].k = "S" /\ file[i].key = "K" /\ file[i].ctr = c /\ file[i].fin = fin
                          /\ StartOf(file, i) = pos /\ file[i].size = n /\ pos + n <= avail

\* outcome of reading the file to the end: [class, released]   class \in {"eof", "fail"}
\* ProbeSeesData: the EOF probe after the final chunk reports trailing data whenever a unit is left.
RECURSIVE Outcome(_, _, _, _, _)
Outcome(file, avail, pos, c, rel) ==
  LET n == Mn(E, avail - pos)
      short == n < E
      emptyLast == short /\ c # 0 /\ n = T
      okNF == ~short /\ OpensAt(file, avail, pos, n, c, FALSE)
      okF == n > 0 /\ OpensAt(file, avail, pos, n, c, TRUE)
  IN IF n = 0 \/ emptyLast \/ ~(okNF \/ okF) THEN [class |-> "fail", released |-> rel]
     ELSE IF okNF THEN Outcome(file, avail, pos + n, c + 1, rel + n - T)
     ELSE IF avail > pos + n THEN [class |-> "fail", released |-> rel + n - T]     \* trailing data
     ELSE [class |-> "eof", released |-> rel + n - T]
ReadAll(file, avail) == Outcome(file, avail, 0, 0, 0)

\* plaintext units of the longest prefix of whole authentic frames, in their proper order
RECURSIVE GoodPrefix(_, _, _)
GoodPrefix(file, avail, i) ==
  IF i <= Len(file) /\ file[i].k = "S" /\ file[i].key = "K" /\ file[i].ctr = i - 1
     /\ StartOf(file, i) + file[i].size <= avail
     /\ (file[i].fin \/ file[i].len = C)
  THEN file[i].len + (IF file[i].fin THEN 0 ELSE GoodPrefix(file, avail, i + 1))
  ELSE 0
GoodPlain(file, avail) == GoodPrefix(file, avail, 1)

\* Is (file, avail) exactly the untouched encryption of some plaintext?
\* (what lies beyond avail is never seen by the reader, so only the visible frames count)
IsHonestSeq(fr) == LET m == Len(fr) IN
   /\ \A i \in 1..m : fr[i].k = "S" /\ fr[i].key = "K" /\ fr[i].ctr = i - 1 /\ fr[i].fin = (i = m)
   /\ \A i \in 1..(m - 1) : fr[i].len = C
   /\ fr[m].len >= 0 /\ fr[m].len <= C /\ (fr[m].len > 0 \/ m = 1)
IsHonest(file, avail) == \E m \in 1..Len(file) :
                            /\ TotalSize(SubSeq(file, 1, m)) = avail
                            /\ IsHonestSeq(SubSeq(file, 1, m))
\* the arithmetic form above is the honest chunking (checked by TLC for every L in StreamGen)
HonestSeqIsHonest(L) == IsHonestSeq(Honest(L))

\* C02 as theorems of the big-step reader (checked by TLC over the frame alphabet in StreamGen):
CleanOnlyIfHonest(file, avail) == (ReadAll(file, avail).class = "eof") => IsHonest(file, avail)
PrefixOnly(file, avail) == ReadAll(file, avail).released <= GoodPlain(file, avail)
HonestIsClean(L) == ReadAll(Honest(L), TotalSize(Honest(L))) = [class |-> "eof", released |-> L]

\* ---------------------------------------------------------------- reader, one Read call (for traces)
\* state: [pos, ctr, err, unread, released]; err \in {"none", "eof", "fail"}
RInit == [pos |-> 0, ctr |-> 0, err |-> "none", unread |-> 0, released |-> 0]
\* result of Read(p): [st, ret, err, src]  (src = units taken from the source during the call)
RRead(file, avail, s, p) ==
  IF s.unread > 0
  THEN LET r == Mn(p, s.unread) IN
       [st |-> [s EXCEPT !.unread = @ - r, !.released = @ + r], ret |-> r, err |-> "", src |-> 0]
  ELSE IF s.err # "none" THEN [st |-> s, ret |-> 0, err |-> s.err, src |-> 0]
  ELSE IF p = 0 THEN [st |-> s, ret |-> 0, err |-> "", src |-> 0]
  ELSE LET n == Mn(E, avail - s.pos)
           short == n < E
           emptyLast == short /\ s.ctr # 0 /\ n = T
           okNF == ~short /\ OpensAt(file, avail, s.pos, n, s.ctr, FALSE)
           okF == n > 0 /\ OpensAt(file, avail, s.pos, n, s.ctr, TRUE)
       IN IF n = 0 \/ emptyLast \/ ~(okNF \/ okF)
          THEN [st |-> [s EXCEPT !.err = "fail", !.pos = @ + n], ret |-> 0, err |-> "fail", src |-> n]
          ELSE LET pl == n - T
                   last == ~okNF
                   trailing == last /\ avail > s.pos + n
                   r == Mn(p, pl)
               IN [st |-> [pos |-> s.pos + n + (IF trailing THEN 1 ELSE 0), ctr |-> s.ctr + 1,
                           err |-> (IF ~last THEN "none" ELSE IF trailing THEN "fail" ELSE "eof"),
                           unread |-> pl - r, released |-> s.released + r],
                   ret |-> r, err |-> "", src |-> n + (IF trailing THEN 1 ELSE 0)]

\* ---------------------------------------------------------------- writer, one call (for traces and MC)
\* state: [buf, ctr, err, acc, frames]; err \in {"none", "closed", "io"}
\* frames: what was handed to dst, in order: [ctr, fin, len, okay]  (okay = dst accepted it)
WInit == [buf |-> 0, ctr |-> 0, err |-> "none", acc |-> 0, frames |-> <<>>]
\* number of full chunks flushed by Write(n) with b units buffered: a full buffer is flushed only when more data arrives
Flushes(b, n) == IF n = 0 THEN 0 ELSE (b + n - 1) \div C
\* Write(n) where the failAt-th flush of this call fails (0: none does): [st, ret, err]
WWrite(s, n, failAt) ==
  IF s.err # "none" THEN [st |-> s, ret |-> 0, err |-> "fail"]
  ELSE LET k == Flushes(s.buf, n)
           kk == IF failAt > 0 /\ failAt <= k THEN failAt ELSE k          \* flushes attempted
           failed == failAt > 0 /\ failAt <= k
           newFrames == [i \in 1..kk |-> [ctr |-> s.ctr + i - 1, fin |-> FALSE, len |-> C, okay |-> ~(failed /\ i = kk)]]
       IN IF failed
          THEN [st |-> [buf |-> 0, ctr |-> s.ctr + kk, err |-> "io", acc |-> s.acc, frames |-> s.frames \o newFrames],
                ret |-> 0, err |-> "fail"]
          ELSE [st |-> [buf |-> s.buf + n - k * C, ctr |-> s.ctr + k, err |-> "none", acc |-> s.acc + n,
                        frames |-> s.frames \o newFrames],
                ret |-> n, err |-> ""]
WClose(s, fails) ==
  IF s.err # "none" THEN [st |-> s, err |-> "fail"]
  ELSE LET fr == [ctr |-> s.ctr, fin |-> TRUE, len |-> s.buf, okay |-> ~fails]
       IN [st |-> [buf |-> 0, ctr |-> s.ctr + 1, err |-> (IF fails THEN "io" ELSE "closed"), acc |-> s.acc,
                   frames |-> Append(s.frames, fr)],
           err |-> (IF fails THEN "fail" ELSE "")]

Plain(frames) == FoldLeft(LAMBDA a, f : a + f.len, 0, frames)
\* C12: encryption holds back at most one chunk
Holdback(s) == s.buf >= 0 /\ s.buf <= C /\ (s.err = "none" => s.acc - Plain(s.frames) = s.buf)
\* C06/C02: counters 0,1,2,...; non-final frames full; the flag on the last frame only, and only by Close;
\* an empty final frame only as frame 0
FrameShape(s) == \A i \in 1..Len(s.frames) :
                    /\ s.frames[i].ctr = i - 1
                    /\ (s.frames[i].fin => (i = Len(s.frames) /\ s.err \in {"closed", "io"}))
                    /\ (~s.frames[i].fin => s.frames[i].len = C)
                    /\ (s.frames[i].len = 0 => i = 1)
\* C13: if nothing failed and the writer is closed, dst holds exactly the honest file of what was accepted
AsFile(frames) == [i \in 1..Len(frames) |-> Sealed("K", frames[i].ctr, frames[i].fin, frames[i].len)]
SuccessMeansComplete(s) == (s.err = "closed") => /\ \A i \in 1..Len(s.frames) : s.frames[i].okay
                                                  /\ AsFile(s.frames) = Honest(s.acc)
=============================================================================
