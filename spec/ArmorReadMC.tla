----------------------------- MODULE ArmorReadMC -----------------------------
(* Bounded instances of ArmorRead.  The text generator is an automaton over    *)
(* the canonical shape                                                         *)
(*   whitespace lines, BEGIN, full lines, an optional short line, END,         *)
(*   whitespace lines                                                          *)
(* that may deviate Budget times: insert any line of the alphabet, replace     *)
(* the expected line by any line, or skip the expected line; the text may      *)
(* stop anywhere (truncation), with or without a final line terminator.        *)
(* Level 0 instead generates every sequence over a small alphabet.             *)
EXTENDS ArmorRead

CONSTANTS Level, Budget, MaxLines, MaxRep

L(k, kind, w, t, n) == [k |-> k, kind |-> kind, w |-> w, t |-> t, n |-> n]
Ws(w, t) == L("ws", "", w, t, 0)
Data(n, t) == L("data", "", 4 * ((n + 2) \div 3), t, n)
Begin(t) == L("begin", "", 34, t, 0)
End(t) == L("end", "", 32, t, 0)
Bad(kind, w) == L("bad", kind, w, "lf", 0)

BadLines == IF Level >= 2 THEN {Bad("garbage", 5), Bad("long", 65), Bad("noncanon", 4), Bad("nopad", 2), Bad("kv", 6), Bad("crin", 5),
                                Bad("spend", 33), Bad("spbegin", 35), Bad("lower", 34), Bad("pgpcrc", 5)}
            ELSE {Bad("garbage", 5), Bad("long", 65), Bad("noncanon", 4), Bad("crin", 5)}
\* leading: 1023+1 bytes is the most that is skipped; trailing: 1022+1 bytes is the most that is tolerated
WsLines == {Ws(0, "lf"), Ws(3, "crlf"), Ws(1023, "lf"), Ws(1024, "lf")} \cup (IF Level >= 2 THEN {Ws(0, "crlf"), Ws(1020, "lf"), Ws(1022, "lf")} ELSE {})
FullLines == {Data(48, "lf")} \cup (IF Level >= 2 THEN {Data(48, "crlf")} ELSE {})
ShortLines == {Data(20, "lf")} \cup (IF Level >= 2 THEN {Data(1, "lf"), Data(47, "lf"), Data(46, "crlf")} ELSE {})
BeginLines == {Begin("lf")} \cup (IF Level >= 2 THEN {Begin("crlf")} ELSE {})
EndLines == {End("lf"), End("crlf")}
Alphabet == WsLines \cup FullLines \cup ShortLines \cup BeginLines \cup EndLines \cup BadLines
Enders == {End("none"), Data(5, "none"), Data(48, "none"), Ws(2, "none"), Ws(1022, "none"), Ws(1023, "none"), Begin("none")}
SmallAlphabet == {Ws(0, "lf"), Begin("lf"), End("lf"), Data(48, "lf"), Data(2, "lf"), Bad("garbage", 5), End("none")}

\* generator state: [ph, b, c]  phase, remaining budget, lines of the current phase's repeated class
G0 == [ph |-> (IF Level = 0 THEN "free" ELSE "pre"), b |-> Budget, c |-> 0]
Expected(ph) == CASE ph = "pre" -> WsLines \cup BeginLines
                  [] ph = "body" -> FullLines \cup ShortLines \cup EndLines
                  [] ph = "short" -> EndLines
                  [] ph = "post" -> WsLines
After(ph, x) == CASE ph = "pre" -> IF x.k = "ws" THEN "pre" ELSE "body"
                  [] ph = "body" -> IF x.k = "end" THEN "post" ELSE IF x.n = 48 THEN "body" ELSE "short"
                  [] ph = "short" -> "post"
                  [] ph = "post" -> "post"
\* the phases one can be in after the expected line was skipped or replaced
Skip(ph) == CASE ph = "pre" -> {"body"} [] ph = "body" -> {"short", "post"} [] ph = "short" -> {"post"} [] ph = "post" -> {}
Nx(tx, g, x, ph, b) == [text |-> Append(tx, x), gen |-> [ph |-> ph, b |-> b, c |-> IF ph = g.ph THEN g.c + 1 ELSE 0]]
Ended(tx) == Len(tx) > 0 /\ tx[Len(tx)].t = "none"
TN(tx, g) ==
  IF Len(tx) >= MaxLines \/ Ended(tx) THEN {}
  ELSE IF g.ph = "free" THEN {Nx(tx, g, x, "free", g.b) : x \in SmallAlphabet}
  ELSE {Nx(tx, g, x, After(g.ph, x), g.b) : x \in {y \in Expected(g.ph) : After(g.ph, y) # g.ph \/ g.c < MaxRep}}
       \cup (IF g.b > 0 THEN {Nx(tx, g, x, g.ph, g.b - 1) : x \in Alphabet}                                  \* insert
                              \cup UNION {{Nx(tx, g, x, ph, g.b - 1) : x \in Alphabet} : ph \in Skip(g.ph)}   \* replace
                              \cup UNION {{Nx(tx, g, x, After(ph, x), g.b - 1) : x \in Expected(ph)} : ph \in Skip(g.ph)}   \* skip
             ELSE {})
       \cup {Nx(tx, g, x, "post", g.b) : x \in Enders}
NeverEof == err # "eof"
==============================================================================
