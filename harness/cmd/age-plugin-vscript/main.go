// age-plugin-vscript is a scripted age plugin for the C16 conformance check. The script to play is named by
// the payload of the recipient/identity string it is addressed with: <dir of this binary>/scripts/<id>.json
// holds a list of raw chunks to send; after each chunk that expects an answer it reads one stanza from the
// client. Everything it sees and does is appended to <id>.out, one JSON line per event, before the next step.
package main

import (
	"bufio"
	"encoding/json"
	"fmt"
	"os"
	"os/signal"
	"path/filepath"
	"strings"

	"filippo.io/age/internal/bech32"
	"filippo.io/age/internal/format"
)

type step struct {
	Send    string `json:"send"`    // raw bytes to write to stdout
	Expect  bool   `json:"expect"`  // read one reply stanza afterwards
	Replies int    `json:"replies"` // read this many reply stanzas afterwards (a plugin that does not wait for each reply)
}

type event struct {
	Ev   string   `json:"ev"`
	Type string   `json:"type,omitempty"`
	Args []string `json:"args,omitempty"`
	Body []byte   `json:"body,omitempty"`
	Note string   `json:"note,omitempty"`
}

func main() {
	// the client interrupts the plugin on every Close; the tail of the transcript must survive that
	signal.Ignore(os.Interrupt)
	exe, _ := os.Executable()
	dir := filepath.Join(filepath.Dir(exe), "scripts")
	in := format.NewStanzaReader(bufio.NewReader(os.Stdin))
	var pending []event
	var out *os.File
	logEv := func(e event) {
		if out == nil {
			pending = append(pending, e)
			return
		}
		b, _ := json.Marshal(e)
		out.Write(append(b, '\n'))
	}
	mode := ""
	for _, a := range os.Args[1:] {
		if strings.HasPrefix(a, "--age-plugin=") {
			mode = strings.TrimPrefix(a, "--age-plugin=")
		}
	}
	logEv(event{Ev: "start", Note: mode})
	id := ""
	// phase 1: read until "done"
	for {
		s, err := in.ReadStanza()
		if err != nil {
			logEv(event{Ev: "phase1-error", Note: err.Error()})
			break
		}
		logEv(event{Ev: "phase1", Type: s.Type, Args: s.Args, Body: s.Body})
		if (s.Type == "add-recipient" || s.Type == "add-identity") && len(s.Args) == 1 && id == "" {
			if _, data, err := bech32.Decode(s.Args[0]); err == nil {
				id = string(data)
			}
		}
		if s.Type == "done" {
			break
		}
	}
	if id == "" || strings.ContainsAny(id, "/.") {
		fmt.Fprintln(os.Stderr, "vscript: no script id")
		os.Exit(3)
	}
	var err error
	out, err = os.OpenFile(filepath.Join(dir, id+".out"), os.O_APPEND|os.O_CREATE|os.O_WRONLY, 0o644)
	if err != nil {
		os.Exit(4)
	}
	for _, e := range pending {
		b, _ := json.Marshal(e)
		out.Write(append(b, '\n'))
	}
	raw, err := os.ReadFile(filepath.Join(dir, id+".json"))
	if err != nil {
		logEv(event{Ev: "no-script"})
		os.Exit(5)
	}
	var steps []step
	json.Unmarshal(raw, &steps)
	for _, st := range steps {
		if _, err := os.Stdout.WriteString(st.Send); err != nil {
			logEv(event{Ev: "write-error", Note: err.Error()})
			break
		}
		logEv(event{Ev: "sent", Note: st.Send})
		n := st.Replies
		if st.Expect {
			n = 1
		}
		failed := false
		for k := 0; k < n; k++ {
			s, err := in.ReadStanza()
			if err != nil {
				logEv(event{Ev: "reply-error", Note: err.Error()})
				failed = true
				break
			}
			logEv(event{Ev: "reply", Type: s.Type, Args: s.Args, Body: s.Body})
		}
		if failed {
			break
		}
	}
	logEv(event{Ev: "end"})
	out.Close()
}
