// vcheck runs one property check: vcheck <ID> <quick|thorough>.
package main

import (
	"fmt"
	"os"

	"filippo.io/age/xverif/props/c01"
	"filippo.io/age/xverif/props/c02"
	"filippo.io/age/xverif/props/c03"
	"filippo.io/age/xverif/props/c05"
	"filippo.io/age/xverif/props/c07"
	"filippo.io/age/xverif/props/c08"
	"filippo.io/age/xverif/props/c09"
	"filippo.io/age/xverif/props/c10"
	"filippo.io/age/xverif/props/c11"
	"filippo.io/age/xverif/props/c12"
	"filippo.io/age/xverif/props/c13"
	"filippo.io/age/xverif/props/c14"
	"filippo.io/age/xverif/props/c15"
	"filippo.io/age/xverif/props/c16"
	"filippo.io/age/xverif/props/c17"
	"filippo.io/age/xverif/props/c18"
	"filippo.io/age/xverif/props/c19"
	"filippo.io/age/xverif/props/c20"
)

var checks = map[string]func(tier string){
	"C01": c01.RunC01,
	"C04": c01.RunC04,
	"C02": c02.Run,
	"C03": c03.Run,
	"C05": c05.RunC05,
	"C06": c05.RunC06,
	"C07": c07.Run,
	"C08": c08.Run,
	"C09": c09.Run,
	"C10": c10.Run,
	"C11": c11.Run,
	"C12": c12.Run,
	"C13": c13.Run,
	"C14": c14.Run,
	"C15": c15.Run,
	"C16": c16.Run,
	"C17": c17.Run,
	"C18": c18.Run,
	"C19": c19.Run,
	"C20": c20.Run,
}

func main() {
	if len(os.Args) < 3 && !(len(os.Args) == 2 && os.Args[1] == "gen-corpus") {
		fmt.Fprintln(os.Stderr, "usage: vcheck <ID> <quick|thorough>")
		os.Exit(2)
	}
	if os.Args[1] == "gen-corpus" {
		c05.GenCorpus()
		return
	}
	id, tier := os.Args[1], os.Args[2]
	if tier != "quick" && tier != "thorough" {
		fmt.Fprintln(os.Stderr, "tier must be quick or thorough")
		os.Exit(2)
	}
	f, ok := checks[id]
	if !ok {
		fmt.Fprintf(os.Stderr, "no check for %s\n", id)
		os.Exit(2)
	}
	f(tier)
}
