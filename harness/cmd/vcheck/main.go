// vcheck runs one property check: vcheck <ID> <quick|thorough>.
package main

import (
	"encoding/json"
	"fmt"
	"os"
	"os/exec"
	"strings"

	"filippo.io/age/xverif/internal/rd"
	"filippo.io/age/xverif/internal/vk"

	"filippo.io/age/xverif/props/c01"
	"filippo.io/age/xverif/props/c02"
	"filippo.io/age/xverif/props/c03"
	"filippo.io/age/xverif/props/c05"
	"filippo.io/age/xverif/props/c07"
	"filippo.io/age/xverif/props/c08"
	"filippo.io/age/xverif/props/c09"
	"filippo.io/age/xverif/props/c10"
	"filippo.io/age/xverif/props/c11"
	"filippo.io/age/xverif/props/c12"
	"filippo.io/age/xverif/props/c13"
	"filippo.io/age/xverif/props/c14"
	"filippo.io/age/xverif/props/c15"
	"filippo.io/age/xverif/props/c16"
	"filippo.io/age/xverif/props/c17"
	"filippo.io/age/xverif/props/c18"
	"filippo.io/age/xverif/props/c19"
	"filippo.io/age/xverif/props/c20"
)

var checks = map[string]func(tier string){
	"C01": c01.RunC01,
	"C04": c01.RunC04,
	"C02": c02.Run,
	"C03": c03.Run,
	"C05": c05.RunC05,
	"C06": c05.RunC06,
	"C07": c07.Run,
	"C08": c08.Run,
	"C09": c09.Run,
	"C10": c10.Run,
	"C11": c11.Run,
	"C12": c12.Run,
	"C13": c13.Run,
	"C14": c14.Run,
	"C15": c15.Run,
	"C16": c16.Run,
	"C17": c17.Run,
	"C18": c18.Run,
	"C19": c19.Run,
	"C20": c20.Run,
}

func main() {
	if len(os.Args) < 3 && !(len(os.Args) == 2 && os.Args[1] == "gen-corpus") {
		fmt.Fprintln(os.Stderr, "usage: vcheck <ID> <quick|thorough>")
		os.Exit(2)
	}
	if os.Args[1] == "replay" {
		replay(os.Args[2])
		return
	}
	if os.Args[1] == "gen-corpus" {
		c05.GenCorpus()
		return
	}
	id, tier := os.Args[1], os.Args[2]
	if tier != "quick" && tier != "thorough" {
		fmt.Fprintln(os.Stderr, "tier must be quick or thorough")
		os.Exit(2)
	}
	f, ok := checks[id]
	if !ok {
		fmt.Fprintf(os.Stderr, "no check for %s\n", id)
		os.Exit(2)
	}
	f(tier)
}

// replay re-runs the case stored in a replay file on the current /repo. Cases that carry their concrete input are
// re-executed alone; the others are reproduced by re-running the check they came from with the recorded seed and
// looking for the same violation signature.
func replay(path string) {
	b, err := os.ReadFile(path)
	if err != nil {
		fmt.Fprintln(os.Stderr, err)
		os.Exit(2)
	}
	var r struct {
		Property  string `json:"property"`
		Tier      string `json:"tier"`
		Seed      int64  `json:"seed"`
		Signature string `json:"signature"`
		Case      struct {
			Check  string `json:"check"`
			Input  []int  `json:"input"`
			Label  string `json:"label"`
			Kind   string `json:"kind"`
			Data   []int  `json:"data"`
			Writes []int  `json:"writes"`
		} `json:"case"`
	}
	if err := json.Unmarshal(b, &r); err != nil {
		fmt.Fprintln(os.Stderr, "replay file:", err)
		os.Exit(2)
	}
	os.Setenv("VERIF_SEED", fmt.Sprint(r.Seed))
	switch r.Case.Check {
	case "C07.parse":
		run := vk.NewRun("C07", r.Tier, "model_checking")
		c07.CheckCase(run, vk.Bytes(r.Case.Input), nil, "replay:"+r.Case.Label)
		finishReplay(run)
	case "C08.read":
		run := vk.NewRun("C08", r.Tier, "model_checking")
		c08.CheckRead(run, vk.Bytes(r.Case.Input), nil, nil, "replay:"+r.Case.Label, rd.Kinds)
		finishReplay(run)
	case "C08.write":
		run := vk.NewRun("C08", r.Tier, "model_checking")
		c08.CheckWrite(run, vk.Bytes(r.Case.Data), r.Case.Writes, nil, "replay")
		finishReplay(run)
	}
	// generic: the same check, the same seed, the same signature
	cmd := exec.Command(os.Args[0], r.Property, r.Tier)
	cmd.Env = os.Environ()
	out, _ := cmd.CombinedOutput()
	if strings.Contains(string(out), "signature: "+r.Signature) {
		fmt.Printf("VIOLATION property=%s replay=%s\n  reproduced: %s\n", r.Property, path, r.Signature)
		os.Exit(1)
	}
	if strings.Contains(string(out), "INFRASTRUCTURE ERROR") {
		fmt.Fprintln(os.Stderr, string(out))
		os.Exit(2)
	}
	fmt.Printf("not reproduced: %s\n", r.Signature)
	os.Exit(0)
}

func finishReplay(run *vk.Run) {
	if run.Violations() > 0 {
		os.Exit(1)
	}
	fmt.Println("not reproduced")
	os.Exit(0)
}
