// vrace runs model-generated operation mixes on shared recipient/identity values, free-running, for the race
// detector (built with -race). Hooks only perturb scheduling (Gosched / short spins): no locks, channels or
// atomics inside the measured region.
package main

import (
	"encoding/json"
	"flag"
	"fmt"
	"math/rand"
	"os"
	"runtime"
	"strings"
	"sync"
	"sync/atomic"
	"time"

	"filippo.io/age/internal/verifhook"
	"filippo.io/age/xverif/internal/conc"
)

type history struct {
	Progs [][]string `json:"progs"`
}

// waitOrDeadlock waits for the goroutines of one mix; operations that each return when run alone and do not return when
// run together are reported as a deadlock (exit status 4).
// progress counts completed operations of all goroutines.
var progress int64

// waitOrDeadlock waits for the goroutines. A deadlock is the absence of ANY completed operation for three minutes (the
// slowest single operation here takes milliseconds; on a loaded machine a whole batch may well take minutes, which is
// not a deadlock); a batch that keeps making progress for 45 minutes is an infrastructure failure, not a verdict.
func waitOrDeadlock(wg *sync.WaitGroup, what string) {
	done := make(chan struct{})
	go func() { wg.Wait(); close(done) }()
	last := atomic.LoadInt64(&progress)
	lastChange := time.Now()
	start := time.Now()
	tick := time.NewTicker(2 * time.Second)
	defer tick.Stop()
	for {
		select {
		case <-done:
			return
		case <-tick.C:
			if now := atomic.LoadInt64(&progress); now != last {
				last, lastChange = now, time.Now()
			} else if time.Since(lastChange) > 3*time.Minute {
				fmt.Printf("DEADLOCK %s: no operation of any goroutine has completed for three minutes (%d completed before)\n", what, last)
				os.Exit(4)
			}
			if time.Since(start) > 45*time.Minute {
				fmt.Fprintf(os.Stderr, "%s: still running after 45 minutes (%d operations completed): machine too slow or too loaded\n", what, last)
				os.Exit(2)
			}
		}
	}
}

func main() {
	file := flag.String("histories", "", "JSON lines of {progs:[[ops]...]}")
	seed := flag.Int64("seed", 1, "")
	rounds := flag.Int("rounds", 3, "")
	stress := flag.Int("stress", 1500, "decryptions per goroutine in the volume part")
	stressKinds := flag.String("stress-kinds", "scrypt,x25519,ssh-ed25519", "")
	flag.Parse()
	b, err := os.ReadFile(*file)
	if err != nil {
		fmt.Fprintln(os.Stderr, err)
		os.Exit(2)
	}
	var hs []history
	if err := json.Unmarshal(b, &hs); err != nil {
		fmt.Fprintln(os.Stderr, err)
		os.Exit(2)
	}
	// per-goroutine perturbation without shared state: decisions derive from the point name and a counter local to the stack
	verifhook.PointFn = func(name string) {
		n := len(name) + int(*seed)
		for i := 0; i < n%3; i++ {
			runtime.Gosched()
		}
	}
	bad := 0
	ops := 0
	for hi, h := range hs {
		for _, kind := range []string{"x25519", "scrypt", "ssh-ed25519", "ssh-ed25519-fresh-recipient", "ssh-rsa", "ssh-rsa-from-components"} {
			size := []int{0, 100, 70000, 140000}[(hi+len(kind))%4]
			s, err := conc.NewShared(kind, size)
			if err != nil {
				fmt.Fprintln(os.Stderr, "setup:", err)
				os.Exit(2)
			}
			results := make([][]conc.Result, len(h.Progs))
			var wg sync.WaitGroup
			start := make(chan struct{})
			for p := range h.Progs {
				wg.Add(1)
				go func(p int) {
					defer wg.Done()
					rng := rand.New(rand.NewSource(*seed + int64(p)))
					<-start
					for r := 0; r < *rounds; r++ {
						for _, op := range h.Progs[p] {
							if rng.Intn(3) == 0 {
								runtime.Gosched()
							}
							results[p] = append(results[p], s.Do(op))
							atomic.AddInt64(&progress, 1)
						}
					}
				}(p)
			}
			close(start)
			waitOrDeadlock(&wg, fmt.Sprintf("kind=%s history=%v", kind, h.Progs))
			for p := range results {
				for _, r := range results[p] {
					ops++
					if msg := s.Verify(r); msg != "" {
						bad++
						if bad < 10 {
							fmt.Printf("WRONG-RESULT kind=%s history=%v proc=%d: %s\n", kind, h.Progs, p, msg)
						}
					}
				}
			}
		}
	}
	// volume: many goroutines hammering ONE identity value (and one shared identity list) with decryptions of rotating
	// files; a value remembered from one file and read back for another shows only as a rare wrong result
	for _, kind := range strings.Split(*stressKinds, ",") {
		s, err := conc.NewShared(kind, 64)
		if err != nil {
			fmt.Fprintln(os.Stderr, "setup:", err)
			os.Exit(2)
		}
		const G = 16
		res := make([][]conc.Result, G)
		var wg sync.WaitGroup
		start := make(chan struct{})
		for p := 0; p < G; p++ {
			wg.Add(1)
			go func(p int) {
				defer wg.Done()
				<-start
				for r := 0; r < *stress; r++ {
					op := "dec"
					if (r+p)%4 == 0 {
						op = "enc" // encryptions in the mix: what limits or serialises them must not depend on who else is running
					}
					res[p] = append(res[p], s.Do(op))
					atomic.AddInt64(&progress, 1)
				}
			}(p)
		}
		close(start)
		waitOrDeadlock(&wg, fmt.Sprintf("kind=%s stress", kind))
		for p := range res {
			for _, r := range res[p] {
				ops++
				if msg := s.Verify(r); msg != "" {
					bad++
					if bad < 10 {
						fmt.Printf("WRONG-RESULT kind=%s stress proc=%d: %s\n", kind, p, msg)
					}
				}
			}
		}
	}
	fmt.Printf("OPS %d WRONG %d\n", ops, bad)
	if bad > 0 {
		os.Exit(3)
	}
}
