// Package c14: hostile input produces errors, never panics or hangs.
package c14

import (
	"bufio"
	"bytes"
	"crypto/ed25519"
	"crypto/rand"
	"encoding/base64"
	"encoding/pem"
	"errors"
	"fmt"
	"io"
	mrand "math/rand"
	"strconv"
	"strings"
	"sync"
	"time"

	"filippo.io/age"
	"filippo.io/age/agessh"
	"filippo.io/age/armor"
	"filippo.io/age/internal/format"
	"filippo.io/age/internal/verifhook"
	"filippo.io/age/plugin"
	"filippo.io/age/xverif/internal/vectors"
	"filippo.io/age/xverif/internal/vk"
	"filippo.io/age/xverif/internal/world"
	"filippo.io/age/xverif/props/c07"
	"filippo.io/age/xverif/props/c08"
	"filippo.io/age/xverif/props/c09"
	"filippo.io/age/xverif/props/c16"
	"golang.org/x/crypto/ssh"
)

const maxWF = 10

var hookMu sync.Mutex
var worstDerive int

// guarded runs f under recover and a wall-clock bound. It returns a description of what went wrong, or "".
func guarded(f func()) string {
	done := make(chan string, 1)
	go func() {
		defer func() {
			if p := recover(); p != nil {
				done <- fmt.Sprintf("panic: %v", p)
			}
		}()
		f()
		done <- ""
	}()
	select {
	case m := <-done:
		return m
	case <-time.After(20 * time.Second):
		return "timeout"
	}
}

type target struct {
	name string
	f    func(b []byte) error // the returned error is only inspected for its type where the property says so
}

func identities(w *world.World) []age.Identity {
	s, _ := age.NewScryptIdentity("hostile")
	s.SetMaxWorkFactor(maxWF)
	return []age.Identity{w.XIdentity("x1"), s, w.Identity("e1"), w.Identity("r1")}
}

func targets(w *world.World) []target {
	ids := identities(w)
	drain := func(r io.Reader, err error) error {
		if err != nil {
			if r != nil {
				// (a nil pointer wrapped in the interface counts: the caller sees a reader, and using it crashes)
				return fmt.Errorf("PARTIAL: Decrypt failed (%v) and still returned a payload reader (%T)", err, r)
			}
			return err
		}
		_, err = io.Copy(io.Discard, r)
		return err
	}
	return []target{
		{"age.Decrypt", func(b []byte) error {
			for _, id := range ids { // one identity at a time: each identity type's Unwrap sees the hostile stanzas
				if err := drain(age.Decrypt(bytes.NewReader(b), id)); err == nil {
					return nil
				}
			}
			return drain(age.Decrypt(bytes.NewReader(b), ids...))
		}},
		{"armor+Decrypt", func(b []byte) error {
			err := drain(age.Decrypt(armor.NewReader(bytes.NewReader(b)), ids...))
			return err
		}},
		{"armor.NewReader", func(b []byte) error {
			_, err := io.Copy(io.Discard, armor.NewReader(bytes.NewReader(b)))
			if err != nil {
				var ae *armor.Error
				if !errors.As(err, &ae) {
					return fmt.Errorf("UNTYPED %T: %v", err, err)
				}
			}
			return err
		}},
		{"format.Parse", func(b []byte) error {
			h, r, err := format.Parse(bytes.NewReader(b))
			if err != nil && (h != nil || r != nil) {
				return fmt.Errorf("PARTIAL header=%v reader=%v on error %v", h != nil, r != nil, err)
			}
			return err
		}},
		{"StanzaReader", func(b []byte) error {
			sr := format.NewStanzaReader(bufio.NewReader(bytes.NewReader(b)))
			for i := 0; i < 50; i++ {
				if _, err := sr.ReadStanza(); err != nil {
					return err
				}
			}
			return nil
		}},
		{"age.ParseIdentities", func(b []byte) error { _, err := age.ParseIdentities(bytes.NewReader(b)); return err }},
		{"age.ParseRecipients", func(b []byte) error { _, err := age.ParseRecipients(bytes.NewReader(b)); return err }},
		{"age.ParseX25519Identity", func(b []byte) error { _, err := age.ParseX25519Identity(string(b)); return err }},
		{"age.ParseX25519Recipient", func(b []byte) error { _, err := age.ParseX25519Recipient(string(b)); return err }},
		{"agessh.ParseRecipient", func(b []byte) error { _, err := agessh.ParseRecipient(string(b)); return err }},
		{"agessh.ParseIdentity", func(b []byte) error { _, err := agessh.ParseIdentity(b); return err }},
		{"plugin.ParseRecipient", func(b []byte) error { _, _, err := plugin.ParseRecipient(string(b)); return err }},
		{"plugin.ParseIdentity", func(b []byte) error { _, _, err := plugin.ParseIdentity(string(b)); return err }},
		{"plugin.NewRecipient", func(b []byte) error { _, err := plugin.NewRecipient(string(b), &plugin.ClientUI{}); return err }},
		{"plugin.NewIdentity", func(b []byte) error { _, err := plugin.NewIdentity(string(b), &plugin.ClientUI{}); return err }},
		{"plugin.NewIdentityWithoutData", func(b []byte) error {
			if len(b) > 64 {
				return nil
			}
			_, err := plugin.NewIdentityWithoutData(string(b), &plugin.ClientUI{})
			return err
		}},
		{"agessh.NewEncryptedSSHIdentity", func(b []byte) error {
			pk, _, _, _, err := ssh.ParseAuthorizedKey(b)
			if err != nil {
				return err
			}
			_, err = agessh.NewEncryptedSSHIdentity(pk, b, func() ([]byte, error) { return []byte("x"), nil })
			return err
		}},
	}
}

func classOf(name string) string {
	if i := strings.IndexAny(name, ":#@"); i > 0 {
		return name[:i]
	}
	return name
}

type input struct {
	name string
	b    []byte
}

// hostileStanzas: complete headers whose stanzas are malformed in every way an identity's Unwrap distinguishes.
func hostileStanzas(w *world.World) []input {
	var out []input
	x := w.XIdentity("x1")
	fk := make([]byte, 16)
	good, _ := x.Recipient().Wrap(fk)
	lowOrder := make([]byte, 32) // the all-zero point
	b64 := base64.RawStdEncoding.EncodeToString
	e1tag := func() string {
		ss, _ := w.Recipient("e1").Wrap(fk)
		return ss[0].Args[0]
	}()
	r1tag := func() string {
		ss, _ := w.Recipient("r1").Wrap(fk)
		return ss[0].Args[0]
	}()
	bodies := [][]byte{{}, make([]byte, 15), make([]byte, 17), make([]byte, 31), make([]byte, 32), make([]byte, 33), make([]byte, 256), make([]byte, 257), make([]byte, 1000)}
	var sts []*format.Stanza
	for _, body := range bodies {
		sts = append(sts,
			&format.Stanza{Type: "X25519", Args: []string{good[0].Args[0]}, Body: body},
			&format.Stanza{Type: "X25519", Args: []string{b64(lowOrder)}, Body: body},
			&format.Stanza{Type: "scrypt", Args: []string{b64(make([]byte, 16)), "2"}, Body: body},
			&format.Stanza{Type: "ssh-ed25519", Args: []string{e1tag, b64(make([]byte, 32))}, Body: body},
			&format.Stanza{Type: "ssh-ed25519", Args: []string{e1tag, b64(lowOrder)}, Body: body},
			&format.Stanza{Type: "ssh-rsa", Args: []string{r1tag}, Body: body},
		)
	}
	for _, typ := range []string{"X25519", "scrypt", "ssh-ed25519", "ssh-rsa"} {
		for _, args := range [][]string{{}, {"a"}, {"a", "b"}, {"a", "b", "c"}, {b64(make([]byte, 31))}, {b64(make([]byte, 33))}, {b64(make([]byte, 16)), "99999999999999999999"},
			{b64(make([]byte, 16)), "30"}, {b64(make([]byte, 16)), "22"}, {b64(make([]byte, 16)), "0"}, {b64(make([]byte, 15)), "2"}, {"!!!", "2"}, {e1tag}, {e1tag, "!!"}, {r1tag, "x"}} {
			sts = append(sts, &format.Stanza{Type: typ, Args: args, Body: make([]byte, 32)})
		}
	}
	mac := make([]byte, 32)
	for i, st := range sts {
		for _, extra := range [][]*format.Stanza{nil, {{Type: "grease", Args: []string{"x"}}}, {st}} {
			h := &format.Header{Recipients: append([]*format.Stanza{st}, extra...), MAC: mac}
			var buf bytes.Buffer
			h.Marshal(&buf)
			buf.Write(make([]byte, 40))
			out = append(out, input{fmt.Sprintf("stanza:%s/%d-args/%d-body#%d", st.Type, len(st.Args), len(st.Body), i), buf.Bytes()})
		}
	}
	// a header without any stanza
	h := &format.Header{MAC: mac}
	var buf bytes.Buffer
	h.Marshal(&buf)
	out = append(out, input{"stanza:none", append(buf.Bytes(), make([]byte, 32)...)})
	return out
}

func sshInputs(rng *mrand.Rand) []input {
	var out []input
	_, priv, _ := ed25519.GenerateKey(rand.Reader)
	pk, _ := ssh.NewPublicKey(priv.Public())
	line := ssh.MarshalAuthorizedKey(pk)
	blk, _ := ssh.MarshalPrivateKey(priv, "c14")
	pemBytes := pem.EncodeToMemory(blk)
	eblk, _ := ssh.MarshalPrivateKeyWithPassphrase(priv, "c14", []byte("pw"))
	epem := pem.EncodeToMemory(eblk)
	out = append(out, input{"sshpub", line}, input{"sshpem", pemBytes}, input{"sshpem-encrypted", epem})
	for _, base := range []input{{"sshpub-mut", line}, {"sshpem-mut", pemBytes}, {"sshpem-encrypted-mut", epem}} {
		for i := 0; i < 150; i++ {
			out = append(out, input{fmt.Sprintf("%s#%d", base.name, i), mutate(base.b, rng)})
		}
	}
	// wrong-type keys in the right syntax
	for _, t := range []string{"ssh-dss", "ecdsa-sha2-nistp256", "sk-ssh-ed25519@openssh.com", "ssh-rsa", "ssh-ed25519"} {
		var w bytes.Buffer
		w.Write([]byte{0, 0, 0, byte(len(t))})
		w.WriteString(t)
		w.Write([]byte{0, 0, 0, 1, 0})
		out = append(out, input{"sshpub-type:" + t, []byte(t + " " + base64.StdEncoding.EncodeToString(w.Bytes()) + " c")})
	}
	return out
}

func mutate(b []byte, rng *mrand.Rand) []byte {
	m := append([]byte{}, b...)
	for k := 0; k <= rng.Intn(3); k++ {
		if len(m) == 0 {
			return []byte{byte(rng.Intn(256))}
		}
		pos := rng.Intn(len(m))
		switch rng.Intn(6) {
		case 0:
			m[pos] = byte(rng.Intn(256))
		case 1:
			ins := []byte(" \n\r-=>Aa/+\x00\x7f\xff")
			m = append(m[:pos], append([]byte{ins[rng.Intn(len(ins))]}, m[pos:]...)...)
		case 2:
			m = append(m[:pos], m[pos+1:]...)
		case 3:
			m = m[:pos]
		case 4:
			q := rng.Intn(len(m))
			if pos > q {
				pos, q = q, pos
			}
			m = append(m[:q], append(append([]byte{}, m[pos:q]...), m[q:]...)...)
		case 5:
			m[pos] ^= 1 << uint(rng.Intn(8))
		}
		if len(m) > 300000 {
			m = m[:300000]
		}
	}
	return m
}

func apalacheCfg() []string {
	return []string{"--cinit=CInit"}
}

// scryptWorkPerCall: the work bound is per call, not per stanza. A header (or a stanza list handed to Unwrap directly)
// with many well-formed passphrase stanzas, each within the maximum, must not make one call derive more than the
// configured maximum's worth of work: the sum of 2^logN over the derivations of one call is at most 2^max.
func scryptWorkPerCall(run *vk.Run) {
	prev := verifhook.EmitFn
	defer func() { verifhook.EmitFn = prev }()
	var mu sync.Mutex
	work := 0
	verifhook.EmitFn = func(name string, args ...int) {
		if prev != nil {
			prev(name, args...)
		}
		if name == "scrypt.derive" && len(args) > 0 && args[0] < 30 {
			mu.Lock()
			work += 1 << uint(args[0])
			mu.Unlock()
		}
	}
	mk := func(logN int) *age.Stanza {
		salt := make([]byte, 16)
		body := make([]byte, 32)
		rand.Read(salt)
		rand.Read(body)
		return &age.Stanza{Type: "scrypt", Args: []string{base64.RawStdEncoding.EncodeToString(salt), strconv.Itoa(logN)}, Body: body}
	}
	x := &age.Stanza{Type: "X25519", Args: []string{"TEiF0ypqr+bpvcqXNyCVJpL7OuwPdVwPL7KQEbFDOCc"}, Body: make([]byte, 32)}
	for _, max := range []int{6, 10} {
		for _, layout := range [][]*age.Stanza{{mk(max), mk(max)}, {mk(max), mk(max), mk(max), mk(max)}, {mk(1), mk(max), mk(max - 1)}, {x, mk(max), mk(max)}, {mk(max), x, mk(max)},
			{mk(max)}, {mk(max), mk(max), mk(max), mk(max), mk(max), mk(max), mk(max), mk(max), mk(max), mk(max), mk(max), mk(max), mk(max), mk(max), mk(max), mk(max)}} {
			for vi, via := range []string{"Unwrap", "Decrypt", "Unwrap", "Decrypt"} {
				// the identity's passphrase is wrong for every stanza; a trailing line terminator must not buy a second try
				id, err := age.NewScryptIdentity([]string{"not the passphrase of any of them", "not the passphrase of any of them", "typed with its newline\n", "pasted from a file\r\n"}[vi])
				if err != nil {
					vk.Infra("%v", err)
				}
				id.SetMaxWorkFactor(max)
				mu.Lock()
				work = 0
				mu.Unlock()
				func() {
					defer func() {
						if p := recover(); p != nil {
							run.Violation("C14:panic:scrypt-many-stanzas", fmt.Sprint(p), nil)
						}
					}()
					if via == "Unwrap" {
						id.Unwrap(layout)
					} else {
						h := &format.Header{MAC: make([]byte, 32)}
						for _, s := range layout {
							h.Recipients = append(h.Recipients, (*format.Stanza)(s))
						}
						var b bytes.Buffer
						h.Marshal(&b)
						b.Write(make([]byte, 64))
						age.Decrypt(&b, id)
					}
				}()
				run.Eval(1)
				mu.Lock()
				wk := work
				mu.Unlock()
				sig := fmt.Sprintf("stanzas=%d/max=%d/%s/pw%d", len(layout), max, via, vi/2)
				if wk > 1<<uint(max) {
					run.Violation("C14:work-above-maximum:per-call:"+sig, fmt.Sprintf("one %s call on %d stanzas with maximum work factor %d did scrypt work %d (= %.1f x 2^%d)", via, len(layout), max, wk, float64(wk)/float64(int(1)<<uint(max)), max), map[string]interface{}{"check": "C14.workpercall", "stanzas": len(layout), "max": max, "via": via})
				}
				run.Distinct("work-per-call:" + sig)
			}
		}
	}
}

// Run is the C14 check.
func Run(tier string) {
	run := vk.NewRun("C14", tier, "exploration")
	run.Rule("Inputs: every TLC-generated reject edge of the header grammar (HeaderGen), the armor grammar (ArmorGen), key strings and plugin names (Bech32Gen); headers whose stanzas are malformed in every way the four identity types distinguish (argument counts, share/salt lengths, bodies of 0..1000 bytes, low-order points, work factors 0/22/30/overflow), also among other stanzas and duplicated, and a header without stanzas; the 114 CCTV vectors and seeded grammar-blind mutations of them; SSH public/private key texts and mutations. Each input goes to every library entry point (Decrypt with each identity type alone and together, armor reader, header parser, stanza reader, key-file and key-string parsers, SSH key parsers, plugin constructors) under recover and a 20 s bound, with the scrypt.derive hook watching a passphrase identity whose maximum is 10. Specification side: NoPanic invariants of the STREAM machines (TLC) and the inductive invariant of the writer/reader counters for any chunk size (Apalache). Distinct = (entry point, input class).")
	run.Assume("coverage-guided fuzzing is not attempted (outside this technique family): inputs hostile in ways none of the generators anticipates are not reached")
	verifhook.EmitFn = func(name string, args ...int) {
		if name == "scrypt.derive" && len(args) > 0 {
			hookMu.Lock()
			if args[0] > worstDerive {
				worstDerive = args[0]
			}
			hookMu.Unlock()
		}
	}
	// specification side
	mc := "SPECIFICATION Spec\nCONSTANTS\n C = 2\n T = 1\n KeepHist = FALSE\n Mode = \"reader\"\n MaxL = 4\n ReadSizes = {0, 1, 3}\n WriteSizes = {}\n MaxWrites = 0\n Faults = TRUE\n ProbeIgnoresN = FALSE\nINVARIANTS NoPanicR TypeOK\nVIEW view\nCHECK_DEADLOCK FALSE\n"
	run.SpecMustHold("stream-reader-nopanic", vk.TLCOpts{Module: "StreamMC", Config: mc, Workers: 16})
	for _, step := range [][]string{{"--init=Init", "--inv=IndInv", "--length=0"}, {"--init=IndInit", "--inv=IndInv", "--length=1"}} {
		out, ok, err := vk.RunApalache("StreamInd", 5*time.Minute, append(step, "--cinit=CInit")...)
		if err != nil {
			vk.Infra("apalache: %v\n%s", err, tail(out))
		}
		if !ok {
			vk.Infra("the inductive invariant of StreamInd does not hold (specification-level failure):\n%s", tail(out))
		}
	}
	run.Set("apalache_inductive_invariant", "StreamInd!IndInv: Init => IndInv and IndInv /\\ Next => IndInv' for all C > 0")

	rng := mrand.New(mrand.NewSource(run.Seed))
	w := world.New(run.Seed)
	for _, k := range []string{"x1", "e1", "r1"} {
		w.Identity(k)
		w.Recipient(k)
	}
	var inputs []input
	for i, b := range c07.HostileInputs(run) {
		inputs = append(inputs, input{fmt.Sprintf("header-grammar#%d", i), b})
	}
	for i, b := range c08.HostileInputs(run) {
		inputs = append(inputs, input{fmt.Sprintf("armor-grammar#%d", i), b})
	}
	for i, s := range c09.HostileStrings(run) {
		inputs = append(inputs, input{fmt.Sprintf("keystring#%d", i), []byte(s)})
		if i%5 == 0 {
			inputs = append(inputs, input{fmt.Sprintf("keyfile#%d", i), []byte("# c\n" + s + "\n\n" + s + "\r\n")})
		}
	}
	inputs = append(inputs, hostileStanzas(w)...)
	inputs = append(inputs, sshInputs(rng)...)
	vs := vectors.All()
	for _, v := range vs {
		inputs = append(inputs, input{"vector:" + v.Name, v.File})
	}
	nmut := run.Pick(4000, 60000)
	for i := 0; i < nmut; i++ {
		v := vs[rng.Intn(len(vs))]
		inputs = append(inputs, input{fmt.Sprintf("vector-mut:%s#%d", v.Name, i), mutate(v.File, rng)})
	}
	// short strings with Unicode case-folding confusables for the key-string parsers (byte/rune length mismatches)
	for _, hrp := range []string{"CAMARYW", "AGE-SECRET-KEY-", "age", "AGE-PLUGIN-X-", "A"} {
		for _, tailS := range []string{"KK", "K", "ſſſ", "KQQQQQ", "İİ", "QQQQQK", "qqqqqq", "QQQQQQ"} {
			inputs = append(inputs, input{"confusable:" + hrp, []byte(hrp + "1" + tailS)})
		}
	}
	// every printable ASCII character (and a few bytes outside) in every third position of a valid native recipient,
	// native identity and plugin recipient, upper- and lower-case carriers: table-driven decoders index by character
	{
		xid := w.XIdentity("x1")
		carriers := []string{xid.Recipient().String(), xid.String(), strings.ToLower(xid.String()), plugin.EncodeRecipient("vscript", []byte("some plugin data")), "age1qqqqqqq", "AGE-PLUGIN-X-1QQQQQQQ"}
		for ci, s := range carriers {
			for pos := 0; pos < len(s); pos += 3 {
				for c := 32; c <= 128; c++ {
					b := []byte(s)
					b[pos] = byte(c)
					inputs = append(inputs, input{fmt.Sprintf("keystring-char:%d", ci), b})
				}
			}
			for c := 32; c <= 128; c++ { // also as the last character and appended
				b := []byte(s)
				b[len(b)-1] = byte(c)
				inputs = append(inputs, input{fmt.Sprintf("keystring-char:%d", ci), b}, input{fmt.Sprintf("keystring-char:%d", ci), append([]byte(s), byte(c))})
			}
		}
	}
	// files the identities of this run CAN open, cut at every offset from the end of the header to past the payload nonce
	// (and with the nonce region damaged): failures that come after a successful unwrap and MAC check
	{
		var buf bytes.Buffer
		wc, err := age.Encrypt(&buf, w.XIdentity("x1").Recipient())
		if err != nil {
			vk.Infra("%v", err)
		}
		wc.Write([]byte("plaintext of a file this run can open"))
		wc.Close()
		file := buf.Bytes()
		hdrEnd := bytes.Index(file, []byte("\n--- ")) + 1
		hdrEnd += bytes.IndexByte(file[hdrEnd:], '\n') + 1
		for cut := hdrEnd - 3; cut <= hdrEnd+40 && cut <= len(file); cut++ {
			inputs = append(inputs, input{"own-file-cut", append([]byte{}, file[:cut]...)})
			var ab bytes.Buffer
			aw := armor.NewWriter(&ab)
			aw.Write(file[:cut])
			aw.Close()
			inputs = append(inputs, input{"own-file-cut-armored", ab.Bytes()})
		}
	}
	// armored files this run can open (one native recipient, one ssh-ed25519 recipient, seven native recipients: header
	// lengths of every residue class modulo the armor's 48-byte lines), with one character of one armor line damaged:
	// wherever Decrypt is when it meets the damage, the failure carries the armor error type
	for li, rs := range [][]age.Recipient{{w.XIdentity("x1").Recipient()}, {w.Recipient("e1")},
		{w.XIdentity("x1").Recipient(), w.XIdentity("x1").Recipient(), w.XIdentity("x1").Recipient(), w.XIdentity("x1").Recipient(), w.XIdentity("x1").Recipient(), w.XIdentity("x1").Recipient(), w.XIdentity("x1").Recipient()},
		{w.XIdentity("x1").Recipient(), w.Recipient("e1")}} {
		var ab bytes.Buffer
		aw := armor.NewWriter(&ab)
		wc, err := age.Encrypt(aw, rs...)
		if err != nil {
			vk.Infra("%v", err)
		}
		wc.Write(bytes.Repeat([]byte("armored plaintext "), 20))
		wc.Close()
		aw.Close()
		text := ab.Bytes()
		lines := bytes.SplitAfter(text, []byte("\n"))
		off := 0
		for k, ln := range lines {
			if k > 0 && k < len(lines)-2 && len(ln) > 10 {
				for _, at := range []int{0, len(ln) / 2, len(ln) - 2} {
					d := append([]byte{}, text...)
					d[off+at] = '!'
					inputs = append(inputs, input{fmt.Sprintf("own-armor-damaged:%d", li), d})
				}
			}
			off += len(ln)
		}
	}
	// key files in every line-ending shape: each of LF, CRLF, a bare CR, CR CR, LF CR, nothing, NUL and a form feed after
	// the last line, and between lines, of files with zero, one and two keys, a comment, an empty line
	{
		xid := w.XIdentity("x1")
		ends := []string{"", "\n", "\r\n", "\r", "\r\r", "\n\r", "\r\n\r", "\x00", "\f", "\n\n\r"}
		for _, key := range []string{xid.String(), xid.Recipient().String()} {
			for _, a := range ends {
				for _, b := range ends {
					for _, body := range []string{"", key, "# comment", key + a + key, "# c" + a + key, a + key} {
						inputs = append(inputs, input{"keyfile-endings", []byte(body + b)})
					}
				}
			}
		}
	}
	tg := targets(w)
	var skipped int64
	vk.Parallel(len(inputs), 16, func(i int) {
		in := inputs[i]
		for _, t := range tg {
			if len(in.b) > 4096 && (strings.HasPrefix(t.name, "plugin.") || strings.HasPrefix(t.name, "age.ParseX") || strings.HasPrefix(t.name, "agessh.")) {
				continue
			}
			var err error
			msg := guarded(func() { err = t.f(in.b) })
			run.Eval(1)
			sig := t.name + ":" + classOf(in.name)
			rp := map[string]interface{}{"check": "C14.input", "target": t.name, "input": vk.Ints(in.b[:min(len(in.b), 3000)]), "name": in.name}
			if msg == "timeout" {
				// confirm in isolation before it counts
				if again := guarded(func() { t.f(in.b) }); again == "timeout" {
					run.Violation("C14:hang:"+sig, fmt.Sprintf("%s did not return within 20 s on input %s (twice)", t.name, in.name), rp)
				}
				continue
			}
			if msg != "" {
				run.Violation("C14:panic:"+sig, fmt.Sprintf("%s on input %s (%d bytes %q…): %s", t.name, in.name, len(in.b), trunc(in.b), msg), rp)
				continue
			}
			if strings.HasPrefix(in.name, "own-armor-damaged") && t.name == "armor+Decrypt" {
				var ae *armor.Error
				if err == nil {
					run.Violation("C14:armor-error-untyped:accepted:"+classOf(in.name), "a damaged armor line went unnoticed", rp)
				} else if !errors.As(err, &ae) {
					run.Violation("C14:armor-error-untyped:"+classOf(in.name), fmt.Sprintf("the only damage is one character of an armor line, yet Decrypt's error does not carry the armor error type: %T %v", err, err), rp)
				}
			}
			if err != nil && strings.HasPrefix(err.Error(), "UNTYPED") {
				run.Violation("C14:armor-error-untyped:"+classOf(in.name), fmt.Sprintf("armor failure without the armor error type on %s: %v", in.name, err), rp)
			}
			if err != nil && strings.HasPrefix(err.Error(), "PARTIAL") {
				run.Violation("C14:partial-header-on-failure:"+classOf(in.name), err.Error(), rp)
			}
			run.Distinct(sig)
		}
	})
	_ = skipped
	c16.HostileForC14(run)
	scryptWorkPerCall(run)
	hookMu.Lock()
	wd := worstDerive
	hookMu.Unlock()
	if wd > maxWF {
		run.Violation("C14:work-above-maximum", fmt.Sprintf("a passphrase identity with maximum work factor %d derived a key with logN=%d on hostile input", maxWF, wd), nil)
	}
	run.Set("largest_scrypt_logN_derived", wd)
	run.Add("inputs", len(inputs))
	run.Add("entry_points", len(tg))
	run.Sample(map[string]interface{}{"input": inputs[len(inputs)/3].name, "bytes": trunc(inputs[len(inputs)/3].b)})
	run.Finish()
}

func trunc(b []byte) string {
	if len(b) > 120 {
		return string(b[:120])
	}
	return string(b)
}

func tail(s string) string {
	if len(s) > 1500 {
		return s[len(s)-1500:]
	}
	return s
}

func min(a, b int) int {
	if a < b {
		return a
	}
	return b
}
