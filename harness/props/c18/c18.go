// Package c18: key files — every line counts or the whole file is rejected.
package c18

import (
	"bytes"
	"crypto/ed25519"
	"encoding/json"
	"filippo.io/age/armor"
	"filippo.io/age/plugin"
	"fmt"
	"io"
	"math/rand"
	"os"
	"path/filepath"
	"regexp"
	"strings"
	"time"

	"filippo.io/age"
	"filippo.io/age/agessh"
	"filippo.io/age/internal/format"
	"filippo.io/age/xverif/internal/vk"
	"golang.org/x/crypto/ssh"
)

type line struct {
	Cls  string `json:"cls"`
	Term string `json:"term"`
}
type fcase struct {
	Lines []line   `json:"lines"`
	Ok    bool     `json:"ok"`
	Line  int      `json:"line"`
	Keys  []string `json:"keys"`
}

type keyset struct {
	ids   []*age.X25519Identity
	sshID *agessh.Ed25519Identity
	sshPK string // authorized_keys line
	other string // an unsupported but well-formed SSH key line
}

func mkKeys(rng *rand.Rand) *keyset {
	ks := &keyset{}
	for i := 0; i < 3; i++ {
		b := make([]byte, 32)
		rng.Read(b)
		s, _ := bech32Encode("AGE-SECRET-KEY-", b)
		id, err := age.ParseX25519Identity(s)
		if err != nil {
			vk.Infra("key gen: %v", err)
		}
		ks.ids = append(ks.ids, id)
	}
	seed := make([]byte, 32)
	rng.Read(seed)
	priv := ed25519.NewKeyFromSeed(seed)
	sid, err := agessh.NewEd25519Identity(priv)
	if err != nil {
		vk.Infra("%v", err)
	}
	ks.sshID = sid
	pk, _ := ssh.NewPublicKey(priv.Public())
	ks.sshPK = strings.TrimSpace(string(ssh.MarshalAuthorizedKey(pk)))
	// a syntactically fine key of a type age does not support
	t := "ecdsa-sha2-nistp256"
	var w bytes.Buffer
	w.Write([]byte{0, 0, 0, byte(len(t))})
	w.WriteString(t)
	w.Write([]byte{0, 0, 0, 8, 'n', 'i', 's', 't', 'p', '2', '5', '6', 0, 0, 0, 3, 4, 5, 6})
	ks.other = t + " " + stdB64(w.Bytes()) + " comment"
	return ks
}

// text of one line class for a file of the given kind ("ids" or "rcp").
func (ks *keyset) text(cls, kind string, rng *rand.Rand) string {
	key := func(i int) string {
		if kind == "ids" {
			return ks.ids[i].String()
		}
		return ks.ids[i].Recipient().String()
	}
	otherKind := func() string {
		if kind == "ids" {
			return ks.ids[0].Recipient().String()
		}
		return ks.ids[0].String()
	}
	ws := []string{" ", "\t"}[rng.Intn(2)]
	switch cls {
	case "key1":
		return key(0)
	case "key2":
		return key(1)
	case "key3":
		return key(2)
	case "sshkey":
		return ks.sshPK
	case "skip":
		return ks.other
	case "comment":
		return []string{"# a comment", "#", "#" + key(0)}[rng.Intn(3)]
	case "empty":
		return ""
	case "subst1":
		k := []byte(key(0))
		p := 20 + rng.Intn(len(k)-22)
		if k[p] == 'q' || k[p] == 'Q' {
			k[p]++
		} else if kind == "ids" {
			k[p] = 'Q'
		} else {
			k[p] = 'q'
		}
		return string(k)
	case "subst_q":
		// a character of value 0 ("q"/"Q") replaced by a character outside the alphabet (a decoder table that was never
		// filled with "invalid" reads every foreign character as 0)
		for _, i := range []int{0, 1, 2} {
			k := []byte(key(i))
			start := strings.LastIndex(string(k), "1") + 1
			for p := start; p < len(k); p++ {
				if k[p] == 'q' || k[p] == 'Q' {
					k[p] = map[bool]byte{true: 'B', false: 'b'}[k[p] == 'Q']
					if rng.Intn(2) == 0 {
						k[p] = '!'
					}
					return string(k)
				}
			}
		}
		k := []byte(key(0))
		k[len(k)-10] = '!'
		return string(k)
	case "truncated":
		k := key(1)
		return k[:len(k)-1-rng.Intn(5)]
	case "lead_ws":
		return ws + key(0)
	case "lead_ws_ssh":
		// a supported SSH key behind a blank: not a key line (no "ssh-" at the start), and not a documented skip either
		return ws + ks.sshPK
	case "trail_ws":
		return key(0) + ws
	case "wrong_case":
		if kind == "ids" {
			return strings.ToLower(key(0))
		}
		return strings.ToUpper(key(0))
	case "case_data":
		// the prefix keeps its case, only the data part changes case
		k := key(0)
		i := strings.LastIndex(k, "1") + 1
		if kind == "ids" {
			return k[:i] + strings.ToLower(k[i:])
		}
		return k[:i] + strings.ToUpper(k[i:])
	case "long_comment":
		return "#" + strings.Repeat("c", 8191+rng.Intn(3))
	case "long_comment_key":
		// a comment longer than any line buffer whose tail is a valid key
		return "#" + strings.Repeat("c", 8191) + key(1)
	case "other_kind":
		return otherKind()
	case "two_keys":
		return key(0) + " " + key(1)
	case "ws_comment":
		return ws + "# comment"
	case "ws_only":
		return ws + ws
	case "cr_only":
		return "\r\r"
	case "key_hash":
		return key(0) + "#"
	case "key_hash_c":
		return key(1) + " # old"
	case "sep_lost":
		k := key(0)
		i := strings.LastIndex(k, "1")
		return k[:i] + "I" + k[i+1:]
	case "sep_gone":
		k := key(0)
		i := strings.LastIndex(k, "1")
		return k[:i] + k[i+1:]
	case "kelvin":
		// a look-alike of K that lower-cases to k (U+212A KELVIN SIGN) in the data part of the key
		k := key(0)
		i := strings.LastIndex(k, "1") + 1
		if kind == "ids" {
			if j := strings.IndexByte(k[i:], 'K'); j >= 0 {
				return k[:i+j] + "\u212a" + k[i+j+1:]
			}
			return k[:i] + "\u212a" + k[i+1:]
		}
		if j := strings.IndexByte(k[i:], 'k'); j >= 0 {
			return k[:i+j] + "\u212a" + k[i+j+1:]
		}
		return k[:i] + "\u212a" + k[i+1:]
	case "pad_bits":
		// a key line corrupted so that its checksum is still right: the last data character carries one key bit and
		// four padding bits that must be zero; here one of them is set and the checksum recomputed
		if repad(key(0), 0) != key(0) {
			vk.Infra("the harness's bech32 encoder does not reproduce %q", key(0))
		}
		return repad(key(0), 1+rng.Intn(15))
	case "nul":
		return key(0) + "\x00"
	case "bom":
		return "\xef\xbb\xbf" + key(0)
	}
	panic("class " + cls)
}

const bech32Charset = "qpzry9x8gf2tvdw0s3jn54khce6mua7l"

func bech32Polymod(values []byte) uint32 {
	gen := []uint32{0x3b6a57b2, 0x26508e6d, 0x1ea119fa, 0x3d4233dd, 0x2a1462b3}
	chk := uint32(1)
	for _, v := range values {
		top := chk >> 25
		chk = (chk&0x1ffffff)<<5 ^ uint32(v)
		for i := 0; i < 5; i++ {
			if (top>>uint(i))&1 == 1 {
				chk ^= gen[i]
			}
		}
	}
	return chk
}

// repad rewrites a native key string: the last data group gets low bits set (bits&15, never 0) and the six checksum
// characters are recomputed, in the string's own case.
func repad(k string, bits int) string {
	upper := k == strings.ToUpper(k)
	l := strings.ToLower(k)
	sep := strings.LastIndex(l, "1")
	hrp, data := l[:sep], l[sep+1:len(l)-6]
	g := make([]byte, len(data))
	for i := range data {
		g[i] = byte(strings.IndexByte(bech32Charset, data[i]))
	}
	g[len(g)-1] |= byte(bits & 15)
	var v []byte
	for _, c := range hrp {
		v = append(v, byte(c>>5))
	}
	v = append(v, 0)
	for _, c := range hrp {
		v = append(v, byte(c&31))
	}
	v = append(v, g...)
	pm := bech32Polymod(append(v, 0, 0, 0, 0, 0, 0)) ^ 1
	out := hrp + "1"
	for _, x := range g {
		out += string(bech32Charset[x])
	}
	for i := 0; i < 6; i++ {
		out += string(bech32Charset[(pm>>uint(5*(5-i)))&31])
	}
	if upper {
		out = strings.ToUpper(out)
	}
	return out
}

func termText(t string) string {
	switch t {
	case "lf":
		return "\n"
	case "crlf":
		return "\r\n"
	}
	return ""
}

func (ks *keyset) build(c *fcase, kind string, rng *rand.Rand) (string, []string) {
	var b strings.Builder
	var lines []string
	for _, l := range c.Lines {
		t := ks.text(l.Cls, kind, rng)
		lines = append(lines, t)
		b.WriteString(t)
		b.WriteString(termText(l.Term))
	}
	return b.String(), lines
}

var reLine = regexp.MustCompile(`line (\d+)`)

// leak: does msg reproduce secret/recipient material of any line?
func leak(msg string, lines []string, kind string) string {
	for _, l := range lines {
		data := l
		n := 6
		if kind == "ids" {
			if i := strings.Index(strings.ToUpper(l), "AGE-SECRET-KEY-"); i >= 0 {
				data = l[i+len("AGE-SECRET-KEY-"):]
				if len(data) > 0 {
					data = data[1:] // the separator (or what replaced it)
				}
			} else {
				continue
			}
		} else {
			n = 8
			if strings.HasPrefix(strings.ToLower(l), "age1") {
				data = l[4:]
			} else if strings.HasPrefix(l, "ssh-") || strings.HasPrefix(l, "ecdsa-") || strings.HasPrefix(l, "#") || strings.TrimSpace(l) == "" {
				continue
			}
		}
		for i := 0; i+n <= len(data); i++ {
			sub := data[i : i+n]
			if strings.TrimSpace(sub) != sub || strings.Contains(sub, "comment") {
				continue
			}
			if strings.Contains(msg, sub) {
				return sub
			}
		}
	}
	return ""
}

func sig(c *fcase) string {
	p := make([]string, len(c.Lines))
	for i, l := range c.Lines {
		p[i] = l.Cls + "/" + l.Term
	}
	return strings.Join(p, ",")
}

func (ks *keyset) keyString(name, kind string) string {
	i := map[string]int{"key1": 0, "key2": 1, "key3": 2}[name]
	if kind == "ids" {
		return ks.ids[i].String()
	}
	return ks.ids[i].Recipient().String()
}

// checkLib evaluates C18 on the library parsers.
func checkLib(run *vk.Run, ks *keyset, c *fcase, kind string, rng *rand.Rand) {
	text, lines := ks.build(c, kind, rng)
	var got []string
	var err error
	var pan interface{}
	func() {
		defer func() { pan = recover() }()
		if kind == "ids" {
			var ids []age.Identity
			ids, err = age.ParseIdentities(strings.NewReader(text))
			for _, i := range ids {
				got = append(got, i.(*age.X25519Identity).String())
			}
		} else {
			var rs []age.Recipient
			rs, err = age.ParseRecipients(strings.NewReader(text))
			for _, r := range rs {
				got = append(got, r.(*age.X25519Recipient).String())
			}
		}
	}()
	run.Eval(1)
	rp := map[string]interface{}{"check": "C18.lib", "kind": kind, "text": text, "classes": sig(c)}
	s := "lib-" + kind + ":" + sig(c)
	if pan != nil {
		run.Violation("C18:panic:"+s, fmt.Sprint(pan), rp)
		return
	}
	if c.Ok {
		if err != nil {
			run.Violation("C18:valid-file-rejected:"+s, fmt.Sprintf("file %q: %v", text, err), rp)
			return
		}
		want := []string{}
		for _, k := range c.Keys {
			want = append(want, ks.keyString(k, kind))
		}
		if strings.Join(got, " ") != strings.Join(want, " ") {
			run.Violation("C18:wrong-keys:"+s, fmt.Sprintf("file %q: got %d keys %v, want %d in order %v", text, len(got), got, len(want), want), rp)
		}
		return
	}
	if err == nil {
		run.Violation("C18:bad-line-skipped:"+s, fmt.Sprintf("file %q was accepted (%d keys) although line %d is not a valid key (0 = no key at all)", text, len(got), c.Line), rp)
		return
	}
	if got != nil {
		run.Violation("C18:partial-result:"+s, "keys returned together with an error", rp)
		return
	}
	if c.Line > 0 {
		m := reLine.FindStringSubmatch(err.Error())
		if m == nil || m[1] != fmt.Sprint(c.Line) {
			run.Violation("C18:wrong-line-number:"+s, fmt.Sprintf("file %q: error %q does not name line %d", text, err.Error(), c.Line), rp)
			return
		}
	}
	if l := leak(err.Error(), lines, kind); l != "" {
		run.Violation("C18:leak:"+s, fmt.Sprintf("error message %q reproduces %q from the file", err.Error(), l), rp)
	}
}

// checkCLI evaluates C18 through the age binary (-R for recipients files, -d -i for identities files).
const encPass = "identity file passphrase"

func checkCLI(run *vk.Run, ks *keyset, c *fcase, kind string, rng *rand.Rand, dir string, ageBin string, idx int) {
	tkind := kind
	if kind == "encids" {
		tkind = "ids" // same text as a plain identities file; only its container differs
	}
	text, lines := ks.build(c, tkind, rng)
	wd := filepath.Join(dir, fmt.Sprintf("c%d", idx))
	os.MkdirAll(wd, 0o755)
	defer os.RemoveAll(wd)
	kf := filepath.Join(wd, "keys.txt")
	os.WriteFile(kf, []byte(text), 0o600)
	s := "cli-" + kind + ":" + sig(c)
	rp := map[string]interface{}{"check": "C18.cli", "kind": kind, "text": text, "classes": sig(c)}
	var p vk.Proc
	if kind == "rcp" {
		p = vk.RunProc(20*time.Second, wd, nil, []byte("hello"), ageBin, "-e", "-R", kf, "-o", filepath.Join(wd, "out.age"))
	} else {
		// a file for the last key the model expects (or key1): decrypts iff that key was really parsed
		target := ks.ids[0]
		if c.Ok {
			target = ks.ids[map[string]int{"key1": 0, "key2": 1, "key3": 2}[c.Keys[len(c.Keys)-1]]]
		}
		var buf bytes.Buffer
		w, err := age.Encrypt(&buf, target.Recipient())
		if err != nil {
			vk.Infra("%v", err)
		}
		w.Write([]byte("hello"))
		w.Close()
		if kind == "encids" {
			// the identities file is itself passphrase-encrypted (age -p): the CLI asks for the passphrase on the
			// terminal (script(1) provides one), decrypts the file and must then treat its lines exactly as above
			sr, err := age.NewScryptRecipient(encPass)
			if err != nil {
				vk.Infra("%v", err)
			}
			sr.SetWorkFactor(10)
			var eb bytes.Buffer
			var sink io.Writer = &eb
			var aw io.WriteCloser
			if idx%2 == 0 {
				aw = armor.NewWriter(&eb)
				sink = aw
			}
			ew, err := age.Encrypt(sink, sr)
			if err != nil {
				vk.Infra("%v", err)
			}
			ew.Write([]byte(text))
			ew.Close()
			if aw != nil {
				aw.Close()
			}
			os.WriteFile(kf, eb.Bytes(), 0o600)
			in := filepath.Join(wd, "in.age")
			os.WriteFile(in, buf.Bytes(), 0o600)
			cmdline := fmt.Sprintf("'%s' -d -i '%s' -o '%s' '%s'", ageBin, kf, filepath.Join(wd, "out.txt"), in)
			p = vk.RunProc(30*time.Second, wd, []string{"TERM=dumb"}, []byte(encPass+"\n"), "script", "-qec", cmdline, "/dev/null")
			if b, err := os.ReadFile(filepath.Join(wd, "out.txt")); err == nil {
				p.Stdout = b
			} else if p.Exit == 0 {
				p.Stdout = nil
			}
			p.Stderr = append(p.Stderr, p.Stdout...)
			if p.Exit == 0 {
				p.Stderr = nil
			}
		} else {
			p = vk.RunProc(20*time.Second, wd, nil, buf.Bytes(), ageBin, "-d", "-i", kf)
		}
	}
	run.Eval(1)
	if p.TimedOut {
		vk.Infra("age timed out on %s", s)
	}
	stderr := string(p.Stderr)
	if c.Ok {
		if p.Exit != 0 {
			run.Violation("C18:valid-file-rejected:"+s, fmt.Sprintf("file %q: exit %d: %s", text, p.Exit, stderr), rp)
			return
		}
		if kind == "ids" || kind == "encids" {
			if string(p.Stdout) != "hello" {
				run.Violation("C18:wrong-keys:"+s, "decryption with the last key of the file failed", rp)
			}
			return
		}
		out, err := os.ReadFile(filepath.Join(wd, "out.age"))
		if err != nil {
			run.Violation("C18:wrong-keys:"+s, "no output", rp)
			return
		}
		hdr, _, err := format.Parse(bytes.NewReader(out))
		if err != nil {
			vk.Infra("cannot parse age output: %v", err)
		}
		var got []string
		for _, st := range hdr.Recipients {
			who := "?"
			for i, id := range ks.ids {
				if _, err := id.Unwrap([]*age.Stanza{(*age.Stanza)(st)}); err == nil {
					who = fmt.Sprintf("key%d", i+1)
				}
			}
			if _, err := ks.sshID.Unwrap([]*age.Stanza{(*age.Stanza)(st)}); err == nil {
				who = "sshkey"
			}
			got = append(got, who)
		}
		if strings.Join(got, " ") != strings.Join(c.Keys, " ") {
			run.Violation("C18:wrong-keys:"+s, fmt.Sprintf("file %q: header stanzas are for %v, want %v", text, got, c.Keys), rp)
		}
		return
	}
	if p.Exit == 0 {
		run.Violation("C18:bad-line-skipped:"+s, fmt.Sprintf("file %q was accepted by the CLI although line %d is not a valid key (0 = no key at all)", text, c.Line), rp)
		return
	}
	if c.Line > 0 && kind != "encids" {
		errPart := stderr
		if i := strings.Index(stderr, "age: error:"); i >= 0 {
			errPart = stderr[i:] // warnings about skipped lines come first and name their own lines
		}
		m := reLine.FindStringSubmatch(errPart)
		if m == nil || m[1] != fmt.Sprint(c.Line) {
			run.Violation("C18:wrong-line-number:"+s, fmt.Sprintf("file %q: stderr %q does not name line %d", text, stderr, c.Line), rp)
			return
		}
	}
	if l := leak(stderr, lines, tkind); l != "" {
		run.Violation("C18:leak:"+s, fmt.Sprintf("stderr %q reproduces %q from the file", stderr, l), rp)
	}
}

func set(xs ...string) string {
	q := make([]string, len(xs))
	for i, x := range xs {
		q[i] = `"` + x + `"`
	}
	return "{" + strings.Join(q, ",") + "}"
}

func cfg(maxLines int, keys, neutral, skip, bad, terms string) string {
	return fmt.Sprintf(`SPECIFICATION Spec
CONSTANTS
 MaxLines = %d
 KeyClasses = %s
 NeutralClasses = %s
 SkipClasses = %s
 BadClasses = %s
 Terms = %s
INVARIANT Emit
CHECK_DEADLOCK FALSE
`, maxLines, keys, neutral, skip, bad, terms)
}

func gen(run *vk.Run, what, c string) []fcase {
	res := run.TLC(what, vk.TLCOpts{Module: "KeyFile", Config: c, Workers: 16})
	if res.Violated != "" || !res.OK {
		vk.Infra("KeyFile %s: specification-level failure: %s\n%s", what, res.Violated, res.Output)
	}
	lines := res.PrintsWithPrefix("CASE ")
	if len(lines) == 0 {
		vk.Infra("KeyFile %s produced no cases", what)
	}
	out := make([]fcase, len(lines))
	for i, l := range lines {
		if err := json.Unmarshal([]byte(l), &out[i]); err != nil {
			vk.Infra("bad CASE: %v", err)
		}
	}
	run.Add("cases_"+what, len(out))
	return out
}

var badAll = []string{"kelvin", "pad_bits", "subst_q", "case_data", "subst1", "truncated", "lead_ws", "trail_ws", "wrong_case", "other_kind", "two_keys", "ws_comment", "ws_only", "cr_only", "key_hash", "key_hash_c", "sep_lost", "sep_gone", "nul", "bom"}

// Run is the C18 check.
func Run(tier string) {
	run := vk.NewRun("C18", tier, "model_checking")
	run.Rule("TLC (KeyFile.tla) enumerates every file of up to MaxLines lines over line classes (valid keys, comment, empty, 16 malformed classes) x terminators (LF, CRLF, none on the last line), checks NothingSkipped/OrderKept/BadLineNamed on the specification and emits the file with the specified result; each file is concretised with seeded keys and parsed by age.ParseIdentities and age.ParseRecipients, and a covering sample by the age binary (-R, -d -i; SSH and unsupported-SSH lines included there). Distinct = class/terminator sequence per parser.")
	run.Assume("a line is what bufio.ScanLines yields (LF-separated, one trailing CR dropped); documented skipping of unsupported SSH key types in CLI recipients files is modelled as class skip")
	rng := rand.New(rand.NewSource(run.Seed))
	ks := mkKeys(rng)
	maxLines := run.Pick(3, 4)
	bad := badAll
	if run.Thorough() {
		bad = badAll[:13]
	}
	cases := gen(run, "lib", cfg(maxLines, set("key1", "key2"), set("comment", "empty"), "{}", set(bad...), set("lf", "crlf", "none")))
	vk.Parallel(len(cases), 16, func(i int) {
		r := rand.New(rand.NewSource(run.Seed*1000003 + int64(i)))
		checkLib(run, ks, &cases[i], "ids", r)
		checkLib(run, ks, &cases[i], "rcp", r)
		run.Distinct("lib:" + sig(&cases[i]))
	})
	run.Sample(map[string]interface{}{"generator": "lib", "classes": sig(&cases[len(cases)/2]), "spec": cases[len(cases)/2]})

	ageBin := filepath.Join(vk.BuildCLI(), "age")
	dir, err := os.MkdirTemp("", "c18-")
	if err != nil {
		vk.Infra("%v", err)
	}
	defer os.RemoveAll(dir)
	// CLI: identities files over the same classes (2 lines exhaustive + stripe of longer ones)
	stride := run.Pick(97, 29)
	var cliCases []int
	for i := range cases {
		if len(cases[i].Lines) <= 1 || (i+int(run.Seed))%stride == 0 {
			cliCases = append(cliCases, i)
		}
	}
	vk.Parallel(len(cliCases), 16, func(j int) {
		i := cliCases[j]
		r := rand.New(rand.NewSource(run.Seed*7919 + int64(i)))
		checkCLI(run, ks, &cases[i], "ids", r, dir, ageBin, i)
		run.Distinct("cli-ids:" + sig(&cases[i]))
	})
	run.Add("cli_identity_files", len(cliCases))
	// the same files, passphrase-encrypted, given to -i (cmd/age's EncryptedIdentity)
	var encPick []int
	for j, i := range cliCases {
		if j%run.Pick(9, 6) == int(run.Seed)%run.Pick(9, 6) {
			encPick = append(encPick, i)
		}
	}
	vk.Parallel(len(encPick), 8, func(j int) {
		i := encPick[j]
		r := rand.New(rand.NewSource(run.Seed*7919 + int64(i)))
		checkCLI(run, ks, &cases[i], "encids", r, dir, ageBin, 2000000+i)
		run.Distinct("cli-encids:" + sig(&cases[i]))
	})
	run.Add("cli_encrypted_identity_files", len(encPick))
	// CLI recipients files with SSH and skipped lines
	rc := gen(run, "clircp", cfg(run.Pick(2, 3), set("key1", "sshkey"), set("comment", "empty", "long_comment", "long_comment_key"), set("skip"), set("subst1", "pad_bits", "subst_q", "lead_ws", "lead_ws_ssh", "trail_ws", "other_kind", "two_keys", "ws_only", "key_hash", "wrong_case"), set("lf", "crlf", "none")))
	var pick []int
	hasCls := func(c *fcase, cls string) bool {
		for _, l := range c.Lines {
			if l.Cls == cls {
				return true
			}
		}
		return false
	}
	for i := range rc {
		// pinned: an indented SSH key next to a key line (alone, the file has no recipient and fails whatever is done with the line)
		if len(rc[i].Lines) <= 1 || (i+int(run.Seed))%run.Pick(7, 5) == 0 || (len(rc[i].Lines) == 2 && hasCls(&rc[i], "lead_ws_ssh") && (hasCls(&rc[i], "key1") || hasCls(&rc[i], "sshkey"))) {
			pick = append(pick, i)
		}
	}
	vk.Parallel(len(pick), 16, func(j int) {
		i := pick[j]
		r := rand.New(rand.NewSource(run.Seed*104729 + int64(i)))
		checkCLI(run, ks, &rc[i], "rcp", r, dir, ageBin, 1000000+i)
		run.Distinct("cli-rcp:" + sig(&rc[i]))
	})
	run.Add("cli_recipient_files", len(pick))
	cliIdentityOrder(run, ks, dir, ageBin)
	cliBigFiles(run, dir, ageBin)
	run.Sample(map[string]interface{}{"generator": "clircp", "classes": sig(&rc[len(rc)/2])})
	if run.Thorough() {
		run.Exhaustive()
	}
	run.Finish()
}

// cliIdentityOrder: the keys of an identities file are used in file order, also across kinds. A plugin identity line
// (its plugin a script that logs its start and finds no file key) stands before or after a native key that opens the
// file: before it, the plugin is consulted first and so gets started; after it, the native key opens the file and the
// plugin never runs.
// cliBigFiles: key files far longer than any read buffer or "small file" limit of the command (22 KiB to 1 MiB): every
// line counts up to the last one, and a malformed line deep in the file is named.
func cliBigFiles(run *vk.Run, dir, ageBin string) {
	wd := filepath.Join(dir, "big")
	os.MkdirAll(wd, 0o755)
	defer os.RemoveAll(wd)
	for _, nkeys := range []int{300, 14000} {
		var ids, rcps strings.Builder
		ids.WriteString("# " + strings.Repeat("header comment ", 9) + "\n")
		rcps.WriteString("# recipients\n")
		var last *age.X25519Identity
		for i := 0; i < nkeys; i++ {
			id, err := age.GenerateX25519Identity()
			if err != nil {
				vk.Infra("%v", err)
			}
			ids.WriteString(id.String() + "\n")
			rcps.WriteString(id.Recipient().String() + "\n")
			last = id
		}
		os.WriteFile(filepath.Join(wd, "ids.txt"), []byte(ids.String()), 0o600)
		os.WriteFile(filepath.Join(wd, "rcps.txt"), []byte(rcps.String()), 0o644)
		var buf bytes.Buffer
		w, _ := age.Encrypt(&buf, last.Recipient())
		w.Write([]byte("hello"))
		w.Close()
		os.WriteFile(filepath.Join(wd, "in.age"), buf.Bytes(), 0o600)
		sig := fmt.Sprintf("cli-big:%d-lines", nkeys)
		// identities: the key that opens the file is the last of the file
		p := vk.RunProc(120*time.Second, wd, nil, []byte{}, ageBin, "-d", "-i", "ids.txt", "in.age")
		run.Eval(1)
		if p.Exit != 0 || string(p.Stdout) != "hello" {
			run.Violation("C18:wrong-keys:"+sig+":identities", fmt.Sprintf("an identities file of %d keys (%d bytes): the last key of the file does not open a file encrypted to it: exit %d, %s", nkeys, ids.Len(), p.Exit, strings.TrimSpace(string(p.Stderr))), nil)
		}
		// recipients: a file encrypted with -R must be for every line, the last included
		os.Remove(filepath.Join(wd, "out.age"))
		p = vk.RunProc(120*time.Second, wd, nil, []byte("hello"), ageBin, "-R", "rcps.txt", "-o", "out.age")
		run.Eval(1)
		out, _ := os.ReadFile(filepath.Join(wd, "out.age"))
		ok := false
		if r, err := age.Decrypt(bytes.NewReader(out), last); err == nil {
			b, err := io.ReadAll(r)
			ok = err == nil && string(b) == "hello"
		}
		if p.Exit != 0 || !ok {
			run.Violation("C18:wrong-keys:"+sig+":recipients", fmt.Sprintf("a recipients file of %d keys: exit %d, the last key of the file can open the result: %v (%s)", nkeys, p.Exit, ok, strings.TrimSpace(string(p.Stderr))), nil)
		}
		// a malformed line near the end is found and named
		lines := strings.Split(strings.TrimSuffix(ids.String(), "\n"), "\n")
		badLine := len(lines) - 3
		lines[badLine-1] = lines[badLine-1][:40]
		os.WriteFile(filepath.Join(wd, "bad.txt"), []byte(strings.Join(lines, "\n")+"\n"), 0o600)
		p = vk.RunProc(120*time.Second, wd, nil, []byte{}, ageBin, "-d", "-i", "bad.txt", "in.age")
		run.Eval(1)
		if p.Exit == 0 {
			run.Violation("C18:bad-line-skipped:"+sig, fmt.Sprintf("an identities file of %d lines whose line %d is a truncated key was accepted", len(lines), badLine), nil)
		} else if !strings.Contains(string(p.Stderr), fmt.Sprintf("line %d", badLine)) {
			run.Violation("C18:wrong-line-number:"+sig, fmt.Sprintf("an identities file whose line %d is a truncated key: the error does not name that line: %s", badLine, strings.TrimSpace(string(p.Stderr))), nil)
		}
		run.Distinct(sig)
	}
}

func cliIdentityOrder(run *vk.Run, ks *keyset, dir, ageBin string) {
	wd := filepath.Join(dir, "order")
	os.MkdirAll(filepath.Join(wd, "bin"), 0o755)
	logf := filepath.Join(wd, "plugin.log")
	script := "#!/bin/sh\necho started >> '" + logf + "'\nwhile IFS= read -r line; do [ \"$line\" = '-> done' ] && break; done\nIFS= read -r blank\nprintf -- '-> done\\n\\n'\n"
	if err := os.WriteFile(filepath.Join(wd, "bin", "age-plugin-order"), []byte(script), 0o755); err != nil {
		vk.Infra("%v", err)
	}
	pluginLine := plugin.EncodeIdentity("order", []byte("data"))
	native := ks.ids[0]
	var buf bytes.Buffer
	w, err := age.Encrypt(&buf, native.Recipient())
	if err != nil {
		vk.Infra("%v", err)
	}
	w.Write([]byte("hello"))
	w.Close()
	os.WriteFile(filepath.Join(wd, "in.age"), buf.Bytes(), 0o600)
	envv := []string{"PATH=" + filepath.Join(wd, "bin") + ":/usr/bin:/bin"}
	for _, c := range []struct {
		name    string
		lines   []string
		started bool
	}{
		{"plugin-then-native", []string{pluginLine, native.String()}, true},
		{"native-then-plugin", []string{native.String(), pluginLine}, false},
		{"comment-plugin-native", []string{"# c", pluginLine, "", native.String()}, true},
	} {
		os.Remove(logf)
		os.WriteFile(filepath.Join(wd, "ids.txt"), []byte(strings.Join(c.lines, "\n")+"\n"), 0o600)
		p := vk.RunProc(30*time.Second, wd, envv, []byte{}, ageBin, "-d", "-i", "ids.txt", "in.age")
		run.Eval(1)
		_, serr := os.Stat(logf)
		started := serr == nil
		sig := "cli-ids-order:" + c.name
		if p.TimedOut {
			vk.Infra("age -d with a plugin identity timed out")
		}
		if p.Exit != 0 || string(p.Stdout) != "hello" {
			run.Violation("C18:wrong-keys:"+sig, fmt.Sprintf("identities file %s: exit %d, output %q, stderr %s", c.name, p.Exit, p.Stdout, p.Stderr), nil)
		} else if started != c.started {
			run.Violation("C18:wrong-keys:"+sig, fmt.Sprintf("identities file %s: the plugin of the plugin identity line was started: %v; in file order it is consulted %s the native key that opens the file", c.name, started, map[bool]string{true: "before", false: "after"}[c.started]), map[string]interface{}{"check": "C18.order", "case": c.name})
		}
		run.Distinct(sig)
	}
}
