package c18

import (
	"encoding/base64"

	"filippo.io/age/internal/bech32"
)

func bech32Encode(hrp string, b []byte) (string, error) { return bech32.Encode(hrp, b) }
func stdB64(b []byte) string                            { return base64.StdEncoding.EncodeToString(b) }
