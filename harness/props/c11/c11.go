// Package c11: recipients with different label sets cannot share a file.
package c11

import (
	"bytes"
	"crypto/rand"
	"errors"
	"fmt"
	"io"
	"os"
	"path/filepath"
	"strings"
	"time"

	"filippo.io/age"
	"filippo.io/age/xverif/internal/coregen"
	"filippo.io/age/xverif/internal/vk"
	"filippo.io/age/xverif/internal/world"
	"filippo.io/age/xverif/props/ageflow"
	"filippo.io/age/xverif/props/c16"
)

// Run is the C11 check.
func Run(tier string) {
	run := vk.NewRun("C11", tier, "model_checking")
	rec := ageflow.Start(run.Pick(30000, 150000)) // every Encrypt/Decrypt below is also replayed through AgeFlow.tla
	run.Rule("TLC (AgeCore.tla, mode labels) enumerates every list of 1..MaxRecips recipients over 12 label declarations (absent, empty, one to three labels in several orders), a failing recipient and a native recipient, checks LabelRule on the model (success iff all label SETS are equal; nothing written on refusal) and emits the expected verdict; each list is built from real custom recipients (nil label slice for absent, non-nil empty slice for empty) and passed to age.Encrypt with a counting destination. Passphrase recipients (fresh random label) are covered with every partner. Distinct = recipient list.")
	run.Assume("a recipient returning the same label twice is not generated (set versus list reading differs)")
	maxR := run.Pick(3, 4)
	cases := coregen.Generate(run, "labels", coregen.Cfg("labels", []string{"x1"}, maxR, 0, "LabelSetsFull", "LabelRule Emit"))
	w := world.New(run.Seed)
	w.Identity("x1")
	vk.Parallel(len(cases), 16, func(i int) {
		c := &cases[i]
		if c.Enc.Why == "ambiguous" {
			return // set reading and list reading of the property differ: no verdict
		}
		var buf bytes.Buffer
		cw := &coregen.CountingWriter{W: &buf}
		wc, err := age.Encrypt(cw, coregen.Recipients(w, c.Rs)...)
		run.Eval(1)
		sig := "rs=" + coregen.RecipSig(c.Rs)
		rp := map[string]interface{}{"check": "C11.labels", "rs": c.Rs}
		if c.Enc.Ok {
			if err != nil {
				run.Violation("C11:compatible-list-refused:"+sig, fmt.Sprintf("all recipients of [%s] declare the same label set, yet Encrypt fails: %v", coregen.RecipSig(c.Rs), err), rp)
			} else {
				wc.Write([]byte("x"))
				if err := wc.Close(); err != nil {
					run.Violation("C11:compatible-list-refused:"+sig, err.Error(), rp)
				}
			}
		} else {
			if err == nil {
				run.Violation("C11:incompatible-list-accepted:"+sig, fmt.Sprintf("Encrypt accepted [%s] (model: %s)", coregen.RecipSig(c.Rs), c.Enc.Why), rp)
			} else if cw.Bytes != 0 || cw.Calls != 0 {
				run.Violation("C11:bytes-written-on-refusal:"+sig, fmt.Sprintf("refusing [%s] (%v) after %d bytes in %d writes reached the destination", coregen.RecipSig(c.Rs), err, cw.Bytes, cw.Calls), rp)
			}
		}
		run.Distinct(sig)
	})
	run.Add("recipient_lists", len(cases))
	c := cases[len(cases)/2]
	run.Sample(map[string]interface{}{"rs": coregen.RecipSig(c.Rs), "model": c.Enc})
	// passphrase recipients: their label is random, so they are compatible with nothing, not even each other
	sr := func() age.Recipient { r, _ := age.NewScryptRecipient("pw"); r.SetWorkFactor(2); return r }
	partners := map[string]func() age.Recipient{
		"x1":        func() age.Recipient { return w.Recipient("x1") },
		"scrypt":    sr,
		"L(absent)": func() age.Recipient { return world.LabelledRecipient{} },
		"L()":       func() age.Recipient { return world.LabelledRecipient{Present: true} },
		"L(a)":      func() age.Recipient { return world.LabelledRecipient{Present: true, Labels: []string{"a"}} },
	}
	for name, mk := range partners {
		for _, order := range [][]age.Recipient{{sr(), mk()}, {mk(), sr()}, {mk(), sr(), mk()}, {sr(), mk(), sr()}} {
			cw := &coregen.CountingWriter{}
			_, err := age.Encrypt(cw, order...)
			run.Eval(1)
			if err == nil || cw.Bytes != 0 {
				run.Violation("C11:passphrase-shares-file:"+name, fmt.Sprintf("a passphrase recipient together with %s: err=%v, %d bytes written", name, err, cw.Bytes), nil)
			}
		}
		run.Distinct("scrypt+" + name)
	}
	pluginFailures(run, w)
	cliLabels(run, w)
	zeroStanzaRecipients(run, w)
	largeHeaderRefusals(run, w)
	randFaults(run, w)
	if run.Thorough() {
		run.Exhaustive()
	}
	ageflow.Validate(run, "own-cases", rec.Stop())
	ageflow.RepoSuite(run)
	run.Finish()
}

// failingRand fails its n-th Read (1-based) and passes the others through.
type failingRand struct {
	inner io.Reader
	n     int
	calls int
	Fired bool
}

func (f *failingRand) Read(p []byte) (int, error) {
	f.calls++
	if f.calls == f.n {
		f.Fired = true
		return 0, errors.New("injected CSPRNG failure")
	}
	return f.inner.Read(p)
}

// randFaults: the CSPRNG fails at the k-th draw of Encrypt (a recipient then fails to wrap, or the file key or nonce cannot
// be drawn): Encrypt must refuse with nothing written, or the file must be complete and decryptable.
func randFaults(run *vk.Run, w *world.World) {
	lists := map[string]func() ([]age.Recipient, age.Identity){
		"x1": func() ([]age.Recipient, age.Identity) { return []age.Recipient{w.Recipient("x1")}, w.Identity("x1") },
		"x1,x1": func() ([]age.Recipient, age.Identity) {
			return []age.Recipient{w.Recipient("x1"), w.Recipient("x1")}, w.Identity("x1")
		},
		"scrypt": func() ([]age.Recipient, age.Identity) {
			r, _ := age.NewScryptRecipient("pw-c11")
			r.SetWorkFactor(2)
			i, _ := age.NewScryptIdentity("pw-c11")
			return []age.Recipient{r}, i
		},
		"e1,x1": func() ([]age.Recipient, age.Identity) {
			return []age.Recipient{w.Recipient("e1"), w.Recipient("x1")}, w.Identity("e1")
		},
	}
	saved := rand.Reader
	defer func() { rand.Reader = saved }()
	// draws 1..last[name] are the file key and the recipients' own draws (DrawPlan of AgeFormat.tla); the draw after them is
	// the payload nonce, made after the header is written: its failure is not a refusal of the recipient list
	last := map[string]int{"x1": 2, "x1,x1": 3, "scrypt": 3, "e1,x1": 3}
	for name, mk := range lists {
		for k := 1; k <= last[name]; k++ {
			rs, id := mk()
			fr := &failingRand{inner: saved, n: k}
			var buf bytes.Buffer
			cw := &coregen.CountingWriter{W: &buf}
			var wc io.WriteCloser
			var err error
			var pan interface{}
			func() {
				defer func() { pan = recover() }()
				rand.Reader = fr
				defer func() { rand.Reader = saved }()
				wc, err = age.Encrypt(cw, rs...)
			}()
			run.Eval(1)
			if pan != nil || !fr.Fired {
				continue // this toolchain aborts on CSPRNG failure, or the list draws fewer values
			}
			sig := fmt.Sprintf("randfault/%s/draw%d", name, k)
			if err != nil {
				if cw.Bytes != 0 {
					run.Violation("C11:bytes-written-on-refusal:"+sig, fmt.Sprintf("recipients [%s], CSPRNG failing at draw %d: Encrypt refused (%v) after writing %d bytes", name, k, err, cw.Bytes), nil)
				}
			} else {
				wc.Write([]byte("x"))
				wc.Close()
				r, derr := age.Decrypt(bytes.NewReader(buf.Bytes()), id)
				if derr != nil || r == nil {
					run.Violation("C11:wrap-failure-not-refused:"+sig, fmt.Sprintf("recipients [%s], CSPRNG failing at draw %d (a recipient could not wrap the file key): Encrypt did not refuse and wrote %d bytes that do not decrypt (%v)", name, k, cw.Bytes, derr), nil)
				}
			}
			run.Distinct(sig)
		}
	}
}

// pluginFailures: a plugin recipient whose plugin reports an error - alone, or after it has already sent a stanza - has
// failed to wrap the file key: Encrypt refuses the list, wherever the plugin recipient stands, with nothing written.
func pluginFailures(run *vk.Run, w *world.World) {
	dir := c16.Setup()
	// (a plugin that goes away after a stanza, before "labels"/"done", has not finished wrapping either)
	for _, script := range [][]string{{"error"}, {"rs_ok", "error"}, {"rs_ok2", "error"}, {"error", "rs_ok", "done"}, {"rs_ok", "eof"}, {"rs_ok", "rs_ok2", "eof"}, {"rs_ok", "trunc"}} {
		for pos := 0; pos < 3; pos++ {
			pr, err := c16.ScriptedRecipient(dir, script)
			if err != nil {
				vk.Infra("scripted plugin recipient: %v", err)
			}
			var rs []age.Recipient
			switch pos {
			case 0:
				rs = []age.Recipient{pr}
			case 1:
				rs = []age.Recipient{w.Recipient("x1"), pr}
			default:
				rs = []age.Recipient{pr, w.Recipient("x1")}
			}
			cw := &coregen.CountingWriter{}
			done := make(chan error, 1)
			go func() { _, err := age.Encrypt(cw, rs...); done <- err }()
			var eerr error
			select {
			case eerr = <-done:
			case <-time.After(30 * time.Second):
				vk.Infra("Encrypt to a scripted plugin recipient did not return")
			}
			run.Eval(1)
			sig := fmt.Sprintf("plugin:%s/pos=%d", strings.Join(script, "."), pos)
			rp := map[string]interface{}{"check": "C11.plugin", "script": script, "pos": pos}
			if eerr == nil {
				run.Violation("C11:failed-wrap-accepted:"+sig, fmt.Sprintf("the plugin of a recipient reported an error (script %v) and Encrypt went ahead", script), rp)
			} else if cw.Bytes != 0 || cw.Calls != 0 {
				run.Violation("C11:bytes-written-on-refusal:"+sig, fmt.Sprintf("refusal (%v) after %d bytes reached the destination", eerr, cw.Bytes), rp)
			}
			run.Distinct(sig)
		}
	}
}

// cliLabels: the rule through the age command, where recipients come from -r and from -R files: a plugin recipient that
// declares labels (scripted plugin) cannot share a file with a native recipient, wherever each of them is named, and two
// recipients declaring the same labels can, wherever each of them is named.
func cliLabels(run *vk.Run, w *world.World) {
	dir := c16.Setup()
	ageBin := filepath.Join(vk.BuildCLI(), "age")
	root, err := os.MkdirTemp("", "c11cli-")
	if err != nil {
		vk.Infra("%v", err)
	}
	defer os.RemoveAll(root)
	lab := func(l string) string {
		s, err := c16.ScriptedRecipientString(dir, []string{"rs_ok", l, "done"})
		if err != nil {
			vk.Infra("%v", err)
		}
		return s
	}
	x := w.Recipient("x1").(fmt.Stringer).String()
	type src struct {
		how, val string // how: "r" (-r VALUE) or "R" (a recipients file holding VALUE)
	}
	type cmd struct {
		name string
		rs   []src
		ok   bool
	}
	cmds := []cmd{
		{"labelled-in-file+native-in-file", []src{{"R", lab("labels_ab") + "\n" + x}}, false},
		{"native-in-file+labelled-in-file", []src{{"R", x + "\n" + lab("labels_ab")}}, false},
		{"labelled-in-file+native-r", []src{{"R", lab("labels_ab")}, {"r", x}}, false},
		{"native-r+labelled-in-file", []src{{"r", x}, {"R", lab("labels_ab")}}, false},
		{"labelled-r+native-in-file", []src{{"r", lab("labels_ab")}, {"R", x}}, false},
		{"labelled-r+native-r", []src{{"r", lab("labels_ab")}, {"r", x}}, false},
		{"labelled-in-file+other-labels-in-file", []src{{"R", lab("labels_ab")}, {"R", lab("labels0")}}, false},
		{"labelled-r+same-labels-in-file", []src{{"r", lab("labels_ab")}, {"R", lab("labels_ba")}}, true},
		{"labelled-in-file+same-labels-r", []src{{"R", lab("labels_ba")}, {"r", lab("labels_ab")}}, true},
		{"labelled-in-file+same-labels-in-file", []src{{"R", lab("labels_ab") + "\n" + lab("labels_ab")}}, true},
		{"labelled-in-file-alone", []src{{"R", lab("labels_ab")}}, true},
		{"labelled-r-alone", []src{{"r", lab("labels_ab")}}, true},
		{"unlabelled-plugin-in-file+native-r", []src{{"R", lab("unknown")}, {"r", x}}, true},
	}
	vk.Parallel(len(cmds), 8, func(i int) {
		c := cmds[i]
		wd := filepath.Join(root, fmt.Sprint(i))
		os.MkdirAll(wd, 0o755)
		os.WriteFile(filepath.Join(wd, "in"), []byte("labels on the command line"), 0o600)
		var args []string
		for k, s := range c.rs {
			if s.how == "r" {
				args = append(args, "-r", s.val)
			} else {
				name := fmt.Sprintf("rcp%d.txt", k)
				os.WriteFile(filepath.Join(wd, name), []byte("# recipients\n"+s.val+"\n"), 0o644)
				args = append(args, "-R", name)
			}
		}
		args = append(args, "-o", "out", "in")
		p := vk.RunProc(60*time.Second, wd, nil, []byte{}, ageBin, args...)
		run.Eval(1)
		_, oerr := os.Stat(filepath.Join(wd, "out"))
		sig := "cli:" + c.name
		rp := map[string]interface{}{"check": "C11.cli", "case": c.name}
		if p.TimedOut {
			vk.Infra("age did not finish on %s", c.name)
		}
		switch {
		case !c.ok && p.Exit == 0:
			run.Violation("C11:incompatible-list-accepted:"+sig, fmt.Sprintf("age %s: recipients with different label sets shared a file (exit 0)", c.name), rp)
		case !c.ok && oerr == nil:
			run.Violation("C11:bytes-written-on-refusal:"+sig, fmt.Sprintf("age %s: refused (exit %d) yet the output file exists", c.name, p.Exit), rp)
		case c.ok && p.Exit != 0:
			run.Violation("C11:compatible-list-refused:"+sig, fmt.Sprintf("age %s: recipients with equal label sets were refused: %s", c.name, strings.TrimSpace(string(p.Stderr))), rp)
		}
		run.Distinct(sig)
	})
	run.Add("cli_label_commands", len(cmds))
}

// bigStanza is a recipient whose stanza body has n bytes (a plugin may carry that much) and which declares no labels.
type bigStanza struct{ n int }

func (b bigStanza) Wrap(fileKey []byte) ([]*age.Stanza, error) {
	return []*age.Stanza{{Type: "big", Args: []string{"a"}, Body: bytes.Repeat([]byte{0x5a}, b.n)}}, nil
}

// failingRecipient cannot wrap.
type failingRecipient struct{}

func (failingRecipient) Wrap([]byte) ([]*age.Stanza, error) { return nil, errors.New("cannot wrap") }

// largeHeaderRefusals: "not a single byte" holds however much header was already assembled when the list is refused:
// the refusing recipient (incompatible labels, or a wrap failure) comes after 1..100 native recipients or after a stanza
// with a body of up to 70000 bytes - more than any internal buffer that could have been flushed by then.
func largeHeaderRefusals(run *vk.Run, w *world.World) {
	bad := map[string]func() age.Recipient{
		"labels": func() age.Recipient { return world.LabelledRecipient{Present: true, Labels: []string{"postquantum"}} },
		"fails":  func() age.Recipient { return failingRecipient{} },
	}
	for name, mk := range bad {
		for _, k := range []int{1, 41, 42, 43, 90, 200} {
			var rs []age.Recipient
			for i := 0; i < k; i++ {
				rs = append(rs, w.Recipient("x1"))
			}
			rs = append(rs, mk())
			cw := &coregen.CountingWriter{}
			_, err := age.Encrypt(cw, rs...)
			run.Eval(1)
			sig := fmt.Sprintf("large-header/%s/after-%d-native", name, k)
			if err == nil {
				run.Violation("C11:incompatible-list-accepted:"+sig, "Encrypt went ahead", nil)
			} else if cw.Bytes != 0 || cw.Calls != 0 {
				run.Violation("C11:bytes-written-on-refusal:"+sig, fmt.Sprintf("refusal (%v) after %d native recipients left %d bytes in the destination", err, k, cw.Bytes), map[string]interface{}{"check": "C11.largeheader", "bad": name, "native": k})
			}
			run.Distinct(sig)
		}
		for _, n := range []int{16, 3000, 4096, 5000, 70000} {
			cw := &coregen.CountingWriter{}
			_, err := age.Encrypt(cw, bigStanza{n}, mk())
			run.Eval(1)
			sig := fmt.Sprintf("large-header/%s/after-%d-byte-body", name, n)
			if err == nil {
				run.Violation("C11:incompatible-list-accepted:"+sig, "Encrypt went ahead", nil)
			} else if cw.Bytes != 0 || cw.Calls != 0 {
				run.Violation("C11:bytes-written-on-refusal:"+sig, fmt.Sprintf("refusal (%v) after a %d-byte stanza body left %d bytes in the destination", err, n, cw.Bytes), map[string]interface{}{"check": "C11.largeheader", "bad": name, "body": n})
			}
			run.Distinct(sig)
		}
	}
}

// noStanza declares labels and contributes no stanza at all (legal: Wrap may return an empty list).
type noStanza struct{ labels []string }

func (n noStanza) WrapWithLabels(fileKey []byte) ([]*age.Stanza, []string, error) {
	return nil, n.labels, nil
}
func (n noStanza) Wrap(fileKey []byte) ([]*age.Stanza, error) { return nil, nil }

// zeroStanzaRecipients: the label rule compares what recipients DECLARE, whether or not they put a stanza into the
// header; a recipient without stanzas at the front of the list is still the first recipient.
func zeroStanzaRecipients(run *vk.Run, w *world.World) {
	L := func(ls ...string) age.Recipient { return world.LabelledRecipient{Present: true, Labels: ls} }
	cases := []struct {
		name string
		rs   []age.Recipient
		ok   bool
	}{
		{"Z(a),L(b)", []age.Recipient{noStanza{[]string{"a"}}, L("b")}, false},
		{"Z(pq),x1", []age.Recipient{noStanza{[]string{"postquantum"}}, w.Recipient("x1")}, false},
		{"Z(a),Z(b),L(b)", []age.Recipient{noStanza{[]string{"a"}}, noStanza{[]string{"b"}}, L("b")}, false},
		{"x1,Z(a)", []age.Recipient{w.Recipient("x1"), noStanza{[]string{"a"}}}, false},
		{"Z(a),L(a)", []age.Recipient{noStanza{[]string{"a"}}, L("a")}, true},
		{"Z(),x1", []age.Recipient{noStanza{nil}, w.Recipient("x1")}, true},
	}
	for _, c := range cases {
		cw := &coregen.CountingWriter{}
		_, err := age.Encrypt(cw, c.rs...)
		run.Eval(1)
		sig := "zero-stanza:" + c.name
		if c.ok && err != nil {
			run.Violation("C11:compatible-list-refused:"+sig, err.Error(), nil)
		}
		if !c.ok && err == nil {
			run.Violation("C11:incompatible-list-accepted:"+sig, fmt.Sprintf("Encrypt accepted [%s] (Z = a recipient that declares labels and adds no stanza) and wrote %d bytes", c.name, cw.Bytes), map[string]interface{}{"check": "C11.zerostanza", "list": c.name})
		} else if !c.ok && (cw.Bytes != 0 || cw.Calls != 0) {
			run.Violation("C11:bytes-written-on-refusal:"+sig, fmt.Sprintf("%d bytes written", cw.Bytes), nil)
		}
		run.Distinct(sig)
	}
}
