// Package c01: every listed recipient decrypts to the exact plaintext (and C04: identities that match no
// recipient never obtain plaintext). Configurations come from spec/AgeCore.tla (mode "roundtrip").
package c01

import (
	"bytes"
	"errors"
	"fmt"
	"io"
	"math/rand"
	"strings"

	"filippo.io/age"
	"filippo.io/age/armor"
	"filippo.io/age/xverif/internal/coregen"
	"filippo.io/age/xverif/internal/rd"
	"filippo.io/age/xverif/internal/strm"
	"filippo.io/age/xverif/internal/vk"
	"filippo.io/age/xverif/internal/world"
	"filippo.io/age/xverif/props/ageflow"
	"filippo.io/age/xverif/props/c19"
)

var lengths = []int{0, 1, 65535, 65536, 65537, 131072, 131073, 196609, 5, 70000}

// armoredLenAdjust returns plaintext lengths that make the whole binary file length hit 0, 1, 47 mod 48.
func writePolicy(w io.Writer, pt []byte, pol int) error {
	switch pol % 6 {
	case 4:
		return strm.WriteScribbling(w, pt, 65536)
	case 5:
		return strm.WriteScribbling(w, pt, []int{131072, 70000, 32768}[pol/6%3])
	case 0:
		_, err := w.Write(pt)
		return err
	case 1:
		_, err := io.Copy(w, struct{ io.Reader }{bytes.NewReader(pt)})
		return err
	case 2:
		for off := 0; off < len(pt); off += 65536 {
			e := off + 65536
			if e > len(pt) {
				e = len(pt)
			}
			if _, err := w.Write(pt[off:e]); err != nil {
				return err
			}
		}
		return nil
	default:
		_, err := io.Copy(w, bytes.NewReader(pt))
		return err
	}
}

// RunCase executes one roundtrip configuration. which: "C01" evaluates opener cases, "C04" no-match cases.
func RunCase(run *vk.Run, w *world.World, c *coregen.Case, n int, armored bool, pol int, which string, pt []byte) {
	sig := fmt.Sprintf("rs=%s/ids=%s", coregen.RecipSig(c.Rs), strings.Join(c.Ids, ","))
	rp := map[string]interface{}{"check": which + ".roundtrip", "rs": c.Rs, "ids": c.Ids, "n": n, "armored": armored, "seed": run.Seed}
	var buf bytes.Buffer
	cw := &coregen.CountingWriter{W: &buf}
	var sink io.Writer = cw
	var aw io.WriteCloser
	if armored {
		aw = armor.NewWriter(cw)
		sink = aw
	}
	wc, err := age.Encrypt(sink, coregen.Recipients(w, c.Rs)...)
	run.Eval(1)
	if !c.Enc.Ok {
		if which != "C01" {
			return
		}
		if err == nil {
			run.Violation("C01:refused-list-accepted:"+coregen.RecipSig(c.Rs), fmt.Sprintf("Encrypt accepted the recipient list %s which the model refuses (%s)", coregen.RecipSig(c.Rs), c.Enc.Why), rp)
		} else if cw.Bytes != 0 {
			run.Violation("C01:bytes-written-on-refusal:"+coregen.RecipSig(c.Rs), fmt.Sprintf("%d bytes written before refusing %s", cw.Bytes, coregen.RecipSig(c.Rs)), rp)
		}
		return
	}
	if err != nil {
		if which == "C01" {
			run.Violation("C01:encrypt-failed:"+coregen.RecipSig(c.Rs), fmt.Sprintf("Encrypt(%s): %v", coregen.RecipSig(c.Rs), err), rp)
		}
		return
	}
	if err := writePolicy(wc, pt[:n], pol); err != nil {
		run.Violation("C01:write-failed:"+sig, err.Error(), rp)
		return
	}
	if err := wc.Close(); err != nil {
		run.Violation("C01:close-failed:"+sig, err.Error(), rp)
		return
	}
	if aw != nil {
		aw.Close()
	}
	ids, log := coregen.Identities(w, c.Ids)
	// the ciphertext reaches Decrypt through one of several kinds of source (plain, buffered with small and large
	// buffers, one byte at a time, data together with EOF, ...), chosen independently of the other dimensions
	srcKind := rd.SourceKinds[(pol*5+n/3+len(c.Ids)+len(c.Rs)*3)%len(rd.SourceKinds)]
	var in io.Reader = rd.New(srcKind, buf.Bytes())
	if armored {
		in = armor.NewReader(in)
	}
	given := append([]age.Identity(nil), ids...)
	var r io.Reader
	var derr error
	var pan interface{}
	func() {
		defer func() { pan = recover() }()
		r, derr = age.Decrypt(in, ids...)
	}()
	run.Eval(1)
	if pan != nil {
		run.Violation(which+":decrypt-panics:"+sig, fmt.Sprintf("Decrypt of a file for [%s] with identities [%s] panicked: %v", coregen.RecipSig(c.Rs), strings.Join(c.Ids, ","), pan), rp)
		return
	}
	for i := range given {
		// the caller's list is the caller's: a Decrypt that reorders it changes the order of consultation of the next call
		if !world.SameIdentity(ids[i], given[i]) {
			run.Violation(which+":identity-list-modified:"+sig, fmt.Sprintf("after Decrypt the caller's identity slice [%s] has a different order", strings.Join(c.Ids, ",")), rp)
			break
		}
	}
	if c.Opener > 0 {
		if which != "C01" {
			return
		}
		if derr != nil || r == nil {
			run.Violation("C01:listed-recipient-cannot-decrypt:"+sig, fmt.Sprintf("file for [%s] (%d bytes, armor=%v) with identities [%s]: %v", coregen.RecipSig(c.Rs), n, armored, strings.Join(c.Ids, ","), derr), rp)
			return
		}
		// the plaintext is taken in one of a dozen caller styles (ReadAll, io.Copy, a peek then io.Copy, buffers
		// below and above a chunk, a growing bytes.Buffer, ...), a permutation of the write policy shifted by the lists
		readPol := strm.BulkPolicies[(pol*5+len(c.Ids)+len(c.Rs))%len(strm.BulkPolicies)]
		rp["read"] = readPol
		res := strm.Drain(r, readPol)
		if res.Panic != nil {
			run.Violation("C01:wrong-plaintext:"+sig, fmt.Sprintf("reading the plaintext as %q panicked: %v", readPol, res.Panic), rp)
			return
		}
		if res.Err != io.EOF || !bytes.Equal(res.Data, pt[:n]) {
			run.Violation("C01:wrong-plaintext:"+sig, fmt.Sprintf("decrypted %d of %d bytes (read as %q), ending %v", len(res.Data), n, readPol, res.Err), rp)
			return
		}
		want := make([]string, c.Opener)
		for i := 0; i < c.Opener; i++ {
			want[i] = fmt.Sprintf("%d:%s", i+1, c.Ids[i])
		}
		if strings.Join(*log, " ") != strings.Join(want, " ") {
			run.Violation("C01:identity-order:"+sig, fmt.Sprintf("identities consulted: %v; expected exactly %v (in order, none after the first that opens)", *log, want), rp)
		}
		return
	}
	// no identity corresponds to a recipient
	if which != "C04" {
		return
	}
	if derr == nil || r != nil {
		got := 0
		if r != nil {
			func() {
				defer func() { recover() }() // a reader that is a nil pointer in disguise crashes when used
				b, _ := io.ReadAll(r)
				got = len(b)
			}()
		}
		run.Violation("C04:reader-without-matching-identity:"+sig, fmt.Sprintf("file for [%s], identities [%s] (none listed): Decrypt returned a reader (err=%v), %d plaintext bytes readable", coregen.RecipSig(c.Rs), strings.Join(c.Ids, ","), derr, got), rp)
		return
	}
	native := true
	for _, id := range c.Ids {
		if t := world.Type(id); t != "X25519" && t != "scrypt" {
			native = false
		}
	}
	// a passphrase identity refuses multi-stanza headers containing an scrypt stanza outright; not reachable here
	if native {
		var nm *age.NoIdentityMatchError
		if !errors.As(derr, &nm) {
			run.Violation("C04:not-the-no-match-error:"+sig, fmt.Sprintf("error is %T: %v", derr, derr), rp)
			return
		}
		if len(nm.Errors) != len(c.Ids) {
			run.Violation("C04:no-match-causes:"+sig, fmt.Sprintf("%d causes collected for %d identities", len(nm.Errors), len(c.Ids)), rp)
			return
		}
		for _, e := range nm.Errors {
			if !errors.Is(e, age.ErrIncorrectIdentity) {
				run.Violation("C04:no-match-causes:"+sig, fmt.Sprintf("cause %v does not indicate an incorrect identity", e), rp)
				return
			}
		}
		if len(*log) != len(c.Ids) {
			run.Violation("C04:not-all-tried:"+sig, fmt.Sprintf("consulted %v", *log), rp)
		}
	}
}

func keysFor(tier string) []string {
	if tier == "thorough" {
		return []string{"x1", "x2", "e1", "e2", "r1", "r2", "s1", "s2"}
	}
	return []string{"x1", "x2", "e1", "e2", "r1", "s1"}
}

func runBoth(which, tier string) {
	run := vk.NewRun(which, tier, "model_checking")
	run.Rule("TLC (AgeCore.tla, mode roundtrip) enumerates every recipient list (key recipients of all four types, duplicates, a custom recipient emitting an unknown stanza type; all orders) up to MaxRecips and every identity list up to MaxIds, checks EveryRecipientOpens / NoMatchNoReader / ScryptAloneEnc on the symbolic model and emits each configuration with the expected opener and number of identities consulted; each is executed with real keys through age.Encrypt/age.Decrypt at plaintext lengths 0,1,64KiB±1,128KiB(+1),192KiB+1 (rotating, all lengths in thorough), armor on/off, several write policies, with recording identity wrappers. Distinct = (recipient list, identity list).")
	run.Assume("perfect cryptography in the symbolic model; real keys are generated per run from VERIF_SEED (RSA keys per process)")
	maxR, maxI := 3, 2
	if run.Thorough() {
		maxR, maxI = 3, 3
	}
	cases := coregen.Generate(run, "roundtrip", coregen.Cfg("roundtrip", keysFor(tier), maxR, maxI, "LabelSetsNone", coregen.AllInvs))
	if run.Thorough() {
		// C01 asks for counts 1..n: a deeper run over fewer keys
		cases = append(cases, coregen.Generate(run, "roundtrip-deep", coregen.Cfg("roundtrip", []string{"x1", "x2", "e1", "r1"}, 4, 2, "LabelSetsNone", coregen.AllInvs))...)
	}
	w := world.New(run.Seed)
	pt := make([]byte, 200000)
	rand.New(rand.NewSource(run.Seed)).Read(pt)
	// warm the key caches sequentially
	for _, k := range keysFor(tier) {
		w.Identity(k)
		w.Recipient(k)
	}
	// every Encrypt/Decrypt below is also recorded step by step (flow hooks) and replayed through AgeFlow.tla
	ageflow.MachineMustHold(run)
	rec := ageflow.Start(run.Pick(30000, 150000))
	nsel := 0
	vk.Parallel(len(cases), 16, func(i int) {
		c := &cases[i]
		if (which == "C01") == (c.Opener == 0 && c.Enc.Ok) {
			return // C01 takes opener and refused cases, C04 the no-match cases
		}
		lens := []int{lengths[(i+int(run.Seed))%len(lengths)]}
		if run.Thorough() && i%7 == 0 {
			lens = lengths
		}
		for li, n := range lens {
			// length, write/read policy and armor are decorrelated (mixed radix over the case index), so that every
			// length meets every policy: with pol = i the 64 KiB multiples only ever met Write-based policies
			k := i + li*len(cases)
			pol := (k/len(lengths) + li) % 12
			RunCase(run, w, c, n, (k/(12*len(lengths))+li)%3 == 0 || (k%11 == 0), pol, which, pt)
		}
		run.Distinct(fmt.Sprintf("rs=%s/ids=%s", coregen.RecipSig(c.Rs), strings.Join(c.Ids, ",")))
	})
	ageflow.Validate(run, "own-cases", rec.Stop())
	ageflow.RepoSuite(run)
	for i := range cases {
		c := &cases[i]
		if (which == "C01") != (c.Opener == 0 && c.Enc.Ok) {
			nsel++
		}
	}
	run.Add("configurations", nsel)
	c := cases[len(cases)/2]
	run.Sample(map[string]interface{}{"rs": coregen.RecipSig(c.Rs), "ids": c.Ids, "model_result": c.Res, "opener": c.Opener})
	if which == "C01" {
		consumerStyles(run, w, pt)
		armorAlignment(run, w, pt)
		workFactorBoundary(run)
		passphraseRoundTrips(run)
		c19.OpensWhenAddressed(run)
	} else {
		nearMisses(run, w, pt)
	}
	run.Finish()
}

// consumerStyles: every caller style of taking the plaintext at every chunk-boundary length, binary and armored.
func consumerStyles(run *vk.Run, w *world.World, pt []byte) {
	type job struct {
		n       int
		armored bool
	}
	var jobs []job
	for _, n := range []int{0, 1, 600, 65535, 65536, 65537, 131072, 196608} {
		jobs = append(jobs, job{n, false}, job{n, true})
	}
	vk.Parallel(len(jobs), 8, func(i int) {
		j := jobs[i]
		var buf bytes.Buffer
		var sink io.Writer = &buf
		var aw io.WriteCloser
		if j.armored {
			aw = armor.NewWriter(&buf)
			sink = aw
		}
		wc, err := age.Encrypt(sink, w.Recipient("x1"))
		if err != nil {
			vk.Infra("consumerStyles: %v", err)
		}
		wc.Write(pt[:j.n])
		wc.Close()
		if aw != nil {
			aw.Close()
		}
		for _, pol := range strm.BulkPolicies {
			var in io.Reader = bytes.NewReader(buf.Bytes())
			if j.armored {
				in = armor.NewReader(in)
			}
			r, err := age.Decrypt(in, w.Identity("x1"))
			run.Eval(1)
			sig := fmt.Sprintf("consumer:%s/n=%d/armor=%v", pol, j.n, j.armored)
			rp := map[string]interface{}{"check": "C01.consumer", "n": j.n, "armored": j.armored, "read": pol, "seed": run.Seed}
			if err != nil {
				run.Violation("C01:listed-recipient-cannot-decrypt:"+sig, err.Error(), rp)
				continue
			}
			res := strm.Drain(r, pol)
			if res.Panic != nil || res.Err != io.EOF || !bytes.Equal(res.Data, pt[:j.n]) {
				run.Violation("C01:wrong-plaintext:"+sig, fmt.Sprintf("a %d-byte file read as %q gives %d bytes ending %v (panic: %v)", j.n, pol, len(res.Data), res.Err, res.Panic), rp)
			}
			run.Distinct(sig)
		}
	})
}

// armorAlignment: whole-file lengths of 0, 1, 47 mod 48 through the armor, and every plaintext length 0..130.
func armorAlignment(run *vk.Run, w *world.World, pt []byte) {
	c := coregen.Case{Rs: []coregen.Recip{{K: "K", Key: "x1"}}, Ids: []string{"x1"}, Opener: 1}
	c.Enc.Ok = true
	for n := 0; n <= 130; n++ {
		RunCase(run, w, &c, n, true, n, "C01", pt)
		run.Distinct(fmt.Sprintf("armor-align:%d", n))
	}
	for _, base := range []int{65536, 131072} {
		for d := -50; d <= 50; d++ {
			RunCase(run, w, &c, base+d, true, d+50, "C01", pt)
		}
		run.Distinct(fmt.Sprintf("armor-align:%d", base))
	}
}

// RunC01 / RunC04 are the check entry points.
func RunC01(tier string) { runBoth("C01", tier) }
func RunC04(tier string) { runBoth("C04", tier) }

// workFactorBoundary: a passphrase file is opened by the passphrase identity whenever its work factor is within the
// identity's configured maximum, the maximum itself included (C10 checks the refusals above it; a refusal at or
// below it would be recorded there only as drift, so the positive side is judged here).
func workFactorBoundary(run *vk.Run) {
	msg := []byte("work factor boundary")
	for _, wf := range []int{1, 3, 10} {
		sr, err := age.NewScryptRecipient("boundary passphrase")
		if err != nil {
			vk.Infra("%v", err)
		}
		sr.SetWorkFactor(wf)
		file, err := encryptTo(sr, msg)
		if err != nil {
			vk.Infra("%v", err)
		}
		for _, max := range []int{wf, wf + 1, 22, 0} {
			id, _ := age.NewScryptIdentity("boundary passphrase")
			if max > 0 {
				id.SetMaxWorkFactor(max)
			}
			r, err := age.Decrypt(bytes.NewReader(file), id)
			var got []byte
			if err == nil {
				got, err = io.ReadAll(r)
			}
			run.Eval(1)
			run.Distinct(fmt.Sprintf("wf-boundary:%d/%d", wf, max))
			if err != nil || !bytes.Equal(got, msg) {
				run.Violation(fmt.Sprintf("C01:listed-recipient-cannot-decrypt:scrypt-wf=%d/max=%d", wf, max),
					fmt.Sprintf("a passphrase file with work factor %d is not opened by the passphrase identity with maximum %d (0 = default): %v", wf, max, err),
					map[string]interface{}{"check": "C01.wfboundary", "wf": wf, "max": max})
			}
		}
	}
}

// passphraseRoundTrips: a passphrase is a byte string. Whatever it looks like - line terminators or blanks at either end,
// only a line terminator, invalid UTF-8, longer than any fixed buffer - the identity made from the same string opens
// the file, and it does so again on a second file (the identity value is not used up by a call).
func passphraseRoundTrips(run *vk.Run) {
	long := strings.Repeat("correct horse battery staple ", 9)
	for i, pw := range []string{"typed with its newline\n", "pasted\r\n", "trailing blank ", " leading blank", "\n", "\r", " ", "caf\xe9", "\xff\xfe\xfd", "caf\u00e9", long, long[:128], long[:129], long[:64], long[:65], "tab\tinside", "x"} {
		id, err := age.NewScryptIdentity(pw)
		if err != nil {
			continue // refusing a passphrase outright (on both sides) is not this property's business
		}
		for round := 0; round < 2; round++ {
			msg := []byte(fmt.Sprintf("passphrase round trip %d/%d", i, round))
			sr, err := age.NewScryptRecipient(pw)
			if err != nil {
				run.Violation(fmt.Sprintf("C01:listed-recipient-cannot-decrypt:passphrase-%d", i), fmt.Sprintf("passphrase %q is accepted by NewScryptIdentity and refused by NewScryptRecipient: %v", pw, err), nil)
				break
			}
			sr.SetWorkFactor(2 + round)
			file, err := encryptTo(sr, msg)
			if err != nil {
				vk.Infra("%v", err)
			}
			r, err := age.Decrypt(bytes.NewReader(file), id)
			var got []byte
			if err == nil {
				got, err = io.ReadAll(r)
			}
			run.Eval(1)
			if err != nil || !bytes.Equal(got, msg) {
				run.Violation(fmt.Sprintf("C01:listed-recipient-cannot-decrypt:passphrase-%d/use%d", i, round+1), fmt.Sprintf("a file encrypted with passphrase %q is not opened by the identity made from the same string (use %d of that identity value): %v", pw, round+1, err), map[string]interface{}{"check": "C01.passphrase", "passphrase": pw, "use": round + 1})
				break
			}
		}
		run.Distinct(fmt.Sprintf("pw-roundtrip:%d", i))
	}
}
