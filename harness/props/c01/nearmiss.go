package c01

import (
	"bytes"
	"errors"
	"fmt"
	"io"
	"strings"
	"unicode"

	"filippo.io/age"
	"filippo.io/age/internal/bech32"
	"filippo.io/age/xverif/internal/vk"
	"filippo.io/age/xverif/internal/world"
)

func mustNotOpen(run *vk.Run, file []byte, id age.Identity, sig, what string) {
	r, err := age.Decrypt(bytes.NewReader(file), id)
	run.Eval(1)
	rp := map[string]interface{}{"check": "C04.nearmiss", "what": what}
	if err == nil || r != nil {
		n := 0
		if r != nil {
			func() {
				defer func() { recover() }() // a reader that is a nil pointer in disguise crashes when used
				b, _ := io.ReadAll(r)
				n = len(b)
			}()
		}
		run.Violation("C04:near-miss-accepted:"+sig, fmt.Sprintf("%s: Decrypt returned a reader (err=%v, %d bytes readable)", what, err, n), rp)
		return
	}
	var nm *age.NoIdentityMatchError
	if !errors.As(err, &nm) || len(nm.Errors) != 1 || !errors.Is(nm.Errors[0], age.ErrIncorrectIdentity) {
		run.Violation("C04:near-miss-error-shape:"+sig, fmt.Sprintf("%s: error %T %v is not the no-match error with one incorrect-identity cause", what, err, err), rp)
	}
}

func encryptTo(r age.Recipient, pt []byte) ([]byte, error) {
	var buf bytes.Buffer
	w, err := age.Encrypt(&buf, r)
	if err != nil {
		return nil, err
	}
	w.Write(pt)
	if err := w.Close(); err != nil {
		return nil, err
	}
	return buf.Bytes(), nil
}

// nearMisses: recipients one bit away from the identity's public key, passphrases one edit away, and
// right-then-wrong histories in one process.
func nearMisses(run *vk.Run, w *world.World, pt []byte) {
	id := w.XIdentity("x1")
	_, pub, _ := bech32.Decode(id.Recipient().String())
	msg := pt[:37]
	for bit := 0; bit < 256; bit++ {
		p := append([]byte{}, pub...)
		p[bit/8] ^= 1 << uint(bit%8)
		s, _ := bech32.Encode("age", p)
		rcp, err := age.ParseX25519Recipient(s)
		if err != nil {
			continue
		}
		file, err := encryptTo(rcp, msg)
		if err != nil {
			continue // low-order or otherwise unusable point: Wrap refuses
		}
		mustNotOpen(run, file, id, fmt.Sprintf("x25519-bit%d", bit), fmt.Sprintf("file for the public key of x1 with bit %d flipped, decrypted with x1", bit))
		run.Distinct(fmt.Sprintf("bitflip:%d", bit))
	}
	// passphrases
	base := "Correct Horse battery staple é"
	variants := map[string]string{}
	for i, c := range base {
		r := []rune(base)
		j := len([]rune(base[:i]))
		if unicode.IsLetter(c) {
			if unicode.IsUpper(c) {
				r[j] = unicode.ToLower(c)
			} else {
				r[j] = unicode.ToUpper(c)
			}
			variants[fmt.Sprintf("case@%d", j)] = string(r)
		}
		r = []rune(base)
		r[j] = 'z'
		if string(r) != base {
			variants[fmt.Sprintf("subst@%d", j)] = string(r)
		}
	}
	variants["trailing-space"] = base + " "
	variants["trailing-lf"] = base + "\n"
	variants["trailing-cr"] = base + "\r"
	variants["trailing-crlf"] = base + "\r\n"
	variants["trailing-tab"] = base + "\t"
	variants["leading-lf"] = "\n" + base
	variants["leading-space"] = " " + base
	variants["nfd"] = strings.Replace(base, "é", "é", 1)
	variants["lower"] = strings.ToLower(base)
	variants["truncated"] = base[:len(base)-3]
	variants["doubled"] = base + base
	sr, _ := age.NewScryptRecipient(base)
	sr.SetWorkFactor(3)
	file, err := encryptTo(sr, msg)
	if err != nil {
		vk.Infra("%v", err)
	}
	right, _ := age.NewScryptIdentity(base)
	for name, v := range variants {
		wrong, _ := age.NewScryptIdentity(v)
		mustNotOpen(run, file, wrong, "passphrase-"+strings.SplitN(name, "@", 2)[0], fmt.Sprintf("passphrase variant %q (%s) against a file for %q", v, name, base))
		run.Distinct("pw:" + name)
	}
	// a passphrase of the shape the command line suggests (ten list words joined by hyphens): retyped with capitals,
	// with blanks for hyphens, or in title case it is another passphrase
	gen := "mixture-spatial-bar-walnut-olive-grape-moon-river-stone-cloud"
	gv := map[string]string{
		"gen-capital-first": "M" + gen[1:],
		"gen-capital-word":  strings.Replace(gen, "-walnut-", "-Walnut-", 1),
		"gen-upper":         strings.ToUpper(gen),
		"gen-spaces":        strings.ReplaceAll(gen, "-", " "),
		"gen-one-space":     strings.Replace(gen, "-", " ", 1),
		"gen-title-spaces":  strings.ReplaceAll(strings.Title(strings.ReplaceAll(gen, "-", " ")), " ", " "),
		"gen-nine-words":    gen[:strings.LastIndex(gen, "-")],
		"gen-underscores":   strings.ReplaceAll(gen, "-", "_"),
	}
	gr, _ := age.NewScryptRecipient(gen)
	gr.SetWorkFactor(3)
	gfile, err := encryptTo(gr, msg)
	if err != nil {
		vk.Infra("%v", err)
	}
	for name, v := range gv {
		wrong, _ := age.NewScryptIdentity(v)
		mustNotOpen(run, gfile, wrong, "passphrase-"+name, fmt.Sprintf("passphrase %q against a file for %q", v, gen))
		run.Distinct("pw:" + name)
	}
	// the same identity value listed more than once is tried, and accounted for, each time
	a, b := w.XIdentity("x2"), w.XIdentity("x1")
	other, _ := age.GenerateX25519Identity()
	ofile, err := encryptTo(other.Recipient(), msg)
	if err != nil {
		vk.Infra("%v", err)
	}
	pwid, _ := age.NewScryptIdentity("some passphrase")
	for li, list := range [][]age.Identity{{a, a}, {a, b, a}, {pwid, a, pwid}, {b, b, b}} {
		_, derr := age.Decrypt(bytes.NewReader(ofile), list...)
		run.Eval(1)
		var nm *age.NoIdentityMatchError
		sig := fmt.Sprintf("repeated-identity-values:%d", li)
		if !errors.As(derr, &nm) {
			run.Violation("C04:not-the-no-match-error:"+sig, fmt.Sprintf("a list repeating identity values: error is %T: %v", derr, derr), nil)
		} else if len(nm.Errors) != len(list) {
			run.Violation("C04:no-match-causes:"+sig, fmt.Sprintf("%d causes collected for a list of %d identities in which a value is repeated", len(nm.Errors), len(list)), nil)
		}
		run.Distinct(sig)
	}
	// long lists: every identity tried is accounted for, however many there are (no fixed-size collection of causes)
	for _, n := range []int{15, 16, 17, 33, 64, 257} {
		var list []age.Identity
		for k := 0; k < n; k++ {
			switch k % 3 {
			case 0:
				x, _ := age.GenerateX25519Identity()
				list = append(list, x)
			case 1:
				list = append(list, a)
			default:
				list = append(list, b)
			}
		}
		r, derr := age.Decrypt(bytes.NewReader(ofile), list...)
		run.Eval(1)
		var nm *age.NoIdentityMatchError
		sig := fmt.Sprintf("long-identity-list:%d", n)
		if r != nil || derr == nil {
			run.Violation("C04:opened-by-non-matching:"+sig, fmt.Sprintf("a list of %d non-matching identities obtained a reader", n), nil)
		} else if !errors.As(derr, &nm) {
			run.Violation("C04:not-the-no-match-error:"+sig, fmt.Sprintf("a list of %d non-matching identities: error is %T: %v", n, derr, derr), nil)
		} else if len(nm.Errors) != n {
			run.Violation("C04:no-match-causes:"+sig, fmt.Sprintf("%d causes collected for a list of %d identities", len(nm.Errors), n), nil)
		}
		run.Distinct(sig)
	}
	// the other direction: the file's passphrase carries the extra character, the identity's does not
	for _, name := range []string{"trailing-lf", "trailing-cr", "trailing-space", "trailing-tab"} {
		r2, _ := age.NewScryptRecipient(variants[name])
		r2.SetWorkFactor(3)
		f2, err := encryptTo(r2, msg)
		if err != nil {
			vk.Infra("%v", err)
		}
		mustNotOpen(run, f2, right, "passphrase-rev-"+name, fmt.Sprintf("file for passphrase %q opened with %q", variants[name], base))
		for _, other := range []string{"trailing-lf", "trailing-cr"} {
			if other != name {
				o, _ := age.NewScryptIdentity(variants[other])
				mustNotOpen(run, f2, o, "passphrase-rev-"+name, fmt.Sprintf("file for passphrase %q opened with %q", variants[name], variants[other]))
			}
		}
		run.Distinct("pw-rev:" + name)
	}
	// passphrases are byte strings: pairs that differ only in bytes that are not valid UTF-8 (or that collapse under a
	// lossy conversion to U+FFFD) are different passphrases, in both directions
	long := strings.Repeat("correct horse battery staple ", 9) // 261 bytes: longer than any fixed-size passphrase buffer
	for pi, pair := range [][2]string{{long, long[:128]}, {long, long[:129] + "X" + long[130:]}, {long, long[:255]}, {long, long[:200] + strings.ToUpper(long[200:])}, {long[:64], long[:65]}, {long[:33], long[:32]},
		{"caf\xe9-2019", "caf\xe8-2019"}, {"hunter2\xff", "hunter2\xfe"}, {"hunter2\xff", "hunter2\xff\xfe"},
		{"pass\x80word", "pass\uFFFDword"}, {"\xc3\x28", "\xa0\xa1"}, {"a\x00b", "a\x00c"}} {
		for dir := 0; dir < 2; dir++ {
			a, b := pair[dir], pair[1-dir]
			ra, err := age.NewScryptRecipient(a)
			if err != nil {
				continue // the library may refuse such a passphrase outright; that is not this property's business
			}
			ra.SetWorkFactor(3)
			fa, err := encryptTo(ra, msg)
			if err != nil {
				vk.Infra("%v", err)
			}
			ib, err := age.NewScryptIdentity(b)
			if err != nil {
				continue
			}
			mustNotOpen(run, fa, ib, fmt.Sprintf("passphrase-bytes-%d-%d", pi, dir), fmt.Sprintf("file for passphrase %q opened with %q", a, b))
			run.Distinct(fmt.Sprintf("pw-bytes:%d/%d", pi, dir))
		}
	}
	// histories: a successful decryption must not help a later wrong identity (same process, same file)
	right, _ = age.NewScryptIdentity(base) // a fresh value: this history starts with the identity opening its own file
	for round := 0; round < 2; round++ {
		r, err := age.Decrypt(bytes.NewReader(file), right)
		if err != nil {
			run.Drift("right passphrase rejected: %v", err)
			break
		}
		io.ReadAll(r)
		// the identity value that has just opened its own file still is the identity of that passphrase only: files for
		// other passphrases (among them what a wiped or zeroed passphrase buffer would amount to) stay closed to it
		for oi, other := range []string{"\x00", strings.Repeat("\x00", len(base)), strings.ToLower(base), base[:len(base)-1], base + " "} {
			or, err := age.NewScryptRecipient(other)
			if err != nil {
				continue
			}
			or.SetWorkFactor(3)
			of, err := encryptTo(or, msg)
			if err != nil {
				vk.Infra("%v", err)
			}
			mustNotOpen(run, of, right, fmt.Sprintf("used-identity-other-file-%d", oi), fmt.Sprintf("file for passphrase %q opened by the identity of %q after that identity had opened its own file", other, base))
		}
		for _, name := range []string{"trailing-space", "lower", "subst@3", "case@0"} {
			wrong, _ := age.NewScryptIdentity(variants[name])
			mustNotOpen(run, file, wrong, "passphrase-after-right", fmt.Sprintf("passphrase variant %q tried after the right passphrase had opened the same file in this process", variants[name]))
		}
		run.Distinct(fmt.Sprintf("pw-history:%d", round))
	}
	xfile, _ := encryptTo(id.Recipient(), msg)
	if r, err := age.Decrypt(bytes.NewReader(xfile), id); err == nil {
		io.ReadAll(r)
		for _, o := range []string{"x2", "x3"} {
			mustNotOpen(run, xfile, w.XIdentity(o), "x25519-after-right", "another X25519 identity tried after the right one had opened the same file in this process")
		}
	}
	// SSH near misses: same type, other key; other type
	for _, pair := range [][2]string{{"e1", "e2"}, {"e1", "x1"}, {"x1", "e1"}, {"r1", "e1"}, {"e1", "r1"}} {
		f, err := encryptTo(w.Recipient(pair[0]), msg)
		if err != nil {
			continue
		}
		r, err := age.Decrypt(bytes.NewReader(f), w.Identity(pair[1]))
		run.Eval(1)
		if err == nil || r != nil {
			run.Violation("C04:near-miss-accepted:ssh:"+pair[0]+"-"+pair[1], fmt.Sprintf("file for %s opened by %s", pair[0], pair[1]), nil)
		}
		run.Distinct("ssh:" + pair[0] + pair[1])
	}
}
