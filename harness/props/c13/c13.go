// Package c13: I/O failures surface; nothing is lost silently.
package c13

import (
	"bytes"
	"encoding/json"
	"errors"
	"fmt"
	"io"
	"math/rand"
	"os"
	"path/filepath"

	"filippo.io/age"
	"filippo.io/age/armor"
	"filippo.io/age/internal/stream"
	"filippo.io/age/xverif/internal/strm"
	"filippo.io/age/xverif/internal/vk"
	"filippo.io/age/xverif/props/armrd"
	"filippo.io/age/xverif/props/armwr"
	"filippo.io/age/xverif/props/c02"
)

func mcCfg(mode string, C, T, maxL int, reads, writes string, maxWrites int, keep bool, invs, props string, view bool) string {
	k := "FALSE"
	if keep {
		k = "TRUE"
	}
	v := ""
	if view {
		v = "VIEW view\n"
	}
	p := ""
	if props != "" {
		p = "PROPERTIES " + props + "\n"
	}
	return fmt.Sprintf(`SPECIFICATION Spec
CONSTANTS
 C = %d
 T = %d
 KeepHist = %s
 Mode = "%s"
 MaxL = %d
 ReadSizes = %s
 WriteSizes = %s
 MaxWrites = %d
 Faults = TRUE
 ProbeIgnoresN = FALSE
INVARIANTS %s
%s%sCHECK_DEADLOCK FALSE
`, C, T, k, mode, maxL, reads, writes, maxWrites, invs, p, v)
}

type whist struct {
	A   string `json:"a"`
	N   int    `json:"n"`
	F   int    `json:"f"`
	Ret int    `json:"ret"`
	Err string `json:"err"`
}
type wframe struct {
	Ctr  int  `json:"ctr"`
	Fin  bool `json:"fin"`
	Len  int  `json:"len"`
	Okay bool `json:"okay"`
}
type wcase struct {
	Hist   []whist  `json:"hist"`
	Frames []wframe `json:"frames"`
	Acc    int      `json:"acc"`
	Err    string   `json:"err"`
	AllOK  bool     `json:"allOK"`
}

func offMap(w *strm.World, u int) int { return (u/w.C)*strm.Chunk + w.LenMap(u%w.C) }

// Run is the C13 check.
func Run(tier string) {
	run := vk.NewRun("C13", tier, "fault_enumeration")
	run.Rule("TLC model-checks the STREAM reader and writer machines with failure actions (source failing at every offset, destination failing at every flush; invariants FailureSurfaces, CleanOnlyIfHonest, SuccessMeansComplete, Sticky) and enumerates every (write sequence, failing flush) plan, replayed into internal/stream with a failing destination (permanent and once). End to end: age.Encrypt (+armor, 1-3 recipients) with the destination failing at every Write call index and at every byte offset (all offsets for small files, call boundaries and samples for large ones); age.Decrypt (+armor) with the source failing at every offset of small files and around every chunk edge of large ones, with three error values, permanently or once. Failing writer runs are recorded and validated by TLC. Distinct = (file shape, fault position, fault kind).")
	run.Assume("not generated: a source reporting its failure as io.EOF/io.ErrUnexpectedEOF (indistinguishable from truncation, covered by C02); a transient error returned together with data that is fully consumed")
	seed := run.Seed
	rinv := "PrefixOnlyS CleanOnlyIfHonestS FailureSurfaces NoPanicR TypeOK"
	run.SpecMustHold("reader-faults-mc", vk.TLCOpts{Module: "StreamMC", Config: mcCfg("reader", 2, 1, run.Pick(4, 6), "{0, 1, 3}", "{}", 0, false, rinv, "Sticky", true), Workers: 16, Expect: []string{"RCall", "RFill", "RProbe"}})
	winv := "HoldbackW FrameShapeW SuccessMeansCompleteW FailureSurfacesW"
	run.SpecMustHold("writer-faults-mc", vk.TLCOpts{Module: "StreamMC", Config: mcCfg("writer", 2, 1, 0, "{}", "{0, 1, 2, 3, 4, 5}", run.Pick(4, 5), false, winv, "StickyW", true), Workers: 16, Expect: []string{"WWriteA", "WCloseA"}})

	writerPlans(run, seed)
	id, err := age.GenerateX25519Identity()
	if err != nil {
		vk.Infra("%v", err)
	}
	id2, _ := age.GenerateX25519Identity()
	dstFaults(run, []*age.X25519Identity{id, id2}, seed)
	srcFaults(run, id, seed)
	armorSrcFaults(run, seed)
	// the de-armoring reader as a machine (ArmorRead.tla): every position at which the source can fail, for canonical,
	// truncated and malformed texts, every call replayed against armor.NewReader and poked again after its first error
	if run.Thorough() {
		armrd.Run(run, "armor-reader-faults", armrd.Config(1, 1, 8, 1, "{0, 1, 47, 48, 100}", 8, true, true), "", 0)
		armrd.Run(run, "armor-reader-faults-all-seqs", armrd.Config(0, 0, 5, 1, "{1, 48}", 8, true, true), "", 0)
	} else {
		armrd.Run(run, "armor-reader-faults", armrd.Config(1, 0, 8, 1, "{1, 48, 100}", 8, true, true), "", 0)
		armrd.Run(run, "armor-reader-faults-all-seqs", armrd.Config(0, 0, 4, 1, "{1, 48}", 8, true, true), "", 0)
	}
	// the armoring writer as a machine (ArmorWrite.tla): every call of the destination failing, wholly or partly, for
	// good or once, under every history of writes and closes
	if run.Thorough() {
		armwr.Run(run, "armor-writer-faults", armwr.Config("{0, 1, 2, 3, 48, 50, 800}", 3, 2, 8, `{"none", "one", "half", "allbut1"}`, true))
	} else {
		armwr.Run(run, "armor-writer-faults", armwr.Config("{0, 1, 3, 48, 50}", 3, 1, 7, `{"none", "one", "allbut1"}`, true))
	}
	run.Finish()
}

// writerPlans: every (write sequence, failing flush) plan of the model, replayed on the real writer.
func writerPlans(run *vk.Run, seed int64) {
	C := 3
	cfg := mcCfg("writer-postclose", C, 2, 0, "{}", "{0, 1, 3, 4, 7}", run.Pick(3, 4), true, "HoldbackW FrameShapeW SuccessMeansCompleteW FailureSurfacesW EmitWriter", "", false)
	res := run.TLC("writer-fault-plans", vk.TLCOpts{Module: "StreamMC", Config: cfg, Workers: 16})
	if res.Violated != "" || !res.OK {
		vk.Infra("StreamMC writer fault generation failed: %s\n%s", res.Violated, res.Output)
	}
	lines := res.PrintsWithPrefix("CASE ")
	if len(lines) == 0 {
		vk.Infra("no writer fault plans")
	}
	w := strm.NewWorld(seed, C, 2, 12)
	var evs []interface{}
	type job struct {
		sizes    []int
		closes   []bool // op i is Close
		failCall int
		once     bool
		li       int
	}
	var jobs []job
	for li, l := range lines {
		var c wcase
		if err := json.Unmarshal([]byte(l), &c); err != nil {
			vk.Infra("bad CASE: %v", err)
		}
		failCall := 0
		for i, f := range c.Frames {
			if !f.Okay {
				failCall = i + 1
			}
		}
		var sizes []int
		var closes []bool
		cum := 0
		for _, h := range c.Hist {
			if h.A == "close" {
				sizes = append(sizes, 0)
				closes = append(closes, true)
			} else {
				sizes = append(sizes, offMap(w, cum+h.N)-offMap(w, cum))
				closes = append(closes, false)
				if h.Err == "" {
					cum += h.N
				}
			}
		}
		for _, once := range []bool{false, true} {
			if failCall == 0 && once {
				continue
			}
			jobs = append(jobs, job{sizes, closes, failCall, once, li})
		}
	}
	results := make([][]interface{}, len(jobs))
	vk.Parallel(len(jobs), 16, func(j int) {
		jb := jobs[j]
		dst := strm.NewFaultyDst()
		dst.FailCall, dst.Once = jb.failCall, jb.once
		sw, _ := stream.NewWriter(w.KeyK, dst)
		var log []interface{}
		log = append(log, map[string]interface{}{"ev": "WReset"})
		allOK := true
		written := 0
		closed := false
		for i, n := range jb.sizes {
			firedBefore := dst.Fired
			if jb.closes[i] {
				err := sw.Close()
				if err != nil {
					allOK = false
				} else {
					closed = true
				}
				log = append(log, map[string]interface{}{"ev": "Close", "err": errS(err), "dstCalls": dst.Calls, "dstBytes": dst.Buf.Len(), "dstFailed": dst.Fired && !firedBefore})
			} else {
				k, err := sw.Write(w.P[written : written+n])
				if err != nil || k != n {
					allOK = false
				} else {
					written += n
				}
				log = append(log, map[string]interface{}{"ev": "Write", "n": n, "ret": k, "err": errS(err), "dstCalls": dst.Calls, "dstBytes": dst.Buf.Len(), "dstFailed": dst.Fired && !firedBefore})
			}
		}
		run.Eval(1)
		sig := fmt.Sprintf("plan:%v/fail=%d/once=%v", jb.sizes, jb.failCall, jb.once)
		if allOK && closed {
			r, _ := stream.NewReader(w.KeyK, bytes.NewReader(dst.Buf.Bytes()))
			got, err := io.ReadAll(r)
			if err != nil || !bytes.Equal(got, w.P[:written]) {
				run.Violation("C13:silent-loss:"+sig, fmt.Sprintf("writes %v with dst failing at call %d (once=%v): every call succeeded but the destination does not hold a complete valid payload (%v, %d of %d bytes)", jb.sizes, jb.failCall, jb.once, err, len(got), written),
					map[string]interface{}{"check": "C13.plan", "sizes": jb.sizes, "closes": jb.closes, "failCall": jb.failCall, "once": jb.once})
			}
		}
		if !jb.once {
			results[j] = log
		}
		run.Distinct(sig)
	})
	for _, l := range results {
		evs = append(evs, l...)
	}
	run.Add("writer_fault_plans", len(jobs))
	run.Sample(map[string]interface{}{"generator": "writer-fault-plans", "tlc_case": lines[len(lines)/2]})
	dir, err := os.MkdirTemp("", "c13t-")
	if err != nil {
		vk.Infra("%v", err)
	}
	defer os.RemoveAll(dir)
	path := filepath.Join(dir, "trace.ndjson")
	if err := vk.WriteNDJSON(path, evs); err != nil {
		vk.Infra("%v", err)
	}
	ok, at := c02.ValidateTrace(run, "failing-writer-traces", path)
	run.Traces(len(results))
	if !ok {
		b, _ := json.Marshal(evs[at-1])
		// the writer deviates from the machine under a destination failure; the property-level verdict was taken above
		run.Drift("failing writer trace rejected at line %d: %s", at, b)
	}
}

func errS(err error) string {
	if err == nil {
		return ""
	}
	if err == io.EOF {
		return "EOF"
	}
	return "other"
}

type encCase struct {
	n       int
	armored bool
	nrec    int
}

// encryptTo runs the whole encryption pipeline against dst; returns whether every call reported success.
func encryptTo(dst io.Writer, ids []*age.X25519Identity, c encCase, pt []byte) (allOK bool, pan interface{}) {
	defer func() {
		if p := recover(); p != nil {
			pan = p
		}
	}()
	var sink io.Writer = dst
	var aw io.WriteCloser
	if c.armored {
		aw = armor.NewWriter(dst)
		sink = aw
	}
	var rs []age.Recipient
	for i := 0; i < c.nrec; i++ {
		rs = append(rs, ids[i%len(ids)].Recipient())
	}
	w, err := age.Encrypt(sink, rs...)
	if err != nil {
		return false, nil
	}
	allOK = true
	for off := 0; off < len(pt); {
		e := off + 70000
		if e > len(pt) {
			e = len(pt)
		}
		k, err := w.Write(pt[off:e])
		if err != nil || k != e-off {
			allOK = false
			break
		}
		off = e
	}
	if allOK && len(pt) == 0 {
		if _, err := w.Write(nil); err != nil {
			allOK = false
		}
	}
	if err := w.Close(); err != nil {
		allOK = false
	}
	if aw != nil {
		if err := aw.Close(); err != nil {
			allOK = false
		}
	}
	return allOK, nil
}

func decryptAll(file []byte, armored bool, id *age.X25519Identity) ([]byte, error) {
	var in io.Reader = bytes.NewReader(file)
	if armored {
		in = armor.NewReader(in)
	}
	r, err := age.Decrypt(in, id)
	if err != nil {
		return nil, err
	}
	return io.ReadAll(r)
}

// cleanRoundTrip encrypts a short plaintext to a healthy destination and decrypts it again; "" if all is well.
func cleanRoundTrip(ids []*age.X25519Identity, armored bool) string {
	pt := []byte("the stream after the one that failed")
	var buf bytes.Buffer
	ok, pan := encryptTo(&buf, ids, encCase{len(pt), armored, 1}, pt)
	if pan != nil {
		return fmt.Sprintf("panics: %v", pan)
	}
	if !ok {
		return "" // a reported failure is not silent
	}
	got, err := decryptAll(buf.Bytes(), armored, ids[0])
	if err != nil {
		return fmt.Sprintf("writes a file that does not decrypt: %v", err)
	}
	if !bytes.Equal(got, pt) {
		return "writes a file that decrypts to something else"
	}
	return ""
}

// dstFaults: the destination fails at every call index / byte offset.
func dstFaults(run *vk.Run, ids []*age.X25519Identity, seed int64) {
	rng := rand.New(rand.NewSource(seed))
	sizes := []int{0, 1, 65536, 131073}
	if run.Thorough() {
		sizes = append(sizes, 65537, 196609)
	}
	var cases []encCase
	for _, n := range sizes {
		for _, a := range []bool{false, true} {
			for nrec := 1; nrec <= run.Pick(2, 3); nrec++ {
				if nrec > 1 && n > 1 && n != 65536 {
					continue
				}
				cases = append(cases, encCase{n, a, nrec})
			}
		}
	}
	total := 0
	for _, c := range cases {
		pt := make([]byte, c.n)
		rng.Read(pt)
		probe := strm.NewFaultyDst()
		if ok, _ := encryptTo(probe, ids, c, pt); !ok {
			vk.Infra("fault-free encryption failed")
		}
		ncalls := probe.Calls
		fileLen := probe.Buf.Len()
		type plan struct {
			call int
			byt  int64
			once bool
		}
		var plans []plan
		for i := 1; i <= ncalls; i++ {
			plans = append(plans, plan{i, -1, false}, plan{i, -1, true})
		}
		// byte offsets: all for small outputs; call boundaries +-1 and samples for large ones
		if fileLen <= 1500 {
			for b := 0; b < fileLen; b++ {
				plans = append(plans, plan{0, int64(b), false}, plan{0, int64(b), true})
			}
		} else {
			off := 0
			seen := map[int]bool{}
			for _, l := range probe.CallLens {
				for _, b := range []int{off - 1, off, off + 1, off + l/2} {
					if b >= 0 && b < fileLen && !seen[b] {
						seen[b] = true
						plans = append(plans, plan{0, int64(b), false}, plan{0, int64(b), true})
					}
				}
				off += l
			}
			for i := 0; i < run.Pick(40, 400); i++ {
				plans = append(plans, plan{0, int64(rng.Intn(fileLen)), i%2 == 0})
			}
		}
		if !run.Thorough() && len(plans) > 700 {
			rng.Shuffle(len(plans), func(i, j int) { plans[i], plans[j] = plans[j], plans[i] })
			plans = plans[:700]
		}
		total += len(plans)
		cc := c
		vk.Parallel(len(plans), 16, func(i int) {
			p := plans[i]
			dst := strm.NewFaultyDst()
			dst.FailCall, dst.FailByte, dst.Once = p.call, p.byt, p.once
			ok, pan := encryptTo(dst, ids, cc, pt)
			run.Eval(1)
			sig := fmt.Sprintf("n=%d/armor=%v/rec=%d/call=%d/byte=%d/once=%v", cc.n, cc.armored, cc.nrec, p.call, p.byt, p.once)
			rp := map[string]interface{}{"check": "C13.dst", "n": cc.n, "armored": cc.armored, "nrec": cc.nrec, "failCall": p.call, "failByte": p.byt, "once": p.once}
			if pan != nil {
				run.Violation("C13:panic:"+sig, fmt.Sprintf("panic after a destination failure: %v", pan), rp)
				return
			}
			if !dst.Fired {
				return
			}
			// what failed must not reach into the next stream of the process: a fresh encryption right after, on the same
			// goroutine, to a healthy destination must give a complete valid file
			if why := cleanRoundTrip(ids, cc.armored); why != "" {
				run.Violation("C13:failure-leaks-into-next-stream:"+sig, fmt.Sprintf("after a destination failure (call %d / byte %d, once=%v) the next encryption of the process, to a healthy destination, reports success and %s", p.call, p.byt, p.once, why), rp)
				return
			}
			if ok {
				got, err := decryptAll(dst.Buf.Bytes(), cc.armored, ids[0])
				if err != nil || !bytes.Equal(got, pt) {
					run.Violation("C13:silent-loss:"+sig, fmt.Sprintf("the destination failed (call %d / byte %d, once=%v) yet Encrypt, Write and Close all reported success; what the destination holds does not decrypt to the plaintext (%v)", p.call, p.byt, p.once, err), rp)
				}
			}
			run.Distinct("dst:" + sig)
		})
	}
	run.Add("destination_fault_plans", total)
	run.Sample(map[string]interface{}{"generator": "dst-faults", "case": fmt.Sprintf("%+v", cases[len(cases)/2])})
}

var srcErrs = []error{strm.ErrInjected, io.ErrClosedPipe, os.ErrDeadlineExceeded}

// srcFaults: the source fails at every offset.
func srcFaults(run *vk.Run, id *age.X25519Identity, seed int64) {
	rng := rand.New(rand.NewSource(seed + 5))
	sizes := []int{0, 1, 100, 65536, 131073}
	if run.Thorough() {
		sizes = append(sizes, 65537, 196608)
	}
	total := 0
	for _, n := range sizes {
		for _, armored := range []bool{false, true} {
			pt := make([]byte, n)
			rng.Read(pt)
			var fb bytes.Buffer
			encryptTo(&fb, []*age.X25519Identity{id}, encCase{n, armored, 1}, pt)
			file := fb.Bytes()
			var offs []int
			var exact map[int]bool
			if len(file) <= 1200 {
				for o := 0; o <= len(file); o++ {
					offs = append(offs, o)
				}
			} else {
				hdr := 200
				seen := map[int]bool{}
				exact = map[int]bool{}
				add := func(o int) {
					if o >= 0 && o <= len(file) && !seen[o] {
						seen[o] = true
						offs = append(offs, o)
					}
				}
				for o := 0; o < 320; o += 3 {
					add(o)
				}
				step := strm.EncChunk
				if armored {
					step = strm.EncChunk * 65 / 48
				}
				for e := hdr; e <= len(file)+step; e += step {
					for d := -70; d <= 70; d += 7 {
						add(e + d)
					}
				}
				for d := 0; d < 120; d++ {
					add(len(file) - d)
				}
				// the exact chunk boundaries of the payload (where a read that delivers nothing consumes nothing)
				bin := file
				if armored {
					bin, _ = io.ReadAll(armor.NewReader(bytes.NewReader(file)))
				}
				if hp := bytes.Index(bin, []byte("\n--- ")); hp >= 0 {
					start := hp + 1 + 4 + 43 + 1 + 16
					for b := start; b <= len(bin); b += strm.EncChunk {
						for d := -1; d <= 1; d++ {
							o := b + d
							if armored {
								o = 35 + (o/48)*65 + (o%48)*4/3
							}
							add(o)
							exact[o] = true
						}
					}
				}
				for i := 0; i < run.Pick(30, 300); i++ {
					add(rng.Intn(len(file)))
				}
			}
			type plan struct {
				off  int
				once bool
				err  error
				part bool
				pol  string
			}
			var plans []plan
			for i, o := range offs {
				e := srcErrs[i%len(srcErrs)]
				plans = append(plans, plan{o, false, e, false, "readall"}, plan{o, true, e, false, []string{"copy", "buf4096", "buf1"}[i%3]})
				if i%2 == 0 {
					plans = append(plans, plan{o, false, e, true, "copyplain"})
				}
				if exact[o] {
					// at a chunk boundary the outcome must not depend on how much room the caller's buffer has left
					for _, pol := range []string{"readall", "buf100000", "buf1048576", "readfrom", "buf65552", "win70000", "bufio1m", "sniffcopy"} {
						plans = append(plans, plan{o, true, e, false, pol}, plan{o, false, e, false, pol})
					}
				}
			}
			total += len(plans)
			a := armored
			nn := n
			vk.Parallel(len(plans), 16, func(i int) {
				p := plans[i]
				pol := p.pol
				if pol == "buf1" && len(file) > 5000 {
					pol = "buf4096"
				}
				var src io.Reader
				sc := &strm.Scripted{B: file, FailAt: int64(p.off), Once: p.once, Err: p.err}
				src = sc
				if p.part {
					src = &partialErr{B: file, FailAt: p.off, Err: p.err}
				}
				var in io.Reader = src
				if a {
					in = armor.NewReader(in)
				}
				var res strm.Result
				r, err := age.Decrypt(in, id)
				if err != nil {
					res.Err = err
				} else {
					res = strm.Drain(r, pol)
				}
				run.Eval(1)
				sig := fmt.Sprintf("n=%d/armor=%v/off=%d/once=%v/part=%v/%v", nn, a, p.off, p.once, p.part, p.err)
				rp := map[string]interface{}{"check": "C13.src", "n": nn, "armored": a, "failAt": p.off, "once": p.once, "partial": p.part, "err": p.err.Error(), "read": pol}
				if res.Panic != nil {
					run.Violation("C13:panic:"+sig, fmt.Sprint(res.Panic), rp)
					return
				}
				fired := sc.Fired
				if p.part {
					fired = src.(*partialErr).Fired
				}
				if !fired {
					return
				}
				// what failed must not reach into the next stream of the process (pooled buffers, cached state)
				if why := cleanRoundTrip([]*age.X25519Identity{id}, a); why != "" {
					run.Violation("C13:failure-leaks-into-next-stream:"+sig, fmt.Sprintf("after a source failure at offset %d the next encryption and decryption of the process, on healthy streams, %s", p.off, why), rp)
					return
				}
				if len(res.Data) > len(pt) || !bytes.Equal(res.Data, pt[:len(res.Data)]) {
					run.Violation("C13:released-not-prefix:"+sig, "plaintext released before the failure is not a prefix of the true plaintext", rp)
					return
				}
				if res.Err == io.EOF || res.Err == nil {
					run.Violation("C13:source-failure-hidden:"+sig, fmt.Sprintf("the source failed at offset %d of %d (%v, once=%v) and decryption ended cleanly after %d of %d bytes", p.off, len(file), p.err, p.once, len(res.Data), len(pt)), rp)
					return
				}
				if res.AfterErr != "" {
					run.Violation("C13:failed-stream-recovers:"+sig, fmt.Sprintf("source failed at offset %d of %d: %s", p.off, len(file), res.AfterErr), rp)
					return
				}
				if a && errors.Is(res.Err, p.err) {
					var ae *armor.Error
					_ = errors.As(res.Err, &ae)
				}
				run.Distinct("src:" + sig)
			})
		}
	}
	run.Add("source_fault_plans", total)
}

// partialErr returns the bytes before FailAt together with the error (n > 0, err != nil), then keeps failing.
type partialErr struct {
	B      []byte
	FailAt int
	Err    error
	pos    int
	Fired  bool
}

func (s *partialErr) Read(p []byte) (int, error) {
	if s.pos >= s.FailAt {
		s.Fired = true
		return 0, s.Err
	}
	n := copy(p, s.B[s.pos:s.FailAt])
	s.pos += n
	if s.pos >= s.FailAt {
		s.Fired = true
		return n, s.Err
	}
	return n, nil
}

// armorSrcFaults: de-armoring alone (armor.NewReader) with the source failing at every offset.
func armorSrcFaults(run *vk.Run, seed int64) {
	rng := rand.New(rand.NewSource(seed + 9))
	total := 0
	for _, n := range []int{0, 1, 47, 48, 49, 100, 144, 3000} {
		data := make([]byte, n)
		rng.Read(data)
		var b bytes.Buffer
		aw := armor.NewWriter(&b)
		aw.Write(data)
		aw.Close()
		text := b.Bytes()
		if n == 100 {
			text = append(text, []byte("\n \n")...)
		}
		step := 1
		if len(text) > 1500 {
			step = 13
		}
		var offs []int
		for o := 0; o <= len(text); o += step {
			offs = append(offs, o)
		}
		offs = append(offs, len(text))
		total += len(offs) * 3
		vk.Parallel(len(offs)*3, 16, func(i int) {
			o := offs[i/3]
			mode := i % 3
			e := srcErrs[i%len(srcErrs)]
			var src io.Reader
			var fired func() bool
			switch mode {
			case 0, 1:
				sc := &strm.Scripted{B: text, FailAt: int64(o), Once: mode == 1, Err: e}
				src, fired = sc, func() bool { return sc.Fired }
			default:
				pe := &partialErr{B: text, FailAt: o, Err: e}
				src, fired = pe, func() bool { return pe.Fired }
			}
			res := strm.Drain(armor.NewReader(src), []string{"buf37", "readall", "buf1"}[i%3])
			run.Eval(1)
			sig := fmt.Sprintf("armor-only/n=%d/off=%d/mode=%d", n, o, mode)
			rp := map[string]interface{}{"check": "C13.armorsrc", "n": n, "failAt": o, "mode": mode, "text": string(text)}
			if res.Panic != nil {
				run.Violation("C13:panic:"+sig, fmt.Sprint(res.Panic), rp)
				return
			}
			if !fired() {
				return
			}
			if len(res.Data) > len(data) || !bytes.Equal(res.Data, data[:len(res.Data)]) {
				run.Violation("C13:released-not-prefix:"+sig, "bytes released before the failure are not a prefix of the armored data", rp)
				return
			}
			if res.Err == io.EOF || res.Err == nil {
				run.Violation("C13:source-failure-hidden:"+sig, fmt.Sprintf("the source failed at offset %d of %d and de-armoring ended cleanly", o, len(text)), rp)
				return
			}
			if res.AfterErr != "" {
				run.Violation("C13:failed-stream-recovers:"+sig, fmt.Sprintf("source failed at offset %d of %d (%v): %s", o, len(text), e, res.AfterErr), rp)
				return
			}
			run.Distinct("asrc:" + sig)
		})
	}
	run.Add("armor_source_fault_plans", total)
}
