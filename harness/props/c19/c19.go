// Package c19: the encrypted SSH identity prompts only on a match and keeps no history.
package c19

import (
	"bytes"
	"crypto"
	"crypto/ed25519"
	"crypto/rand"
	"crypto/rsa"
	"crypto/sha256"
	"encoding/base64"
	"encoding/json"
	"encoding/pem"
	"errors"
	"fmt"
	"io"
	mrand "math/rand"
	"strings"
	"sync"
	"sync/atomic"
	"time"

	"filippo.io/age"
	"filippo.io/age/agessh"
	"filippo.io/age/xverif/internal/vk"
	"golang.org/x/crypto/ssh"
)

type call struct {
	File     []string `json:"file"`
	Answer   string   `json:"answer"`
	Out      string   `json:"out"`
	Prompted bool     `json:"prompted"`
	Fresh    string   `json:"fresh"`
	Cached   bool     `json:"cached"`
}
type scase struct {
	Stored string `json:"stored"`
	Calls  []call `json:"calls"`
}

type material struct {
	typ   string
	pub   map[string]ssh.PublicKey // D, A, U
	pem   map[string][]byte        // encrypted private key files of D and A
	rcp   map[string]age.Recipient // D, A, U, X
	files map[string][]byte        // file signature -> age file
	mu    sync.Mutex
}

const pass = "the right passphrase"

var rsaPool []*rsa.PrivateKey
var rsaOnce sync.Once

func mkMaterial(typ string, rng *mrand.Rand) *material {
	m := &material{typ: typ, pub: map[string]ssh.PublicKey{}, pem: map[string][]byte{}, rcp: map[string]age.Recipient{}, files: map[string][]byte{}}
	for i, name := range []string{"D", "A", "U"} {
		var priv crypto.PrivateKey
		var pk ssh.PublicKey
		if typ == "ed25519" {
			seed := make([]byte, 32)
			rng.Read(seed)
			k := ed25519.NewKeyFromSeed(seed)
			priv = k
			pk, _ = ssh.NewPublicKey(k.Public())
			r, err := agessh.NewEd25519Recipient(pk)
			if err != nil {
				vk.Infra("%v", err)
			}
			m.rcp[name] = r
		} else {
			rsaOnce.Do(func() {
				for j := 0; j < 3; j++ {
					k, err := rsa.GenerateKey(rand.Reader, 2048)
					if err != nil {
						vk.Infra("%v", err)
					}
					rsaPool = append(rsaPool, k)
				}
				// the unrelated key has another modulus size (stanza bodies of another length)
				k3, err := rsa.GenerateKey(rand.Reader, 3072)
				if err != nil {
					vk.Infra("%v", err)
				}
				rsaPool = append(rsaPool, k3)
			})
			k := rsaPool[i]
			if name == "U" {
				k = rsaPool[3]
			}
			priv = k
			pk, _ = ssh.NewPublicKey(&k.PublicKey)
			r, err := agessh.NewRSARecipient(pk)
			if err != nil {
				vk.Infra("%v", err)
			}
			m.rcp[name] = r
		}
		m.pub[name] = pk
		if name != "U" {
			blk, err := ssh.MarshalPrivateKeyWithPassphrase(priv, "c19", []byte(pass))
			if err != nil {
				vk.Infra("marshal encrypted key: %v", err)
			}
			m.pem[name] = pem.EncodeToMemory(blk)
		}
	}
	// "O": the key file holds a key of the OTHER SSH type than the declared public key (ed25519 <-> rsa)
	{
		var priv crypto.PrivateKey
		if typ == "ed25519" {
			rsaOnce.Do(func() {
				for j := 0; j < 3; j++ {
					k, err := rsa.GenerateKey(rand.Reader, 2048)
					if err != nil {
						vk.Infra("%v", err)
					}
					rsaPool = append(rsaPool, k)
				}
				k3, err := rsa.GenerateKey(rand.Reader, 3072)
				if err != nil {
					vk.Infra("%v", err)
				}
				rsaPool = append(rsaPool, k3)
			})
			priv = rsaPool[2]
		} else {
			seed := make([]byte, 32)
			rng.Read(seed)
			priv = ed25519.NewKeyFromSeed(seed)
		}
		blk, err := ssh.MarshalPrivateKeyWithPassphrase(priv, "c19-other-type", []byte(pass))
		if err != nil {
			vk.Infra("marshal encrypted key: %v", err)
		}
		m.pem["O"] = pem.EncodeToMemory(blk)
	}
	x, _ := age.GenerateX25519Identity()
	m.rcp["X"] = x.Recipient()
	// "Y": a stanza of a foreign type without any argument (a header line may consist of a type alone)
	yb := make([]byte, 20)
	rng.Read(yb)
	m.rcp["Y"] = forged{&age.Stanza{Type: "note", Body: yb}}
	// "T": a stanza of the other SSH key type carrying D's public-key tag (type and tag together address a stanza)
	h := sha256.Sum256(m.pub["D"].Marshal())
	tag := base64.RawStdEncoding.EncodeToString(h[:4])
	// "N": a stanza of the identity's own type whose tag differs from D's only in the padding bits of its last
	// character (another string; a lenient base64 decoder would read the same four bytes)
	const b64abc = "ABCDEFGHIJKLMNOPQRSTUVWXYZabcdefghijklmnopqrstuvwxyz0123456789+/"
	last := strings.IndexByte(b64abc, tag[len(tag)-1])
	tagN := tag[:len(tag)-1] + string(b64abc[(last&^0xf)|((last+5)&0xf)])
	if typ == "ed25519" {
		share, nb := make([]byte, 32), make([]byte, 32)
		rng.Read(share)
		rng.Read(nb)
		m.rcp["N"] = forged{&age.Stanza{Type: "ssh-ed25519", Args: []string{tagN, base64.RawStdEncoding.EncodeToString(share)}, Body: nb}}
	} else {
		nb := make([]byte, 256)
		rng.Read(nb)
		m.rcp["N"] = forged{&age.Stanza{Type: "ssh-rsa", Args: []string{tagN}, Body: nb}}
	}
	// "M": a stanza of the identity's own type with another tag and the wrong number of arguments
	{
		mb := make([]byte, 32)
		rng.Read(mb)
		if typ == "ed25519" {
			m.rcp["M"] = forged{&age.Stanza{Type: "ssh-ed25519", Args: []string{"AAAAAA"}, Body: mb}}
		} else {
			m.rcp["M"] = forged{&age.Stanza{Type: "ssh-rsa", Args: []string{"AAAAAA", "extra"}, Body: mb}}
		}
	}
	if typ == "ed25519" {
		body := make([]byte, 256)
		rng.Read(body)
		m.rcp["T"] = forged{&age.Stanza{Type: "ssh-rsa", Args: []string{tag}, Body: body}}
	} else {
		share, body := make([]byte, 32), make([]byte, 32)
		rng.Read(share)
		rng.Read(body)
		m.rcp["T"] = forged{&age.Stanza{Type: "ssh-ed25519", Args: []string{tag, base64.RawStdEncoding.EncodeToString(share)}, Body: body}}
	}
	return m
}

// negated is the material of Stored = "G": the key file is A's, and the declared public key is A's point negated (the
// same key with the sign bit of its encoding flipped: another SSH key, another tag, the same Curve25519 u-coordinate).
func (m *material) negated() *material {
	g := &material{typ: m.typ, pub: map[string]ssh.PublicKey{}, pem: map[string][]byte{}, rcp: map[string]age.Recipient{}, files: map[string][]byte{}}
	for k, v := range m.pub {
		g.pub[k] = v
	}
	for k, v := range m.rcp {
		g.rcp[k] = v
	}
	for k, v := range m.pem {
		g.pem[k] = v
	}
	ck, ok := m.pub["A"].(ssh.CryptoPublicKey)
	if !ok {
		vk.Infra("no crypto key behind A")
	}
	a, ok := ck.CryptoPublicKey().(ed25519.PublicKey)
	if !ok {
		vk.Infra("A is not an Ed25519 key")
	}
	neg := append(ed25519.PublicKey{}, a...)
	neg[31] ^= 0x80
	pk, err := ssh.NewPublicKey(neg)
	if err != nil {
		vk.Infra("%v", err)
	}
	g.pub["D"] = pk
	r, err := agessh.NewEd25519Recipient(pk)
	if err != nil {
		vk.Infra("negated key as recipient: %v", err)
	}
	g.rcp["D"] = r
	g.pem["G"] = m.pem["A"]
	return g
}

func (m *material) file(sig []string) []byte {
	k := strings.Join(sig, "")
	m.mu.Lock()
	defer m.mu.Unlock()
	if f, ok := m.files[k]; ok {
		return f
	}
	var rs []age.Recipient
	for _, a := range sig {
		rs = append(rs, m.rcp[a])
	}
	var buf bytes.Buffer
	w, err := age.Encrypt(&buf, rs...)
	if err != nil {
		vk.Infra("%v", err)
	}
	w.Write([]byte("c19 plaintext " + k))
	w.Close()
	m.files[k] = buf.Bytes()
	return m.files[k]
}

// one real call: returns (outcome class, prompts)
func realCall(id *agessh.EncryptedSSHIdentity, m *material, c *call, prompts *int, answer *string) string {
	// a call that never returns (e.g. a lock left held by an earlier call on the same value) is an outcome too
	type res struct{ s string }
	done := make(chan res, 1)
	go func() { done <- res{realCallInner(id, m, c, prompts, answer)} }()
	select {
	case r := <-done:
		return r.s
	case <-time.After(25 * time.Second):
		return "hang"
	}
}

func realCallInner(id *agessh.EncryptedSSHIdentity, m *material, c *call, prompts *int, answer *string) string {
	*answer = c.Answer
	r, err := age.Decrypt(bytes.NewReader(m.file(c.File)), id)
	if err == nil {
		b, rerr := io.ReadAll(r)
		if rerr == nil && string(b) == "c19 plaintext "+strings.Join(c.File, "") {
			return "ok"
		}
		return "bad_plaintext"
	}
	var nm *age.NoIdentityMatchError
	switch {
	case errors.As(err, &nm):
		return "nomatch"
	case strings.Contains(err.Error(), "failed to obtain passphrase"):
		return "err_prompt"
	case strings.Contains(err.Error(), "failed to decrypt SSH key file"):
		return "err_decrypt"
	case strings.Contains(err.Error(), "mismatched private and public SSH key"):
		return "err_mismatch"
	case strings.Contains(err.Error(), "invalid ssh-ed25519 recipient block"), strings.Contains(err.Error(), "invalid ssh-rsa recipient block"):
		return "err_malformed"
	}
	return "err_other:" + err.Error()
}

// the wrong passphrases: one of another length, one of the same length as the right one
var wrongs = []string{"not the passphrase", "the wrong passphrase"}

var idCounter int64

func newIdentity(m *material, stored string, prompts *int, answer *string) *agessh.EncryptedSSHIdentity {
	// every second identity value gets a callback that hands out its secret in one reused buffer (as a caller reading
	// lines into a fixed array does) instead of a fresh slice per call
	k := atomic.AddInt64(&idCounter, 1)
	reuse := k%2 == 0
	var line [64]byte
	give := func(s string) []byte {
		if !reuse {
			return []byte(s)
		}
		for i := range line {
			line[i] = 0
		}
		return line[:copy(line[:], s)]
	}
	cb := func() ([]byte, error) {
		*prompts++
		switch *answer {
		case "right":
			return give(pass), nil
		case "wrong":
			return give(wrongs[(int(k/2)+*prompts)%2]), nil
		}
		return nil, errors.New("no terminal")
	}
	id, err := agessh.NewEncryptedSSHIdentity(m.pub["D"], m.pem[stored], cb)
	if err != nil {
		vk.Infra("NewEncryptedSSHIdentity: %v", err)
	}
	return id
}

func failClass(o string) string {
	if strings.HasPrefix(o, "err_") {
		return "error"
	}
	return o
}

func sig(typ string, c *scase) string {
	var p []string
	for _, cl := range c.Calls {
		p = append(p, strings.Join(cl.File, "")+":"+cl.Answer)
	}
	return fmt.Sprintf("%s/stored=%s/%s", typ, c.Stored, strings.Join(p, ","))
}

// Run is the C19 check.
func Run(tier string) {
	run := vk.NewRun("C19", tier, "model_checking")
	run.Rule("TLC (SSHEnc.tla) enumerates every sequence of up to MaxCalls calls on one identity value over files (addressed to the declared key, to the key actually stored in the private-key file, to an unrelated key of the same type, to another type; matching stanza first/middle/last; same type with another tag first) x passphrase answers (right, wrong, callback error), for a key file that belongs to the declared public key and one that does not, checks PromptOnlyOnMatch/PromptWhenAddressed/CacheOnlyValidated/HistoryFree and emits per call the prescribed outcome and whether the passphrase is asked for; each sequence is replayed on a real agessh.EncryptedSSHIdentity (ed25519 and rsa, passphrase-protected OpenSSH key files) with a counting callback, and every call's outcome is also compared with the same call on a fresh identity value. Distinct = (key type, stored key, call sequence).")
	run.Assume("outcome classes are read from the error text only to tell apart the three failure stages; the verdicts use only prompt counts, success/failure and equality with the fresh-identity outcome")
	rng := mrand.New(mrand.NewSource(run.Seed))
	total := 0
	for _, typ := range []string{"ed25519", "rsa"} {
		m0 := mkMaterial(typ, rng)
		for _, stored := range []string{"D", "A", "O", "G"} {
			if stored == "O" && typ == "rsa" && !run.Thorough() {
				continue // the cross-type key file is symmetric; the quick tier takes the cheaper direction
			}
			m := m0
			if stored == "G" {
				if typ != "ed25519" {
					continue // a point and its negation: Ed25519 only
				}
				m = m0.negated()
			}
			files := "FilesSmall"
			maxCalls := 2
			if run.Thorough() {
				files = "FilesFull"
			}
			if typ == "ed25519" && !run.Thorough() && stored != "G" {
				files = "FilesMid"
			}
			cfg := fmt.Sprintf("SPECIFICATION Spec\nCONSTANTS\n Stored = \"%s\"\n Files <- %s\n MaxCalls = %d\n CacheBeforeValidate = FALSE\nINVARIANTS PromptOnlyOnMatch PromptWhenAddressed CacheOnlyValidated HistoryFree Emit\nCHECK_DEADLOCK FALSE\n", stored, files, maxCalls)
			res := run.TLC("histories-"+typ+"-"+stored, vk.TLCOpts{Module: "SSHEncMC", Config: cfg, Workers: 8})
			if res.Violated != "" || !res.OK {
				vk.Infra("SSHEnc: %s\n%s", res.Violated, res.Output)
			}
			lines := res.PrintsWithPrefix("CASE ")
			if run.Thorough() {
				cfg3 := strings.Replace(strings.Replace(cfg, "MaxCalls = 2", "MaxCalls = 3", 1), "Files <- FilesFull", "Files <- FilesSmall", 1)
				res3 := run.TLC("histories3-"+typ+"-"+stored, vk.TLCOpts{Module: "SSHEncMC", Config: cfg3, Workers: 8})
				if res3.Violated != "" || !res3.OK {
					vk.Infra("SSHEnc: %s", res3.Violated)
				}
				l3 := res3.PrintsWithPrefix("CASE ")
				for i, l := range l3 {
					if i%3 == int(run.Seed)%3 {
						lines = append(lines, l)
					}
				}
			}
			cases := make([]scase, len(lines))
			for i, l := range lines {
				if err := json.Unmarshal([]byte(l), &cases[i]); err != nil {
					vk.Infra("bad CASE: %v", err)
				}
			}
			// warm the files sequentially
			for i := range cases {
				for j := range cases[i].Calls {
					m.file(cases[i].Calls[j].File)
				}
			}
			// fresh-identity outcomes, computed once per (file, answer)
			fresh := map[string]string{}
			var fmu sync.Mutex
			freshOf := func(c *call) string {
				k := strings.Join(c.File, "") + ":" + c.Answer
				fmu.Lock()
				v, ok := fresh[k]
				fmu.Unlock()
				if ok {
					return v
				}
				var p int
				var a string
				v = realCall(newIdentity(m, stored, &p, &a), m, c, &p, &a)
				fmu.Lock()
				fresh[k] = v
				fmu.Unlock()
				return v
			}
			typ, stored := typ, stored
			vk.Parallel(len(cases), 16, func(i int) {
				c := &cases[i]
				var prompts int
				var answer string
				id := newIdentity(m, stored, &prompts, &answer)
				s := sig(typ, c)
				rp := map[string]interface{}{"check": "C19.history", "type": typ, "case": c}
				for j := range c.Calls {
					cl := &c.Calls[j]
					before := prompts
					out := realCall(id, m, cl, &prompts, &answer)
					run.Eval(1)
					if out == "hang" {
						run.Violation("C19:outcome-depends-on-history:hang:"+s, fmt.Sprintf("call %d of [%s] (file for %v, answer %s) did not return within 25 s; on a fresh identity value the same call returns", j+1, s, cl.File, cl.Answer), rp)
						return
					}
					asked := prompts - before
					addressed := false
					for _, a := range cl.File {
						if a == "D" {
							addressed = true
						}
					}
					where := fmt.Sprintf("call %d of [%s] (file for %v, answer %s)", j+1, s, cl.File, cl.Answer)
					if asked > 0 && !addressed {
						run.Violation("C19:prompt-without-match:"+s, where+": the passphrase was asked for although no stanza carries the identity's type and tag", rp)
						return
					}
					if asked > 1 {
						run.Violation("C19:prompted-twice:"+s, where, rp)
						return
					}
					if addressed && !cl.Cached && asked != 1 {
						run.Violation("C19:no-prompt-for-addressed-file:"+s, where+": the file is addressed to this identity and no validated key is held, yet the passphrase was not asked for (outcome "+out+")", rp)
						return
					}
					// history freedom: as on a fresh identity value (a remembered validated key gives what the right passphrase gives)
					ref := *cl
					if cl.Cached {
						ref.Answer = "right"
					}
					want := freshOf(&ref)
					if failClass(out) != failClass(want) || (strings.HasPrefix(out, "err_") && !cl.Cached && out != want) {
						run.Violation("C19:outcome-depends-on-history:"+s, fmt.Sprintf("%s: outcome %s; on a fresh identity value the same call gives %s", where, out, want), rp)
						return
					}
					if cl.Cached && asked != 0 {
						run.Drift("a validated key was held but the passphrase was asked for again (%s)", where)
					}
					if out != cl.Out {
						run.Drift("outcome %s differs from the model's %s (%s)", out, cl.Out, where)
					}
				}
				run.Distinct(s)
			})
			total += len(cases)
			run.Sample(map[string]interface{}{"type": typ, "case": cases[len(cases)/2]})
		}
	}
	run.Add("call_sequences", total)
	run.Finish()
}

// OpensWhenAddressed is the positive side, judged under C01: a file addressed to the declared key (alone, or among
// other recipients in any position) is opened by the passphrase-protected identity when the right passphrase is given,
// on a fresh identity value and again on the same value. (C19 itself speaks only about prompts and history; there a
// refusal that is the same with and without history is recorded as drift.)
func OpensWhenAddressed(run *vk.Run) {
	rng := mrand.New(mrand.NewSource(run.Seed + 19))
	for _, typ := range []string{"ed25519", "rsa"} {
		m := mkMaterial(typ, rng)
		for _, f := range [][]string{{"D"}, {"X", "D"}, {"D", "U"}, {"U", "D", "X"}} {
			var prompts int
			var answer string
			id := newIdentity(m, "D", &prompts, &answer)
			for round := 0; round < 2; round++ {
				out := realCall(id, m, &call{File: f, Answer: "right"}, &prompts, &answer)
				run.Eval(1)
				if out != "ok" {
					run.Violation(fmt.Sprintf("C01:listed-recipient-cannot-decrypt:encrypted-ssh-%s/%s/round%d", typ, strings.Join(f, ""), round+1),
						fmt.Sprintf("a file for recipients %v is not opened by the passphrase-protected %s identity of D with the right passphrase: %s", f, typ, out),
						map[string]interface{}{"check": "C01.encssh", "type": typ, "file": f})
				}
			}
			run.Distinct("encssh:" + typ + "/" + strings.Join(f, ""))
		}
	}
}

// forged is a recipient that puts a prepared stanza into the header.
type forged struct{ s *age.Stanza }

func (f forged) Wrap(fileKey []byte) ([]*age.Stanza, error) { return []*age.Stanza{f.s}, nil }
