// Package c08: armor decodes what it encodes and accepts only canonical armor.
package c08

import (
	"bytes"
	"encoding/base64"
	"encoding/json"
	"errors"
	"fmt"
	"io"
	"math/rand"
	"os"
	"path/filepath"
	"strings"
	"time"

	"filippo.io/age/armor"
	"filippo.io/age/xverif/internal/rd"
	"filippo.io/age/xverif/internal/vk"
	"filippo.io/age/xverif/props/armrd"
	"filippo.io/age/xverif/props/armwr"
)

type rcase struct {
	Path      []string `json:"path"`
	Input     []int    `json:"input"`
	Ok        bool     `json:"ok"`
	Bytes     []int    `json:"bytes"`
	Norm      []int    `json:"norm"`
	Canonical bool     `json:"canonical"`
}

type wcase struct {
	Writes []int `json:"writes"`
	Data   []int `json:"data"`
	Out    []int `json:"out"`
}

type result struct {
	ok    bool
	data  []byte
	err   error
	typed bool // errors.As(*armor.Error)
	stick bool // later reads keep failing with an error (not a clean EOF, no data)
	pan   interface{}
}

// Dearmor runs the real reader over one delivery kind.
func Dearmor(kind string, in []byte) (r result) {
	defer func() {
		if p := recover(); p != nil {
			r.pan = p
		}
	}()
	ar := armor.NewReader(rd.New(kind, in))
	var out bytes.Buffer
	buf := make([]byte, 37)
	for {
		n, err := ar.Read(buf)
		out.Write(buf[:n])
		if err != nil {
			r.err = err
			break
		}
	}
	r.data = out.Bytes()
	if r.err == io.EOF {
		r.ok = true
		r.err = nil
		return
	}
	var ae *armor.Error
	r.typed = errors.As(r.err, &ae)
	r.stick = true
	for i := 0; i < 4; i++ {
		n, err := ar.Read(buf)
		if n != 0 || err == nil || err == io.EOF {
			r.stick = false
		}
	}
	return
}

// ArmorBytes runs the real writer with one write per element of sizes.
func ArmorBytes(data []byte, sizes []int) (out []byte, err error, pan interface{}) {
	defer func() {
		if p := recover(); p != nil {
			pan = p
		}
	}()
	var b bytes.Buffer
	w := armor.NewWriter(&b)
	off := 0
	for _, n := range sizes {
		k, werr := w.Write(data[off : off+n])
		if werr != nil || k != n {
			return b.Bytes(), fmt.Errorf("Write(%d) = (%d, %v)", n, k, werr), nil
		}
		off += n
	}
	if cerr := w.Close(); cerr != nil {
		return b.Bytes(), fmt.Errorf("Close: %v", cerr), nil
	}
	return b.Bytes(), nil, nil
}

func rep(kind string, label string, in []byte) interface{} {
	return map[string]interface{}{"check": "C08.read", "input": vk.Ints(in), "label": label, "reader": kind}
}

// CheckRead evaluates the reader-side predicates of C08 on one text.
// norm is the specification's Normalise(text) (nil: not available; then canonicity is judged by re-armoring alone
// against the text with the tolerances removed by the Go mirror of Normalise).
func CheckRead(run *vk.Run, in []byte, norm []byte, specOK *bool, label string, kinds []string) {
	var first result
	for ki, kind := range kinds {
		r := Dearmor(kind, in)
		run.Eval(1)
		if r.pan != nil {
			run.Violation("C08:panic:"+label, fmt.Sprintf("armor reader panicked: %v", r.pan), rep(kind, label, in))
			return
		}
		if ki == 0 {
			first = r
		}
		if r.ok {
			re, err, pan := ArmorBytes(r.data, []int{len(r.data)})
			if err != nil || pan != nil {
				run.Violation("C08:rearmor-failed:"+label, fmt.Sprintf("%v %v", err, pan), rep(kind, label, in))
				return
			}
			if norm != nil && !bytes.Equal(re, norm) {
				run.Violation("C08:noncanonical-accept:"+label,
					fmt.Sprintf("reader=%s accepted %q which re-armors to %q; with the documented tolerances removed the text is %q", kind, tr(in), tr(re), tr(norm)), rep(kind, label, in))
				return
			}
		} else {
			if !r.typed {
				run.Violation("C08:untyped-error:"+label, fmt.Sprintf("reader=%s: de-armoring %q failed with %T (%v), not *armor.Error", kind, tr(in), r.err, r.err), rep(kind, label, in))
				return
			}
			if !r.stick {
				// C08 does not speak about calls after the error; "a failed stream keeps failing" is C13's clause and is judged there
				run.Drift("reader returned data or a clean result after an error (%s)", label)
			}
		}
		if ki > 0 && (r.ok != first.ok || !bytes.Equal(r.data, first.data)) {
			run.Violation("C08:delivery-dependent:"+label, fmt.Sprintf("result differs between %s (ok=%v, %d bytes) and %s (ok=%v, %d bytes) delivery of %q", kinds[0], first.ok, len(first.data), kind, r.ok, len(r.data), tr(in)), rep(kind, label, in))
			return
		}
	}
	if specOK != nil && *specOK != first.ok {
		run.Drift("verdict differs from specification (spec ok=%v, code ok=%v) for %s", *specOK, first.ok, label)
	}
}

func tr(b []byte) string {
	if len(b) > 200 {
		return string(b[:110]) + "…" + string(b[len(b)-80:])
	}
	return string(b)
}

// CheckWrite evaluates the writer-side predicates on one schedule.
func CheckWrite(run *vk.Run, data []byte, sizes []int, specOut []byte, label string) {
	out, err, pan := ArmorBytes(data, sizes)
	run.Eval(1)
	rp := map[string]interface{}{"check": "C08.write", "data": vk.Ints(data), "writes": sizes}
	if pan != nil {
		run.Violation("C08:writer-panic:"+label, fmt.Sprint(pan), rp)
		return
	}
	if err != nil {
		run.Violation("C08:writer-error:"+label, err.Error(), rp)
		return
	}
	r := Dearmor("bytes", out)
	if !r.ok || !bytes.Equal(r.data, data) {
		run.Violation("C08:writer-roundtrip:"+label, fmt.Sprintf("armoring %d bytes with writes %v gives text %q that de-armors to ok=%v err=%v (%d bytes)", len(data), sizes, tr(out), r.ok, r.err, len(r.data)), rp)
		return
	}
	if specOut != nil && !bytes.Equal(out, specOut) {
		run.Drift("writer output differs from Armor(b) for writes %v", sizes)
	}
}

func sizesKey(s []int) string {
	parts := make([]string, len(s))
	for i, n := range s {
		parts[i] = fmt.Sprint(n)
	}
	return "[" + strings.Join(parts, ",") + "]"
}

func set(xs ...string) string {
	q := make([]string, len(xs))
	for i, x := range xs {
		q[i] = `"` + x + `"`
	}
	return "{" + strings.Join(q, ",") + "}"
}

func readCfg(seed int64, pre, begin, full, short, end, post, bad, cont string, maxPre, maxFull, maxPost, maxCont int) string {
	return fmt.Sprintf(`SPECIFICATION Spec
CONSTANTS
 Mode = "read"
 Seed = %d
 WriteSizes = {}
 MaxWrites = 0
 MaxTotal = 0
 PreWS = %s
 BeginCls = %s
 FullCls = %s
 ShortCls = %s
 EndCls = %s
 PostWS = %s
 BadCls = %s
 ContCls = %s
 MaxPre = %d
 MaxFull = %d
 MaxPost = %d
 MaxCont = %d
INVARIANTS ReadEmit
CHECK_DEADLOCK FALSE
`, seed%50, pre, begin, full, short, end, post, bad, cont, maxPre, maxFull, maxPost, maxCont)
}

func writeCfg(seed int64, sizes string, maxWrites, maxTotal int) string {
	return fmt.Sprintf(`SPECIFICATION Spec
CONSTANTS
 Mode = "write"
 Seed = %d
 WriteSizes = %s
 MaxWrites = %d
 MaxTotal = %d
 PreWS = {}
 BeginCls = {}
 FullCls = {}
 ShortCls = {}
 EndCls = {}
 PostWS = {}
 BadCls = {}
 ContCls = {}
 MaxPre = 0
 MaxFull = 0
 MaxPost = 0
 MaxCont = 0
INVARIANTS WriterMatchesArmor HeaderBeforeBody PendingSmall WriteEmit
CHECK_DEADLOCK FALSE
`, seed%50, sizes, maxWrites, maxTotal)
}

var allBad = []string{"full_b", "short47", "short46", "empty", "empty_crlf", "crcr", "long", "long65", "noncanon", "nopad", "midpad", "trail_sp", "lead_sp", "cr_in", "cr_lead", "cr_trail2", "kv", "garbage", "lower_marker", "sp_marker", "sp_end", "wrong_type", "pgp_crc", "partial", "ws1", "BEGIN", "short3", "ws_badutf", "ws_zwsp", "ws_nbsp"}

func runRead(run *vk.Run, what, cfg string) {
	res := run.TLC(what, vk.TLCOpts{Module: "ArmorGen", Config: cfg, Workers: 16, Timeout: 45 * time.Minute})
	if res.Violated != "" || !res.OK {
		vk.Infra("ArmorGen %s: specification-level failure: %s\n%s", what, res.Violated, res.Output)
	}
	lines := res.PrintsWithPrefix("CASE ")
	cases := make([]rcase, len(lines))
	for i, l := range lines {
		if err := json.Unmarshal([]byte(l), &cases[i]); err != nil {
			vk.Infra("bad CASE: %v", err)
		}
	}
	if len(cases) == 0 {
		vk.Infra("ArmorGen %s produced no cases", what)
	}
	acc := 0
	vk.Parallel(len(cases), 16, func(i int) {
		c := &cases[i]
		label := strings.Join(c.Path, ",")
		ok := c.Ok
		CheckRead(run, vk.Bytes(c.Input), vk.Bytes(c.Norm), &ok, label, rd.Kinds)
		run.Distinct(what + ":" + label)
	})
	for _, c := range cases {
		if c.Ok {
			acc++
		}
	}
	c := cases[len(cases)/3]
	run.Sample(map[string]interface{}{"generator": what, "path": c.Path, "text": string(vk.Bytes(c.Input)), "spec_ok": c.Ok})
	run.Add("cases_"+what, len(cases))
	run.Add("accepted_by_spec_"+what, acc)
}

func runWrite(run *vk.Run, what, cfg string) {
	res := run.TLC(what, vk.TLCOpts{Module: "ArmorGen", Config: cfg, Workers: 16})
	if res.Violated != "" || !res.OK {
		vk.Infra("ArmorGen %s: specification-level failure: %s\n%s", what, res.Violated, res.Output)
	}
	lines := res.PrintsWithPrefix("CASE ")
	if len(lines) == 0 {
		vk.Infra("ArmorGen %s produced no cases", what)
	}
	cases := make([]wcase, len(lines))
	for i, l := range lines {
		if err := json.Unmarshal([]byte(l), &cases[i]); err != nil {
			vk.Infra("bad CASE: %v", err)
		}
	}
	vk.Parallel(len(cases), 16, func(i int) {
		c := &cases[i]
		CheckWrite(run, vk.Bytes(c.Data), c.Writes, vk.Bytes(c.Out), "writes="+sizesKey(c.Writes))
		run.Distinct(what + ":" + sizesKey(c.Writes))
	})
	run.Sample(map[string]interface{}{"generator": what, "writes": cases[len(cases)/2].Writes})
	run.Add("cases_"+what, len(cases))
}

// Run is the C08 check.
func Run(tier string) {
	run := vk.NewRun("C08", tier, "model_checking")
	run.Rule("TLC enumerates armor texts as paths of line classes through the phases pre/body/short/post with malformed classes at every position followed by up to MaxCont further lines, checks ArmorCanonical on the specification and emits text+verdict+normal form; each text is de-armored by armor.NewReader under 8 delivery kinds. TLC enumerates all write schedules over the size set (writer machine, checked equal to Armor(b)); each is replayed into armor.NewWriter. Oracle mode: mutated valid armor recorded from the implementation and judged by TLC. A case is distinct by class path / write schedule.")
	run.Assume("AgeArmor.tla: tolerances are exactly whitespace-only lines before BEGIN, CR before LF, whitespace after END, missing final LF, where whitespace is what Go's bytes.TrimSpace removes (ASCII and the Unicode space characters in UTF-8; modelled as implemented). The exact 1024-byte whitespace limits are exercised by the reader machine (ArmorRead.tla), not by the byte-level generator")
	seed := run.Seed
	pre := set("ws1", "ws_crlf", "crcr", "ws_nbsp")
	if run.Thorough() {
		runRead(run, "good", readCfg(seed, set("ws1", "ws_crlf", "crcr", "ws_big", "ws_nbsp"), set("BEGIN", "BEGIN_crlf"), set("full", "full_b", "full_crlf"), set("short1", "short2", "short3", "short46", "short47", "short3_crlf"), set("END", "END_nolf", "END_crlf"), set("ws1", "ws_crlf", "ws_uni"), "{}", "{}", 2, 3, 2, 0))
		runRead(run, "bad", readCfg(seed, pre, set("BEGIN"), set("full", "full_crlf"), set("short3", "short47"), set("END", "END_nolf"), set("ws1"), set(allBad...), set("END", "full", "short3", "garbage", "ws1"), 1, 2, 1, 3))
		runWrite(run, "write", writeCfg(seed, "{0,1,2,3,47,48,49,95,96,97}", 4, 300))
		run.Exhaustive()
	} else {
		runRead(run, "good", readCfg(seed, pre, set("BEGIN", "BEGIN_crlf"), set("full", "full_crlf"), set("short1", "short3", "short47", "short3_crlf"), set("END", "END_nolf", "END_crlf"), set("ws1", "ws_crlf", "ws_nbsp"), "{}", "{}", 1, 2, 1, 0))
		runRead(run, "bad", readCfg(seed, set("ws1"), set("BEGIN"), set("full"), set("short3"), set("END"), set("ws1"), set(allBad...), set("END", "full", "garbage"), 1, 2, 1, 2))
		runWrite(run, "write", writeCfg(seed, "{0,1,2,3,47,48,49,96}", 3, 200))
	}
	// the reader as a machine: every Read call of every behaviour of ArmorRead.tla replayed against armor.NewReader
	if run.Thorough() {
		armrd.Run(run, "reader-machine-full-alphabet", armrd.Config(2, 1, 8, 1, "{48}", 5, false, true), "", 0)
		armrd.Run(run, "reader-machine", armrd.Config(1, 1, 9, 2, "{0, 1, 47, 48, 100}", 8, false, true), "", 0)
		armrd.Run(run, "reader-machine-2dev", armrd.Config(1, 2, 8, 1, "{1, 48}", 6, false, true), "", 0)
		armrd.Run(run, "reader-machine-all-seqs", armrd.Config(0, 0, 6, 1, "{1, 48, 100}", 8, false, true), "", 0)
	} else {
		armrd.Run(run, "reader-machine", armrd.Config(1, 1, 8, 1, "{1, 48, 100}", 8, false, true), "", 0)
	}
	// the armoring writer as a machine (ArmorWrite.tla): every history of writes and closes, no destination failure
	if run.Thorough() {
		armwr.Run(run, "writer-machine", armwr.Config("{0, 1, 2, 3, 47, 48, 49, 96, 800}", 4, 2, 0, "{}", true))
	} else {
		armwr.Run(run, "writer-machine", armwr.Config("{0, 1, 2, 3, 47, 48, 50, 800}", 3, 1, 0, "{}", true))
	}
	sizesSweep(run)
	byteSweep(run)
	splitSweep(run)
	oracle(run, rand.New(rand.NewSource(seed)))
	run.Finish()
}

// splitSweep: the last body line (60, 56, 44 or a full 64 columns, alone or after a full line) cut by line breaks at every
// choice of up to four 4-aligned positions (LF; CRLF for a stripe): the pieces are short lines that are not last, so the
// text must be refused, however the pieces add up (e.g. five 12-column lines are 65 bytes, the size of a full line).
func splitSweep(run *vk.Run) {
	const begin, end = "-----BEGIN AGE ENCRYPTED FILE-----\n", "-----END AGE ENCRYPTED FILE-----\n"
	data := make([]byte, 96)
	for i := range data {
		data[i] = byte(i*37 + 11)
	}
	full := base64.StdEncoding.EncodeToString(data[:48])
	n := 0
	for _, cols := range []int{60, 56, 44, 64} {
		last := base64.StdEncoding.EncodeToString(data[48 : 48+cols/4*3])
		var pos []int
		for p := 4; p < cols; p += 4 {
			pos = append(pos, p)
		}
		var rec func(start int, chosen []int)
		emit := func(chosen []int) {
			for _, prefix := range []string{"", full + "\n"} {
				for _, br := range []string{"\n", "\r\n"} {
					if br == "\r\n" && (len(chosen)+chosen[0])%5 != 0 {
						continue
					}
					var b strings.Builder
					prev := 0
					for _, c := range chosen {
						b.WriteString(last[prev:c])
						b.WriteString(br)
						prev = c
					}
					b.WriteString(last[prev:])
					in := []byte(begin + prefix + b.String() + "\n" + end)
					// no tolerance makes this text canonical: if it is accepted, re-armoring cannot give it back
					CheckRead(run, in, in, nil, fmt.Sprintf("split:%d:%v:%q", cols, chosen, br), rd.Kinds[:2])
					n++
				}
			}
		}
		rec = func(start int, chosen []int) {
			if len(chosen) > 0 {
				emit(chosen)
			}
			if len(chosen) == 4 {
				return
			}
			for i := start; i < len(pos); i++ {
				rec(i+1, append(append([]int{}, chosen...), pos[i]))
			}
		}
		rec(0, nil)
	}
	run.Distinct("split-sweep")
	run.Add("split_sweep_texts", n)
}

// byteSweep: every byte value at every position of a short and of a full body line (and appended to them). Whatever is
// accepted must re-armor to exactly the text (no tolerance applies inside the body); the line classes of ArmorGen hold a
// few representatives, a table-driven decoder can be wrong for a single character.
func byteSweep(run *vk.Run) {
	const begin, end = "-----BEGIN AGE ENCRYPTED FILE-----\n", "-----END AGE ENCRYPTED FILE-----\n"
	full := base64.StdEncoding.EncodeToString(bytes.Repeat([]byte{0xa5, 0x3c, 0x0f}, 16))
	n := 0
	for _, body := range []string{"QUJD", "QUI=", "QQ==", full + "\nQUJD", full} {
		for pos := 0; pos <= len(body); pos++ {
			for c := 0; c < 256; c++ {
				var line string
				if pos == len(body) {
					line = body + string([]byte{byte(c)})
				} else {
					if body[pos] == '\n' {
						continue
					}
					line = body[:pos] + string([]byte{byte(c)}) + body[pos+1:]
				}
				in := []byte(begin + line + "\n" + end)
				norm := in
				if c == '\r' && pos == len(body) {
					norm = []byte(begin + body + "\n" + end) // CR before LF is the documented tolerance
				}
				if c == '\n' {
					continue // splits the line: line structures are the class generators' business
				}
				CheckRead(run, in, norm, nil, fmt.Sprintf("byte-sweep:%q/pos=%d/byte=%d", body[:4], pos, c), rd.Kinds[:2])
				n++
			}
		}
	}
	run.Distinct("byte-sweep")
	run.Add("byte_sweep_texts", n)
}

// sizesSweep: every length 0..200 and around multiples of 48 further out, under a few segmentations.
func sizesSweep(run *vk.Run) {
	var lens []int
	for n := 0; n <= 200; n++ {
		lens = append(lens, n)
	}
	for _, k := range []int{10, 64, 85, 86, 100} { // 85*48=4080, 86*48=4128 straddle a 4096-byte buffer
		for d := -1; d <= 1; d++ {
			lens = append(lens, k*48+d)
		}
	}
	data := make([]byte, 5000)
	for i := range data {
		data[i] = byte(i*7 + i/251)
	}
	for _, n := range lens {
		for _, segs := range [][]int{{n}, split(n, 1), split(n, 3), split(n, 48), split(n, 49), {0, n, 0}} {
			CheckWrite(run, data[:n], segs, nil, fmt.Sprintf("len=%d/seg=%d", n, len(segs)))
		}
		run.Distinct(fmt.Sprintf("sweep:%d", n))
	}
	run.Add("cases_size_sweep", len(lens))
}

func split(n, k int) []int {
	var out []int
	for n > 0 {
		m := k
		if m > n {
			m = n
		}
		out = append(out, m)
		n -= m
	}
	if out == nil {
		out = []int{}
	}
	return out
}

type orec struct {
	Name  string `json:"name"`
	Input []int  `json:"input"`
	Ok    bool   `json:"ok"`
	Bytes []int  `json:"bytes"`
}

func oracle(run *vk.Run, rng *rand.Rand) {
	var recs []interface{}
	var inputs [][]byte
	add := func(name string, in []byte) {
		r := Dearmor("bytes", in)
		o := orec{Name: name, Input: vk.Ints(in), Ok: r.ok, Bytes: []int{}}
		if r.ok {
			o.Bytes = vk.Ints(r.data)
		}
		recs = append(recs, o)
		inputs = append(inputs, in)
	}
	var bases [][]byte
	for _, n := range []int{0, 1, 2, 3, 47, 48, 49, 96, 100, 144} {
		d := make([]byte, n)
		rng.Read(d)
		b, _, _ := ArmorBytes(d, []int{n})
		bases = append(bases, b)
		add(fmt.Sprintf("base%d", n), b)
	}
	subs := []byte{' ', '\n', '\r', '-', '=', 'A', '/', '+', 0x7f, 0x80, 0, '\t', ':'}
	nmut := run.Pick(1200, 12000)
	for i := 0; i < nmut; i++ {
		b := append([]byte{}, bases[rng.Intn(len(bases))]...)
		pos := rng.Intn(len(b))
		name := ""
		switch rng.Intn(7) {
		case 0:
			b[pos] = subs[rng.Intn(len(subs))]
			name = "subst"
		case 1:
			b = append(b[:pos], append([]byte{subs[rng.Intn(len(subs))]}, b[pos:]...)...)
			name = "insert"
		case 2:
			b = append(b[:pos], b[pos+1:]...)
			name = "delete"
		case 3:
			lines := bytes.SplitAfter(b, []byte("\n"))
			k := rng.Intn(len(lines))
			var nb []byte
			for j, l := range lines {
				nb = append(nb, l...)
				if j == k {
					nb = append(nb, l...)
				}
			}
			b = nb
			name = "dupline"
		case 4:
			b = b[:pos]
			name = "truncate"
		case 5:
			b = bytes.ReplaceAll(b, []byte("\n"), []byte("\r\n"))
			if rng.Intn(2) == 0 {
				b = append([]byte(" \r\n\t\n"), b...)
			}
			b = append(b, bytes.Repeat([]byte("\n "), rng.Intn(5))...)
			name = "tolerated"
		case 6:
			b = append(b, subs[rng.Intn(len(subs))])
			name = "append"
		}
		add(fmt.Sprintf("%s@%d#%d", name, pos, i), b)
	}
	// large bodies with trailing whitespace/garbage around internal buffer sizes
	for _, n := range []int{2950, 3000, 3050} {
		d := make([]byte, n)
		rng.Read(d)
		b, _, _ := ArmorBytes(d, []int{n})
		for _, tail := range []string{"", strings.Repeat("\n", 700), strings.Repeat("\n", 700) + "x", strings.Repeat(" ", 1023), strings.Repeat(" ", 1024), strings.Repeat("\n", 1500)} {
			add(fmt.Sprintf("bigtail%d+%d", n, len(tail)), append(append([]byte{}, b...), tail...))
		}
	}
	// binding self-test: a falsified record must be singled out by TLC
	recs = append(recs, orec{Name: "selftest-falsified", Input: vk.Ints(bases[3]), Ok: false, Bytes: []int{}})
	selfIdx := len(recs)
	dir, err := os.MkdirTemp("", "c08o-")
	if err != nil {
		vk.Infra("%v", err)
	}
	defer os.RemoveAll(dir)
	path := filepath.Join(dir, "cases.ndjson")
	if err := vk.WriteNDJSON(path, recs); err != nil {
		vk.Infra("%v", err)
	}
	cfg := "SPECIFICATION Spec\nCONSTANT NShards = 16\nINVARIANT Judge\nCHECK_DEADLOCK FALSE\n"
	res := run.TLC("oracle", vk.TLCOpts{Module: "ArmorOracle", Config: cfg, Workers: 16, Env: map[string]string{"CASES": path}})
	if res.Violated != "" || !res.OK {
		vk.Infra("ArmorOracle failed: %s\n%s", res.Violated, res.Output)
	}
	run.Traces(len(recs) - 1)
	norms := map[int][]byte{}
	selfSeen := false
	for _, l := range res.PrintsWithPrefix("BAD ") {
		var v struct {
			I    int    `json:"i"`
			Why  string `json:"why"`
			Name string `json:"name"`
			Norm []int  `json:"norm"`
		}
		if err := json.Unmarshal([]byte(l), &v); err == nil && v.I == selfIdx {
			selfSeen = true
			continue
		}
		if err := json.Unmarshal([]byte(l), &v); err != nil || v.I < 1 || v.I > len(inputs) {
			vk.Infra("bad BAD line %q", l)
		}
		norms[v.I-1] = vk.Bytes(v.Norm)
		run.Drift("oracle disagreement (%s) on %s", v.Why, v.Name)
	}
	for i, in := range inputs {
		name := recs[i].(orec).Name
		kinds := rd.Kinds
		if len(in) > 2000 {
			kinds = []string{"bytes", "onebyte", "dataerr", "bufio16"}
		}
		// norm == nil for records TLC accepted as canonical: then canonicity was established by TLC on the
		// recorded result, and only type/stickiness/delivery predicates remain to be evaluated here.
		CheckRead(run, in, norms[i], nil, "oracle:"+strings.SplitN(name, "#", 2)[0], kinds)
	}
	if !selfSeen {
		vk.Infra("binding self-test failed: ArmorOracle did not flag a falsified record")
	}
	run.Set("binding_selftest", "falsified record flagged by ArmorOracle")
	run.Add("oracle_records", len(recs)-1)
	run.Add("oracle_disagreements", len(norms))
	run.Sample(map[string]interface{}{"generator": "oracle", "name": recs[len(recs)/2].(orec).Name, "text": string(inputs[len(recs)/2])})
}

// HostileInputs returns TLC-generated armor texts (every reject edge of the armor grammar) for C14.
func HostileInputs(run *vk.Run) [][]byte {
	cfg := readCfg(run.Seed, set("ws1"), set("BEGIN"), set("full"), set("short3"), set("END"), set("ws1"), set(allBad...), set("END", "full", "garbage"), 1, 2, 1, 2)
	res := run.TLC("armor-grammar", vk.TLCOpts{Module: "ArmorGen", Config: cfg, Workers: 16})
	if res.Violated != "" || !res.OK {
		vk.Infra("ArmorGen: %s\n%s", res.Violated, res.Output)
	}
	var out [][]byte
	for _, l := range res.PrintsWithPrefix("CASE ") {
		var c rcase
		if json.Unmarshal([]byte(l), &c) == nil {
			out = append(out, vk.Bytes(c.Input))
		}
	}
	return out
}
