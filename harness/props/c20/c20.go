// Package c20: shared recipients and identities are safe under concurrency.
package c20

import (
	"bytes"
	"encoding/json"
	"fmt"
	"io"
	"os"
	"os/exec"
	"path/filepath"
	"regexp"
	"runtime"
	"strconv"
	"strings"
	"sync"
	"sync/atomic"
	"time"

	"filippo.io/age"
	"filippo.io/age/internal/verifhook"
	"filippo.io/age/xverif/internal/conc"
	"filippo.io/age/xverif/internal/vk"
)

type ccase struct {
	Progs [][]string `json:"progs"`
	Sched []int      `json:"sched"`
}

// ---------------------------------------------------------------- gate mode

type gates struct {
	mu      sync.Mutex
	procOf  map[int64]int
	arrived []chan struct{} // proc p reached a gate
	release []chan struct{} // controller lets proc p run its next segment
	done    []chan struct{}
	active  bool
}

var goidRe = regexp.MustCompile(`^goroutine (\d+) `)

func goid() int64 {
	var buf [64]byte
	n := runtime.Stack(buf[:], false)
	m := goidRe.FindSubmatch(buf[:n])
	if m == nil {
		return -1
	}
	id, _ := strconv.ParseInt(string(m[1]), 10, 64)
	return id
}

var current *gates
var currentMu sync.RWMutex

func pointFn(name string) {
	currentMu.RLock()
	g := current
	currentMu.RUnlock()
	if g == nil {
		return
	}
	g.mu.Lock()
	p, ok := g.procOf[goid()]
	g.mu.Unlock()
	if !ok {
		return
	}
	g.gate(p)
}

func (g *gates) gate(p int) {
	g.arrived[p] <- struct{}{}
	<-g.release[p]
}

// runSchedule forces one interleaving of the model on real goroutines.
func runSchedule(s *conc.Shared, c *ccase) ([][]conc.Result, string) {
	n := len(c.Progs)
	g := &gates{procOf: map[int64]int{}}
	for p := 0; p < n; p++ {
		g.arrived = append(g.arrived, make(chan struct{}))
		g.release = append(g.release, make(chan struct{}))
		g.done = append(g.done, make(chan struct{}))
	}
	currentMu.Lock()
	current = g
	currentMu.Unlock()
	defer func() {
		currentMu.Lock()
		current = nil
		currentMu.Unlock()
	}()
	results := make([][]conc.Result, n)
	for p := 0; p < n; p++ {
		go func(p int) {
			defer close(g.done[p])
			g.mu.Lock()
			g.procOf[goid()] = p
			g.mu.Unlock()
			for _, op := range c.Progs[p] {
				g.gate(p) // the operation's entry step
				results[p] = append(results[p], s.Do(op))
			}
		}(p)
	}
	blocked := make([]bool, n)
	finished := make([]bool, n)
	wait := func(p int) string { // wait until proc p blocks at a gate or finishes
		select {
		case <-g.arrived[p]:
			blocked[p] = true
		case <-g.done[p]:
			finished[p] = true
		case <-time.After(30 * time.Second):
			return fmt.Sprintf("process %d neither reached a hook point nor finished within 30 s", p+1)
		}
		return ""
	}
	for p := 0; p < n; p++ {
		if msg := wait(p); msg != "" {
			return nil, msg
		}
	}
	step := func(p int) string {
		if finished[p] || !blocked[p] {
			return ""
		}
		blocked[p] = false
		g.release[p] <- struct{}{}
		return wait(p)
	}
	for _, sp := range c.Sched {
		if msg := step(sp - 1); msg != "" {
			return nil, msg
		}
	}
	// the model's schedule is complete; let whatever is left run to the end, one process at a time
	for again := true; again; {
		again = false
		for p := 0; p < n; p++ {
			if !finished[p] {
				again = true
				if msg := step(p); msg != "" {
					return nil, msg
				}
			}
		}
	}
	return results, ""
}

func cfg(procs, programs string) string {
	return fmt.Sprintf("SPECIFICATION Spec\nCONSTANTS\n Procs = %s\n Programs <- %s\n WritesShared = FALSE\nINVARIANTS NoSharedWrite ResultAsAlone Emit\nCHECK_DEADLOCK FALSE\n", procs, programs)
}

// Run is the C20 check.
func Run(tier string) {
	run := vk.NewRun("C20", tier, "exploration")
	run.Rule("TLC (Conc.tla) enumerates every interleaving of 2 processes (thorough: 3) running programs of 1-2 operations (Encrypt to the shared recipient, Decrypt with the shared identity) split at the implementation's hook points, with NoSharedWrite/ResultAsAlone as invariants of the design. Gate mode: a sample of the complete schedules is forced onto real goroutines by blocking hooks, for one shared value of each type (X25519, passphrase, ssh-ed25519, ssh-rsa); every operation must yield what it yields alone. Race mode: a binary built with -race runs the model's operation mixes free-running on shared values (4-16 goroutines, payloads 0-3 chunks, Gosched perturbation in the hooks only); any race report or wrong result is a violation. Distinct = (schedule or history, key type).")
	run.Assume("data races are observed by the Go race detector, not by the model; gate mode adds synchronisation and is therefore kept separate from race mode")
	verifhook.PointFn = pointFn
	res := run.TLC("interleavings", vk.TLCOpts{Module: "ConcMC", Config: cfg("{1, 2}", "Progs2"), Workers: 16})
	if res.Violated != "" || !res.OK {
		vk.Infra("Conc.tla: %s\n%s", res.Violated, res.Output)
	}
	lines := res.PrintsWithPrefix("CASE ")
	if run.Thorough() {
		res3 := run.TLC("interleavings-3", vk.TLCOpts{Module: "ConcMC", Config: cfg("{1, 2, 3}", "Progs1"), Workers: 16})
		if res3.Violated != "" || !res3.OK {
			vk.Infra("Conc.tla: %s", res3.Violated)
		}
		lines = append(lines, res3.PrintsWithPrefix("CASE ")...)
	}
	var cases []ccase
	stride := run.Pick(67, 7)
	for i, l := range lines {
		if (i+int(run.Seed))%stride != 0 {
			continue
		}
		var c ccase
		if err := json.Unmarshal([]byte(l), &c); err != nil {
			vk.Infra("bad CASE: %v", err)
		}
		cases = append(cases, c)
	}
	kinds := []string{"x25519", "scrypt", "ssh-ed25519", "ssh-rsa"}
	shared := map[string]*conc.Shared{}
	for _, k := range kinds {
		s, err := conc.NewShared(k, 300)
		if err != nil {
			vk.Infra("%v", err)
		}
		shared[k] = s
	}
	for i := range cases {
		c := &cases[i]
		k := kinds[i%len(kinds)]
		results, msg := runSchedule(shared[k], c)
		run.Eval(1)
		sig := fmt.Sprintf("%s/progs=%v/sched=%v", k, c.Progs, c.Sched)
		rp := map[string]interface{}{"check": "C20.gate", "kind": k, "case": c}
		if msg != "" {
			run.Violation("C20:stuck:"+sig, msg, rp)
			break
		}
		for p := range results {
			for _, r := range results[p] {
				if m := shared[k].Verify(r); m != "" {
					run.Violation("C20:result-differs-under-interleaving:"+k, fmt.Sprintf("schedule %v of programs %v on a shared %s value: process %d: %s", c.Sched, c.Progs, k, p+1, m), rp)
				}
			}
		}
		run.Distinct(sig)
	}
	verifhook.PointFn = nil
	ioGated(run, shared)
	run.Add("schedules_from_tlc", len(lines))
	run.Add("schedules_forced", len(cases))
	run.Sample(map[string]interface{}{"schedule": cases[len(cases)/2]})
	raceMode(run, lines)
	run.Finish()
}

// raceMode builds and runs the free-running driver under the race detector.
func raceMode(run *vk.Run, lines []string) {
	dir := os.Getenv("VCHECK_BIN")
	if dir == "" {
		vk.Infra("VCHECK_BIN not set")
	}
	bin := filepath.Join(dir, "vrace")
	args := []string{"build", "-race", "-tags", "verif", "-o", bin}
	if mf := os.Getenv("VERIF_MODFILE"); mf != "" {
		args = append(args, "-modfile="+mf)
	}
	build := exec.Command("go", append(args, "./cmd/vrace")...)
	build.Dir = filepath.Join(vk.VerifRoot(), "harness")
	build.Env = append(os.Environ(), "GOFLAGS=-mod=mod", "GOPROXY=off", "GOSUMDB=off", "CGO_ENABLED=1")
	if out, err := build.CombinedOutput(); err != nil {
		vk.Infra("building the race driver: %v\n%s", err, out)
	}
	// histories: the distinct program assignments of the model, widened to more goroutines by repetition
	seen := map[string]bool{}
	type hist struct {
		Progs [][]string `json:"progs"`
	}
	var hs []hist
	for _, l := range lines {
		var c ccase
		json.Unmarshal([]byte(l), &c)
		k := fmt.Sprint(c.Progs)
		if seen[k] {
			continue
		}
		seen[k] = true
		for _, mult := range []int{2, 4, 8} {
			var progs [][]string
			for m := 0; m < mult; m++ {
				progs = append(progs, c.Progs...)
			}
			hs = append(hs, hist{progs})
		}
	}
	if !run.Thorough() && len(hs) > 24 {
		var sel []hist
		for i := range hs {
			if (i+int(run.Seed))%(len(hs)/24+1) == 0 {
				sel = append(sel, hs[i])
			}
		}
		hs = sel
	}
	b, _ := json.Marshal(hs)
	hf := filepath.Join(dir, "histories.json")
	os.WriteFile(hf, b, 0o644)
	logPath := filepath.Join(dir, "race-report")
	cmd := exec.Command(bin, "-histories", hf, "-seed", fmt.Sprint(run.Seed), "-rounds", fmt.Sprint(run.Pick(2, 6)), "-stress", fmt.Sprint(run.Pick(1200, 8000)), "-stress-kinds", []string{"scrypt,x25519", "scrypt,x25519,ssh-ed25519"}[run.Pick(0, 1)])
	cmd.Env = append(os.Environ(), "GORACE=log_path="+logPath+" exitcode=66 halt_on_error=0")
	out, err := cmd.CombinedOutput()
	run.Eval(len(hs))
	reports, _ := filepath.Glob(logPath + "*")
	nrep := 0
	first := ""
	for _, r := range reports {
		rb, _ := os.ReadFile(r)
		nrep += strings.Count(string(rb), "WARNING: DATA RACE")
		if first == "" && len(rb) > 0 {
			first = string(rb)
			keep := filepath.Join(vk.VerifRoot(), "replays", "C20")
			os.MkdirAll(keep, 0o755)
			os.WriteFile(filepath.Join(keep, "race-report.txt"), rb, 0o644)
		}
	}
	if nrep > 0 {
		// signature: the first frame inside the repository
		fr := regexp.MustCompile(`filippo\.io/age[^\s(]*\.[A-Za-z(*).]+`).FindString(first)
		run.Violation("C20:data-race:"+fr, fmt.Sprintf("%d data race reports while goroutines shared one recipient/identity value; first report:\n%s", nrep, truncate(first, 1500)), map[string]interface{}{"check": "C20.race", "report": filepath.Join(vk.VerifRoot(), "replays", "C20", "race-report.txt")})
	}
	if strings.Contains(string(out), "DEADLOCK ") {
		run.Violation("C20:deadlock-under-concurrency", truncate(string(out), 1200), map[string]interface{}{"check": "C20.race"})
	} else if strings.Contains(string(out), "WRONG-RESULT") {
		run.Violation("C20:wrong-result-under-concurrency", truncate(string(out), 1200), map[string]interface{}{"check": "C20.race"})
	} else if err != nil && nrep == 0 {
		vk.Infra("race driver failed: %v\n%s", err, truncate(string(out), 2000))
	}
	m := regexp.MustCompile(`OPS (\d+) WRONG (\d+)`).FindStringSubmatch(string(out))
	if m != nil {
		n, _ := strconv.Atoi(m[1])
		run.Add("race_mode_operations", n)
	}
	for i := range hs {
		run.Distinct(fmt.Sprintf("race:%v", hs[i].Progs))
	}
	run.Add("race_mode_histories", len(hs))
	run.Add("race_reports", nrep)
}

func truncate(s string, n int) string {
	if len(s) > n {
		return s[:n] + "…"
	}
	return s
}

// gatedReader delivers the header, then blocks until released: the Decrypt call using it is suspended between unwrapping
// the file key and reading the payload nonce.
type gatedReader struct {
	b       []byte
	pos     int
	stopAt  int
	blocked chan struct{}
	release chan struct{}
	once    sync.Once
}

func (g *gatedReader) Read(p []byte) (int, error) {
	if g.pos >= g.stopAt {
		g.once.Do(func() { close(g.blocked); <-g.release })
	}
	if g.pos >= len(g.b) {
		return 0, io.EOF
	}
	end := len(g.b)
	if g.pos < g.stopAt {
		end = g.stopAt
	}
	n := copy(p, g.b[g.pos:end])
	g.pos += n
	return n, nil
}

// ioGated: one Decrypt is held at its payload while many other Decrypts with the SAME identity value run to completion;
// when released it must still produce its own plaintext (an I/O schedule as interleaving, complementing the hook gates).
func ioGated(run *vk.Run, shared map[string]*conc.Shared) {
	trials := run.Pick(6, 40)
	for _, k := range []string{"x25519", "scrypt", "ssh-ed25519", "ssh-rsa"} {
		s := shared[k]
		hdrEnd := bytes.Index(s.File, []byte("\n--- "))
		if hdrEnd < 0 {
			vk.Infra("no header end")
		}
		hdrEnd += 1 + bytes.IndexByte(s.File[hdrEnd+1:], '\n') + 1
		var others [][]byte
		var plains [][]byte
		for i := 0; i < 8; i++ {
			pt := []byte(fmt.Sprintf("other plaintext %d for %s", i, k))
			f, err := conc.EncryptWith(s.Recipient, pt)
			if err != nil {
				vk.Infra("%v", err)
			}
			others, plains = append(others, f), append(plains, pt)
		}
		for t := 0; t < trials; t++ {
			g := &gatedReader{b: s.File, stopAt: hdrEnd, blocked: make(chan struct{}), release: make(chan struct{})}
			type res struct {
				out []byte
				err error
			}
			done := make(chan res, 1)
			go func() {
				defer func() {
					if p := recover(); p != nil {
						done <- res{nil, fmt.Errorf("panic: %v", p)}
					}
				}()
				r, err := age.Decrypt(g, s.Identity)
				if err != nil {
					done <- res{nil, err}
					return
				}
				b, err := io.ReadAll(r)
				done <- res{b, err}
			}()
			panicked := false
			select {
			case <-g.blocked:
			case r := <-done:
				if r.err != nil && strings.HasPrefix(r.err.Error(), "panic: ") {
					run.Violation("C20:result-differs-under-io-schedule:"+k, "a Decrypt panicked: "+r.err.Error(), map[string]interface{}{"check": "C20.iogated", "kind": k})
					panicked = true
					break
				}
				vk.Infra("gated Decrypt finished before reaching the payload: %v", r.err)
			case <-time.After(30 * time.Second):
				vk.Infra("gated Decrypt did not reach the payload")
			}
			if panicked {
				break
			}
			var wg sync.WaitGroup
			var wrong int32
			for j := 0; j < 2*runtime.GOMAXPROCS(0); j++ {
				wg.Add(1)
				go func(j int) {
					defer wg.Done()
					defer func() {
						if p := recover(); p != nil {
							atomic.AddInt32(&wrong, 1)
						}
					}()
					r, err := age.Decrypt(bytes.NewReader(others[j%len(others)]), s.Identity)
					if err != nil {
						atomic.AddInt32(&wrong, 1)
						return
					}
					b, err := io.ReadAll(r)
					if err != nil || !bytes.Equal(b, plains[j%len(others)]) {
						atomic.AddInt32(&wrong, 1)
					}
				}(j)
			}
			wg.Wait()
			close(g.release)
			r := <-done
			run.Eval(1)
			if r.err != nil || !bytes.Equal(r.out, s.Plain) || wrong > 0 {
				run.Violation("C20:result-differs-under-io-schedule:"+k, fmt.Sprintf("a Decrypt suspended before its payload while %d other Decrypts shared the %s identity value: %v (%d of the others wrong)", 2*runtime.GOMAXPROCS(0), k, r.err, wrong), map[string]interface{}{"check": "C20.iogated", "kind": k})
				break
			}
		}
		run.Distinct("io-gated:" + k)
	}
}
