// Package c17: only validly named plugins on PATH are ever executed.
package c17

import (
	"bytes"
	"encoding/json"
	"fmt"
	"os"
	"path/filepath"
	"sort"
	"strings"
	"sync"
	"time"

	"filippo.io/age"
	"filippo.io/age/internal/bech32"
	"filippo.io/age/internal/format"
	"filippo.io/age/plugin"
	"filippo.io/age/xverif/internal/vk"
	"filippo.io/age/xverif/internal/world"
)

type gcase struct {
	Class   string `json:"class"`
	Kind    string `json:"kind"`
	Input   []int  `json:"input"`
	Ok      bool   `json:"ok"`
	Key     []int  `json:"key"`
	Name    []int  `json:"name"`
	Payload int    `json:"payload"`
}

func str(cps []int) string {
	var b strings.Builder
	for _, c := range cps {
		b.WriteRune(rune(c))
	}
	return b.String()
}

const sentinel = `#!/bin/sh
# sentinel: records that it was started, by which path, and what it was first told
IFS= read -r line
printf '%s|%s\n' 'SELFPATH' "$line" >> "LOGFILE"
exit 0
`

type env struct {
	root, first, second, tmp, cwd, log string
	mu                                 sync.Mutex
}

func (e *env) plant(dir, name string) {
	p := filepath.Join(dir, "age-plugin-"+name)
	if !strings.HasPrefix(filepath.Clean(p), e.root) {
		return // would escape the scratch tree (names with ..): nothing to plant, nothing may run either
	}
	os.MkdirAll(filepath.Dir(p), 0o755)
	if strings.ContainsAny(p, "'") {
		return
	}
	// the sentinel reports the path it was planted at (not $0, which is relative to whatever directory it was started from)
	os.WriteFile(p, []byte(strings.Replace(strings.Replace(sentinel, "LOGFILE", e.log, 1), "SELFPATH", p, 1)), 0o755)
}

func (e *env) logLines() []string {
	b, _ := os.ReadFile(e.log)
	return strings.Split(strings.TrimSpace(string(b)), "\n")
}

// started returns the sentinel paths whose first input line contains marker.
func (e *env) started(marker string) []string {
	var out []string
	for _, l := range e.logLines() {
		if p, rest, ok := strings.Cut(l, "|"); ok && strings.Contains(rest, marker) {
			out = append(out, p)
		}
	}
	return out
}

func validName(n string) bool {
	if n == "" {
		return false
	}
	for _, c := range n {
		if !(c >= 'a' && c <= 'z' || c >= 'A' && c <= 'Z' || c >= '0' && c <= '9' || strings.ContainsRune("+-._", c)) {
			return false
		}
	}
	return true
}

// Run is the C17 check.
func Run(tier string) {
	run := vk.NewRun("C17", tier, "model_checking")
	run.Rule("TLC (Bech32Gen.tla, mode plugin, over Bech32!ValidPluginName) enumerates every plugin name of 1..MaxName characters over the class alphabet {a Z 7 + - . _ / \\ ! ~ %} in recipient and identity strings with valid checksums, with the specified verdict; the same names are used bare (NewIdentityWithoutData, age -j). Every candidate program (age-plugin-NAME in two PATH directories, in the working directory, in TMPDIR, nested directories for names with separators) is a sentinel that records its own path and first input line. Library level: construct, and if construction succeeds call Wrap/Unwrap, then read the sentinel log. CLI level: age -r / -i / -j in a subprocess whose PATH also has a relative entry. Headers mentioning plugin-like stanza types are decrypted with native identities. Distinct = (position, name).")
	run.Assume("Unix path rules (separator '/'); sentinels are /bin/sh scripts")
	root, err := os.MkdirTemp("", "c17-")
	if err != nil {
		vk.Infra("%v", err)
	}
	defer os.RemoveAll(root)
	root, _ = filepath.EvalSymlinks(root)
	e := &env{root: root, first: filepath.Join(root, "path1"), second: filepath.Join(root, "path2"), tmp: filepath.Join(root, "tmp"), cwd: filepath.Join(root, "cwd"), log: filepath.Join(root, "sentinel.log")}
	for _, d := range []string{e.first, e.second, e.tmp, e.cwd, filepath.Join(e.cwd, "relbin"), filepath.Join(e.tmp, "relbin")} {
		os.MkdirAll(d, 0o755)
	}
	os.WriteFile(e.log, nil, 0o644)
	oldPath := os.Getenv("PATH")
	os.Setenv("PATH", e.first+":"+e.second+":"+oldPath)
	os.Setenv("TMPDIR", e.tmp)
	defer os.Setenv("PATH", oldPath)

	alpha := []int{'a', 'Z', '7', '+', '-', '.', '_', '/', '\\', '!', '~', '%'}
	cfg := fmt.Sprintf(`SPECIFICATION Spec
CONSTANTS
 Mode = "plugin"
 Seed = %d
 NShards = 16
 SubChars = {}
 NameAlphabet = %s
 InsChars = {}
 MaxName = %d
INVARIANTS Emit
CHECK_DEADLOCK FALSE
`, run.Seed%200, intSet(alpha), run.Pick(2, 3))
	res := run.TLC("names", vk.TLCOpts{Module: "Bech32Gen", Config: cfg, Workers: 16})
	if res.Violated != "" || !res.OK {
		vk.Infra("Bech32Gen: %s\n%s", res.Violated, res.Output)
	}
	// second run: every printable ASCII character as a one-character name (the class alphabet above has one
	// representative per class; a table- or regexp-driven check can be wrong for a single character of a class)
	var all []int
	for c := 33; c <= 126; c++ {
		all = append(all, c)
	}
	cfg1 := fmt.Sprintf("SPECIFICATION Spec\nCONSTANTS\n Mode = \"plugin\"\n Seed = %d\n NShards = 16\n SubChars = {}\n NameAlphabet = %s\n MaxName = 1\n InsChars = {}\nINVARIANTS Emit\nCHECK_DEADLOCK FALSE\n", run.Seed%200, intSet(all))
	res1 := run.TLC("names-every-character", vk.TLCOpts{Module: "Bech32Gen", Config: cfg1, Workers: 16})
	if res1.Violated != "" || !res1.OK {
		vk.Infra("Bech32Gen: %s\n%s", res1.Violated, res1.Output)
	}
	var cases []gcase
	names := map[string]bool{}
	for _, l := range append(res.PrintsWithPrefix("CASE "), res1.PrintsWithPrefix("CASE ")...) {
		var c gcase
		if err := json.Unmarshal([]byte(l), &c); err != nil {
			vk.Infra("bad CASE: %v", err)
		}
		if (c.Class != "plugin_canon" && c.Class != "plugin_junkfront") || c.Payload == 1 {
			continue // an empty and a non-empty payload (C09 covers the payload lengths); rejected names must stay in
		}
		cases = append(cases, c)
	}
	if len(cases) == 0 {
		vk.Infra("no plugin name cases")
	}
	// the name inside each string, recovered independently of the library: HRP without its fixed parts
	nameOf := func(c *gcase) string {
		s := str(c.Input)
		hrp := s[:strings.LastIndex(s, "1")]
		if c.Kind == "PR" {
			return strings.TrimPrefix(hrp, "age1")
		}
		return strings.ToLower(strings.TrimSuffix(strings.TrimPrefix(hrp, "AGE-PLUGIN-"), "-"))
	}
	// path-like values whose last element (with or without the age-plugin- prefix) is a valid name that IS on PATH
	extra := []string{"besidepath", "pwn/besidepath", "./age-plugin-besidepath", "../age-plugin-besidepath", "/usr/local/bin/age-plugin-besidepath", "age-plugin-besidepath/", "a,b", "a:b", "a;b", "a=b", "a@b", "a*", "a&b", "a|b", "a'b", "a\"b", "a(b", "a)b", "a<b", "a>b", "a?b", "a[b", "a]b", "a^b", "a`b", "a{b", "a}b", "a$b", "a#b", "foo", "Foo", "FOO", "x.y", "X.Y", "../x", "x/../y", ".x", "..", "/pwn", "/../../tmp/pwn", "a/b", "\\pwn", "~/bin/x", "*a", "a b", "a\tb", "é", "",
		// characters outside ASCII whose case mapping is an ASCII letter (a check on a case-normalised copy lets them in)
		"te\u017ft", "yub\u0131key", "\u212aey", "\u017f", "TE\u017fT"}
	for i := range cases {
		if cases[i].Class == "plugin_canon" { // (the junk-in-front strings have no name of their own)
			names[nameOf(&cases[i])] = true
		}
	}
	for _, n := range extra {
		names[n] = true
	}
	// plain names first; names with separators get nested sentinels where no plain sentinel is in the way
	for _, nested := range []bool{false, true} {
		for n := range names {
			if n == "" || strings.ContainsAny(n, "\x00") || strings.Contains(n, "/") != nested {
				continue
			}
			for _, d := range []string{e.first, e.second, e.tmp, e.cwd, filepath.Join(e.cwd, "relbin"), filepath.Join(e.tmp, "relbin")} {
				e.plant(d, n)
			}
		}
	}
	w := world.New(run.Seed)
	fileKey := []byte("0123456789abcdef")
	stanzas := []*age.Stanza{{Type: "X25519", Args: []string{"TEiF0ypqr+bpvcqXNyCVJpL7OuwPdVwPL7KQEbFDOCc"}, Body: bytes.Repeat([]byte{1}, 32)}}
	ui := &plugin.ClientUI{}
	judge := func(pos, name, marker string, constructed bool, specOK bool) {
		run.Eval(1)
		sig := pos + ":" + name
		rp := map[string]interface{}{"check": "C17.name", "position": pos, "name": name}
		ran := e.started(marker)
		if !specOK {
			if constructed {
				run.Violation("C17:invalid-name-accepted:"+sig, fmt.Sprintf("plugin name %q in %s position is not made of letters, digits, + - . _ only, yet construction succeeded", name, pos), rp)
			}
			if len(ran) > 0 {
				run.Violation("C17:process-started-for-invalid-name:"+sig, fmt.Sprintf("name %q (%s): started %v", name, pos, ran), rp)
			}
			return
		}
		if !constructed {
			run.Violation("C17:valid-name-rejected:"+sig, fmt.Sprintf("valid plugin name %q refused in %s position", name, pos), rp)
			return
		}
		want := filepath.Join(e.first, "age-plugin-"+name)
		if len(ran) != 1 || ran[0] != want {
			run.Violation("C17:wrong-program-started:"+sig, fmt.Sprintf("name %q (%s): started %v, a PATH search for age-plugin-%s finds %s", name, pos, ran, name, want), rp)
		}
	}
	seenInput := map[string]bool{}
	for i := range cases {
		c := &cases[i]
		s := str(c.Input)
		if seenInput[s] {
			continue // names differing only in case give the same identity string; its sentinel log lines are matched by the string
		}
		seenInput[s] = true
		name := nameOf(c)
		marker := s
		constructed := false
		func() {
			defer func() { recover() }()
			if c.Kind == "PR" {
				r, err := plugin.NewRecipient(s, ui)
				if err == nil {
					constructed = true
					r.Wrap(fileKey)
				}
			} else {
				id, err := plugin.NewIdentity(s, ui)
				if err == nil {
					constructed = true
					id.Unwrap(stanzas)
				}
			}
		}()
		judge(c.Kind, name, marker, constructed, c.Ok && validName(name))
		run.Distinct(c.Kind + ":" + name)
	}
	run.Add("encoded_name_cases", len(cases))
	// bare names (sorted, so that e.g. "Foo" is used before "foo" in this one process; a second pass runs in reverse order)
	var bare []string
	for n := range names {
		bare = append(bare, n)
	}
	sort.Strings(bare)
	for i := len(bare) - 1; i >= 0; i-- {
		if validName(bare[i]) {
			bare = append(bare, bare[i])
		}
	}
	for _, n := range bare {
		constructed := false
		marker := "|-> add-identity "
		var enc string
		func() {
			defer func() { recover() }()
			id, err := plugin.NewIdentityWithoutData(n, ui)
			if err == nil {
				constructed = true
				enc, _ = bech32.Encode("AGE-PLUGIN-"+strings.ToUpper(n)+"-", nil)
				os.WriteFile(e.log, nil, 0o644)
				id.Unwrap(stanzas)
			}
		}()
		if constructed {
			marker = enc
		} else {
			marker = "\x00never"
		}
		judge("bare", n, marker, constructed, validName(n))
		run.Distinct("bare:" + n)
	}
	run.Add("bare_name_cases", len(names))
	run.Sample(map[string]interface{}{"position": cases[len(cases)/2].Kind, "string": str(cases[len(cases)/2].Input), "spec_ok": cases[len(cases)/2].Ok})
	cli(run, e, names, w)
	headerMentions(run, e, names, w)
	besideExecutable(run, e)
	run.Finish()
}

func intSet(xs []int) string {
	p := make([]string, len(xs))
	for i, x := range xs {
		p[i] = fmt.Sprint(x)
	}
	return "{" + strings.Join(p, ",") + "}"
}

// cli: age -j NAME with a PATH that also has a relative entry; TMPDIR and the working directory hold sentinels too.
func cli(run *vk.Run, e *env, names map[string]bool, w *world.World) {
	ageBin := filepath.Join(vk.BuildCLI(), "age")
	var list []string
	for n := range names {
		if n != "" && !strings.ContainsAny(n, "\x00") {
			list = append(list, n)
		}
	}
	// a fixed order (map order is random): path-like values and names with unusual characters first, so that the quick
	// tier's cut never drops them
	sort.Slice(list, func(i, j int) bool {
		pi, pj := strings.ContainsAny(list[i], "/\\"), strings.ContainsAny(list[j], "/\\")
		if pi != pj {
			return pi
		}
		return list[i] < list[j]
	})
	if !run.Thorough() {
		// the quick tier's cut keeps both kinds: up to 40 values that are not names and up to 25 valid names
		var inv, val []string
		for _, n := range list {
			if validName(n) {
				if len(val) < 25 {
					val = append(val, n)
				}
			} else if len(inv) < 40 {
				inv = append(inv, n)
			}
		}
		list = append(inv, val...)
	}
	envv := []string{"PATH=relbin:" + e.first + ":" + e.second + ":/usr/bin:/bin", "TMPDIR=" + e.tmp}
	for _, n := range list {
		os.WriteFile(e.log, nil, 0o644)
		p := vk.RunProc(20*time.Second, e.cwd, envv, []byte("hello"), ageBin, "-e", "-j", n, "-o", filepath.Join(e.root, "out.age"))
		run.Eval(1)
		if p.TimedOut {
			vk.Infra("age -j timed out")
		}
		ran := e.started("add-")
		sig := "cli-j:" + n
		rp := map[string]interface{}{"check": "C17.cli", "name": n}
		if !validName(n) {
			if len(ran) > 0 || p.Exit == 0 {
				run.Violation("C17:process-started-for-invalid-name:"+sig, fmt.Sprintf("age -j %q: exit %d, started %v", n, p.Exit, ran), rp)
			}
			// again with an ordinary PATH (the relative entry above makes Go's PATH search refuse whatever it finds first,
			// which would hide a program started for a name derived from the invalid value)
			os.WriteFile(e.log, nil, 0o644)
			p2 := vk.RunProc(20*time.Second, e.cwd, []string{"PATH=" + e.first + ":" + e.second + ":/usr/bin:/bin", "TMPDIR=" + e.tmp}, []byte("hello"), ageBin, "-e", "-j", n, "-o", filepath.Join(e.root, "out.age"))
			run.Eval(1)
			if ran2 := e.started("add-"); len(ran2) > 0 || p2.Exit == 0 {
				run.Violation("C17:process-started-for-invalid-name:"+sig, fmt.Sprintf("age -j %q: exit %d, started %v", n, p2.Exit, ran2), rp)
			}
		} else {
			// a PATH search finds relbin/age-plugin-NAME (relative to the working directory) first; refusing to run it is fine,
			// running anything else (the copy under TMPDIR, a later PATH entry) is not
			allowed := filepath.Join(e.cwd, "relbin", "age-plugin-"+n)
			for _, r := range ran {
				if r != allowed {
					run.Violation("C17:wrong-program-started:"+sig, fmt.Sprintf("age -j %s with PATH=relbin:... in %s: started %v; the PATH search finds %s", n, e.cwd, ran, allowed), rp)
				}
			}
		}
		run.Distinct(sig)
	}
	run.Add("cli_j_cases", len(list))
	// several identity flags on one command line: each is checked and used for what it says itself, in the order given
	// (decryption resolves them one after the other; a flag must not be taken for its neighbour)
	var xbuf bytes.Buffer
	xid, _ := age.GenerateX25519Identity()
	if w, err := age.Encrypt(&xbuf, xid.Recipient()); err == nil {
		w.Write([]byte("hello"))
		w.Close()
	}
	inFile := filepath.Join(e.root, "multi.age")
	os.WriteFile(inFile, xbuf.Bytes(), 0o600)
	plainID := filepath.Join(e.root, "plain-id.txt")
	other, _ := age.GenerateX25519Identity()
	os.WriteFile(plainID, []byte(other.String()+"\n"), 0o600)
	env2 := []string{"PATH=" + e.first + ":" + e.second + ":/usr/bin:/bin", "TMPDIR=" + e.tmp}
	type multi struct {
		flags    []string
		badFirst bool   // an invalid value stands in front: nothing may start, the command must fail
		first    string // otherwise: the valid name whose program must be the first (and, as it fails, the only) one started
	}
	for _, m := range []multi{
		{[]string{"-j", "a\\b", "-j", "foo"}, true, ""},
		{[]string{"-j", "pwn/foo", "-j", "foo"}, true, ""},
		{[]string{"-j", "a!b", "-i", plainID, "-j", "foo"}, true, ""},
		{[]string{"-i", plainID, "-j", "../x", "-j", "foo"}, true, ""},
		{[]string{"-j", "x.y", "-j", "foo"}, false, "x.y"},
		{[]string{"-j", "foo", "-j", "x.y"}, false, "foo"},
		{[]string{"-i", plainID, "-j", "x.y", "-j", "foo"}, false, "x.y"},
	} {
		os.WriteFile(e.log, nil, 0o644)
		args := append(append([]string{"-d"}, m.flags...), "-o", filepath.Join(e.root, "multi.out"), inFile)
		p := vk.RunProc(20*time.Second, e.cwd, env2, []byte{}, ageBin, args...)
		run.Eval(1)
		ran := e.started("add-")
		sig := "cli-multi:" + strings.Join(m.flags, " ")
		rp := map[string]interface{}{"check": "C17.cli-multi", "flags": m.flags}
		if m.badFirst {
			if len(ran) > 0 || p.Exit == 0 {
				run.Violation("C17:process-started-for-invalid-name:"+sig, fmt.Sprintf("age -d %s: an identity flag with an invalid plugin name is on the command line; exit %d, started %v", strings.Join(m.flags, " "), p.Exit, ran), rp)
			}
		} else if want := filepath.Join(e.first, "age-plugin-"+m.first); len(ran) == 0 || ran[0] != want {
			run.Violation("C17:wrong-program-started:"+sig, fmt.Sprintf("age -d %s: started %v; the first plugin identity in command-line order is %s", strings.Join(m.flags, " "), ran, want), rp)
		}
		run.Distinct(sig)
	}
}

// headerMentions: a header that names plugin-like stanza types never starts anything when decrypted with native identities.
func headerMentions(run *vk.Run, e *env, names map[string]bool, w *world.World) {
	id := w.XIdentity("x1")
	os.WriteFile(e.log, nil, 0o644)
	n := 0
	for name := range names {
		if !validName(name) {
			continue
		}
		for _, typ := range []string{name, "age-plugin-" + name, "plugin-" + name} {
			var buf bytes.Buffer
			wc, _ := age.Encrypt(&buf, id.Recipient())
			wc.Write([]byte("x"))
			wc.Close()
			hdr, rest, err := format.Parse(bytes.NewReader(buf.Bytes()))
			if err != nil {
				vk.Infra("%v", err)
			}
			hdr.Recipients = append([]*format.Stanza{{Type: typ, Args: []string{"a"}, Body: []byte{1}}}, hdr.Recipients...)
			var f bytes.Buffer
			hdr.Marshal(&f)
			f.ReadFrom(rest)
			age.Decrypt(bytes.NewReader(f.Bytes()), id) // MAC fails; what matters is that nothing is executed
			age.Decrypt(bytes.NewReader(f.Bytes()), w.XIdentity("x2"))
			run.Eval(2)
			n++
		}
		run.Distinct("hdr:" + name)
	}
	if l := e.logLines(); len(l) > 0 && l[0] != "" {
		run.Violation("C17:plugin-started-by-header-mention", fmt.Sprintf("decrypting with native identities started %v", l), nil)
	}
	// the same through the command line: age -d -i <native key file> on files whose headers mention plugin-like types,
	// with a key that matches and with one that does not; PATH holds a sentinel for every valid name
	ageBin := filepath.Join(vk.BuildCLI(), "age")
	envv := []string{"PATH=" + e.first + ":" + e.second + ":/usr/bin:/bin", "TMPDIR=" + e.tmp}
	k1, k2 := filepath.Join(e.root, "k1.txt"), filepath.Join(e.root, "k2.txt")
	os.WriteFile(k1, []byte(id.String()+"\n"), 0o600)
	os.WriteFile(k2, []byte(w.XIdentity("x2").String()+"\n"), 0o600)
	cliN := 0
	for name := range names {
		if !validName(name) || cliN >= run.Pick(12, 60) {
			continue
		}
		cliN++
		// a VALID file for x1 whose header also carries a stanza of the plugin-like type (MAC recomputed by encrypting to
		// a custom recipient that emits it), so that decryption with x1 succeeds and with x2 finds no match
		var buf bytes.Buffer
		wc, err := age.Encrypt(&buf, stanzaRecipient{name}, id.Recipient())
		if err != nil {
			vk.Infra("%v", err)
		}
		wc.Write([]byte("x"))
		wc.Close()
		fp := filepath.Join(e.root, "mention.age")
		os.WriteFile(fp, buf.Bytes(), 0o644)
		for _, kf := range []string{k1, k2} {
			os.WriteFile(e.log, nil, 0o644)
			p := vk.RunProc(20*time.Second, e.cwd, envv, []byte{}, ageBin, "-d", "-i", kf, fp)
			run.Eval(1)
			if p.TimedOut {
				vk.Infra("age -d timed out")
			}
			if l := e.logLines(); len(l) > 0 && l[0] != "" {
				run.Violation("C17:plugin-started-by-header-mention:cli:"+filepath.Base(kf), fmt.Sprintf("age -d -i %s on a file whose header has a stanza of type %q started %v", filepath.Base(kf), name, l), map[string]interface{}{"check": "C17.hdrcli", "type": name})
			}
		}
		run.Distinct("hdr-cli:" + name)
	}
	run.Add("header_mention_cases", n+2*cliN)
}

// stanzaRecipient emits one stanza of the given type (what a plugin recipient of that name would have left in the header).
type stanzaRecipient struct{ typ string }

func (r stanzaRecipient) Wrap(fileKey []byte) ([]*age.Stanza, error) {
	return []*age.Stanza{{Type: r.typ, Args: []string{"a"}, Body: []byte{1, 2, 3}}}, nil
}

// besideExecutable: the program for a valid name is found by searching PATH and nowhere else. A sentinel
// age-plugin-besideexe lies next to the running executables (this process's and the age binary's) but in no PATH
// directory: using the name must fail to find a plugin and must start nothing.
func besideExecutable(run *vk.Run, e *env) {
	const name = "besideexe"
	ageBin := filepath.Join(vk.BuildCLI(), "age")
	dirs := map[string]bool{filepath.Dir(ageBin): true}
	if exe, err := os.Executable(); err == nil {
		dirs[filepath.Dir(exe)] = true
	}
	var planted []string
	for d := range dirs {
		p := filepath.Join(d, "age-plugin-"+name)
		if err := os.WriteFile(p, []byte(strings.Replace(strings.Replace(sentinel, "LOGFILE", e.log, 1), "SELFPATH", p, 1)), 0o755); err != nil {
			vk.Infra("planting %s: %v", p, err)
		}
		planted = append(planted, p)
	}
	defer func() {
		for _, p := range planted {
			os.Remove(p)
		}
	}()
	os.WriteFile(e.log, nil, 0o644)
	ui := &plugin.ClientUI{}
	fileKey := []byte("0123456789abcdef")
	stanzas := []*age.Stanza{{Type: "X25519", Args: []string{"TEiF0ypqr+bpvcqXNyCVJpL7OuwPdVwPL7KQEbFDOCc"}, Body: bytes.Repeat([]byte{1}, 32)}}
	func() {
		defer func() { recover() }()
		if id, err := plugin.NewIdentityWithoutData(name, ui); err == nil {
			id.Unwrap(stanzas)
			id.Recipient().Wrap(fileKey)
		}
		if r, err := plugin.NewRecipient(plugin.EncodeRecipient(name, []byte("data")), ui); err == nil {
			r.Wrap(fileKey)
		}
	}()
	envv := []string{"PATH=" + e.first + ":" + e.second + ":/usr/bin:/bin", "TMPDIR=" + e.tmp}
	p := vk.RunProc(20*time.Second, e.cwd, envv, []byte("hello"), ageBin, "-e", "-j", name, "-o", filepath.Join(e.root, "beside.age"))
	run.Eval(3)
	if l := e.logLines(); len(l) > 0 && l[0] != "" {
		run.Violation("C17:wrong-program-started:beside-executable", fmt.Sprintf("no PATH directory holds age-plugin-%s, yet a copy lying next to the running executable was started: %v (age -j exit %d)", name, l, p.Exit), map[string]interface{}{"check": "C17.beside"})
	}
	run.Distinct("beside-executable")
}
