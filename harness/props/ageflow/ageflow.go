// Package ageflow validates recorded executions of age.Encrypt / age.Decrypt against spec/AgeFlow.tla
// (trace specification spec/AgeFlowTrace.tla). Two sources of traces:
//
//   - the repository's own test suite, built with the verif tag and run with VERIF_TRACE set: the tests already
//     drive Encrypt and Decrypt through the library, the CLI and the plugin client; the specification adds the
//     per-step assertions (identities consulted in order and none after the one that opened the file, no-match only
//     after all of them, header MAC verified before the payload is reached, header written only after every recipient
//     was wrapped and never after a label mismatch, nonce after header);
//   - the calls a check itself makes, recorded in-process through verifhook.EmitFn.
//
// A line the machine has no step for carries the reason; reasons are prefixed with the property whose clause the step
// breaks ("C01:", "C03:", "C11:", ...) or with "flow:" when the trace merely does not fit the model. Only reasons of
// the running check's own property are verdicts; the others are recorded as drift here and judged by the check of the
// property they name, which runs the same validation.
package ageflow

import (
	"bytes"
	"fmt"
	"os"
	"os/exec"
	"path/filepath"
	"runtime"
	"strings"
	"sync"
	"time"

	"filippo.io/age/internal/verifhook"
	"filippo.io/age/xverif/internal/vk"
)

// Recorder collects age.* flow events of this process.
type Recorder struct {
	mu   sync.Mutex
	buf  bytes.Buffer
	n    int
	max  int
	prev func(string, ...int)
}

func goid() int {
	var buf [64]byte
	n := runtime.Stack(buf[:], false)
	g := 0
	fmt.Sscanf(string(buf[:n]), "goroutine %d ", &g)
	return g
}

// Start installs the recorder (keeping any EmitFn already installed working). At most max events are kept; recording
// stops at a call boundary so that the kept prefix is a complete trace.
func Start(max int) *Recorder {
	r := &Recorder{max: max, prev: verifhook.EmitFn}
	pid := os.Getpid()
	full := false
	open := map[int]int{} // goroutine -> open frames, to cut the trace only between calls
	verifhook.EmitFn = func(name string, args ...int) {
		if r.prev != nil {
			r.prev(name, args...)
		}
		if !strings.HasPrefix(name, "age.") {
			return
		}
		g := goid()
		r.mu.Lock()
		defer r.mu.Unlock()
		begin := name == "age.enc.begin" || name == "age.dec.begin"
		if r.n >= r.max {
			full = true
		}
		if full && open[g] == 0 {
			return // no new top-level calls once full; calls in flight are completed
		}
		if begin {
			open[g]++
		} else if terminal(name, args) && open[g] > 0 {
			open[g]--
		}
		a := make([]string, len(args))
		for i, v := range args {
			a[i] = fmt.Sprint(v)
		}
		fmt.Fprintf(&r.buf, "{\"ev\":%q,\"pid\":%d,\"g\":%d,\"a\":[%s]}\n", name, pid, g, strings.Join(a, ","))
		r.n++
	}
	return r
}

// terminal mirrors which events end a call in AgeFlow.tla (used only to cut the recording between calls).
func terminal(name string, a []int) bool {
	arg := func(i int) int {
		if i < len(a) {
			return a[i]
		}
		return -1
	}
	switch name {
	case "age.dec.header", "age.dec.mac", "age.enc.header":
		return arg(0) == 0
	case "age.dec.unwrap":
		return arg(0) == 3
	case "age.enc.wrap":
		return arg(0) != 1
	case "age.dec.nomatch", "age.dec.nonce", "age.enc.nonce", "age.enc.incompatible", "age.enc.rand", "age.enc.mac":
		return true
	}
	return false
}

// Stop uninstalls the recorder and returns the NDJSON trace.
func (r *Recorder) Stop() []byte {
	verifhook.EmitFn = r.prev
	r.mu.Lock()
	defer r.mu.Unlock()
	return append([]byte(nil), r.buf.Bytes()...)
}

const cfg = "SPECIFICATION Spec\nCONSTRAINT HighWater\nPOSTCONDITION Verdict\nCHECK_DEADLOCK FALSE\n"

// MachineMustHold model-checks AgeFlow under every event order it allows (AgeFlowMC) and checks that the two
// success states are reachable (so that the invariants are not vacuous).
func MachineMustHold(run *vk.Run) {
	if run.Prop == "C01" || run.Thorough() {
		// for ANY number of recipients / identities: the inductive invariant of one frame (Apalache)
		steps := [][]string{{"--init=Init", "--inv=IndInv", "--length=0"}, {"--init=IndInit", "--inv=IndInv", "--length=1"},
			{"--init=IndInit", "--inv=PayloadOnlyAfterOpenAndMac", "--length=0"}, {"--init=IndInit", "--inv=HeaderOnlyAfterAllWraps", "--length=0"}}
		vk.Parallel(len(steps), len(steps), func(i int) {
			step := steps[i]
			out, ok, err := vk.RunApalache("AgeFlowInd", 10*time.Minute, append(append([]string{}, step...), "--cinit=CInit")...)
			if err != nil {
				vk.Infra("apalache (AgeFlowInd %v): %v\n%s", step, err, lastLines(out))
			}
			if !ok {
				vk.Infra("AgeFlowInd: %v does not hold (specification-level failure):\n%s", step, lastLines(out))
			}
		})
		run.Set("apalache_ageflow_inductive_invariant", "AgeFlowInd!IndInv: Init => IndInv, IndInv /\\ Next => IndInv', IndInv => PayloadOnlyAfterOpenAndMac /\\ HeaderOnlyAfterAllWraps, for every N >= 1")
	}
	mc := "SPECIFICATION Spec\nCONSTANTS\n MaxN = 3\n MaxDepth = 2\nINVARIANTS DecDone EncDone NoMatch Bounded\nCHECK_DEADLOCK FALSE\n"
	run.SpecMustHold("ageflow-machine", vk.TLCOpts{Module: "AgeFlowMC", Config: mc, Workers: 8})
	for _, inv := range []string{"NeverDecDone", "NeverEncDone"} {
		res := run.TLC("ageflow-reach-"+inv, vk.TLCOpts{Module: "AgeFlowMC", Config: "SPECIFICATION Spec\nCONSTANTS\n MaxN = 3\n MaxDepth = 2\nINVARIANTS " + inv + "\nCHECK_DEADLOCK FALSE\n", Workers: 4})
		if res.Violated != inv {
			vk.Infra("AgeFlowMC: the success state behind %s is not reachable; the machine's invariants would be vacuous\n%s", inv, res.Output)
		}
	}
}

// Validate has TLC replay the trace through AgeFlow.tla and turns the outcome into a verdict for run.Prop.
func Validate(run *vk.Run, what string, trace []byte) {
	var flow []byte
	for _, line := range bytes.Split(trace, []byte("\n")) {
		if bytes.Contains(line, []byte(`"ev":"age.`)) {
			flow = append(append(flow, line...), '\n')
		}
	}
	n := bytes.Count(flow, []byte("\n"))
	run.Add("ageflow_events_"+what, n)
	if n == 0 {
		run.Drift("no age.enc/age.dec flow events recorded for %s (hooks missing?)", what)
		return
	}
	dir, err := os.MkdirTemp("", "ageflow-")
	if err != nil {
		vk.Infra("%v", err)
	}
	defer os.RemoveAll(dir)
	path := filepath.Join(dir, "flow.ndjson")
	if err := os.WriteFile(path, flow, 0o644); err != nil {
		vk.Infra("%v", err)
	}
	res := run.TLC("ageflow-trace-"+what, vk.TLCOpts{Module: "AgeFlowTrace", Config: cfg, Workers: 1, Env: map[string]string{"TRACE": path}, Timeout: 20 * 60 * 1e9})
	run.Traces(1)
	if acc := res.PrintsWithPrefix("ACCEPTED "); len(acc) == 1 {
		return
	}
	rej := res.PrintsWithPrefix("REJECTED ")
	if len(rej) != 1 {
		vk.Infra("AgeFlowTrace gave no verdict for %s:\n%s", what, res.Output)
	}
	var at int
	var why string
	fmt.Sscan(rej[0], &at, &why)
	lines := bytes.Split(flow, []byte("\n"))
	lo, hi := at-8, at
	if lo < 1 {
		lo = 1
	}
	var ctx []string
	for i := lo; i <= hi && i <= len(lines); i++ {
		ctx = append(ctx, string(lines[i-1]))
	}
	detail := fmt.Sprintf("%s: event %d of %d is a step AgeFlow.tla does not have (%s); the events leading to it: %s", what, at, n, why, strings.Join(ctx, " "))
	if strings.HasPrefix(why, run.Prop+":") {
		run.Violation(fmt.Sprintf("%s:flow:%s:%s", run.Prop, what, strings.TrimPrefix(why, run.Prop+":")), detail,
			map[string]interface{}{"check": "ageflow", "what": what, "why": why, "events": ctx})
		return
	}
	run.Drift("%s", detail)
}

// RepoSuite runs the repository's own tests (library, agessh, plugin client, CLI scripts) with the flow hooks logging
// to a file, and validates the log.
func RepoSuite(run *vk.Run) {
	dir, err := os.MkdirTemp("", "ageflow-suite-")
	if err != nil {
		vk.Infra("%v", err)
	}
	defer os.RemoveAll(dir)
	trace := filepath.Join(dir, "hooks.ndjson")
	cmd := exec.Command("go", "test", "-tags", "verif", "-vet=off", "-count=1", ".", "./agessh", "./plugin", "./cmd/age")
	cmd.Dir = vk.RepoRoot()
	cmd.Env = append(os.Environ(), "GOFLAGS=-mod=mod", "GOPROXY=off", "GOSUMDB=off", "VERIF_TRACE="+trace)
	out, _ := cmd.CombinedOutput() // test failures are the suite's business; only the trace matters here
	b, err := os.ReadFile(trace)
	if err != nil || len(b) == 0 {
		if strings.Contains(string(out), "build failed") || strings.Contains(string(out), "cannot find") {
			vk.Infra("the repository's tests did not build with -tags verif:\n%s", string(out))
		}
		run.Drift("the repository's suite produced no hook trace")
		return
	}
	Validate(run, "repo-suite", b)
}

func lastLines(s string) string {
	l := strings.Split(s, "\n")
	if len(l) > 25 {
		l = l[len(l)-25:]
	}
	return strings.Join(l, "\n")
}
