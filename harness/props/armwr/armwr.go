// Package armwr replays behaviours of the ArmorWrite machine (spec/ArmorWrite.tla) against armor.NewWriter: TLC
// explores every history of Write(k) and Close calls over every destination failure (which call of the destination
// fails, how much of it is accepted, for good or once), checks the machine's invariants, and prints each history with
// the results the machine gives. Here the same calls are made on the real writer over a destination that fails where
// the model says, and the results are compared call by call.
//
// Verdicts come only from property predicates on what the real writer did (C08: without a failure every call
// succeeds and the text is the armor of the bytes and de-armors to them; C13: calls that all report success mean the
// destination holds the whole armor; C12's full count), a per-call difference that leaves them true is drift.
package armwr

import (
	"bytes"
	"encoding/base64"
	"encoding/json"
	"errors"
	"fmt"
	"io"

	"filippo.io/age/armor"
	"filippo.io/age/xverif/internal/vk"
)

type Fault struct {
	Call int    `json:"call"`
	Part string `json:"part"`
	Once bool   `json:"once"`
}

type Call struct {
	Op  string `json:"op"`
	K   int    `json:"k"`
	N   int    `json:"n"`
	OK  bool   `json:"ok"`
	Out int    `json:"out"`
}

type Case struct {
	Fault    Fault  `json:"fault"`
	Calls    []Call `json:"calls"`
	Fed      int    `json:"fed"`
	Good     bool   `json:"good"`
	Complete bool   `json:"complete"`
	Out      int    `json:"out"`
	NCalls   int    `json:"ncalls"`
}

func (c *Case) Label() string { return c.label(false) }

// ShortLabel stops at the first Close (the verdicts are taken there).
func (c *Case) ShortLabel() string { return c.label(true) }

func (c *Case) label(short bool) string {
	s := ""
	for i, cl := range c.Calls {
		if short && i > 0 && c.Calls[i-1].Op == "c" {
			break
		}
		if cl.Op == "w" {
			s += fmt.Sprintf("w%d.", cl.K)
		} else {
			s += "c."
		}
	}
	return fmt.Sprintf("%sfault=%d/%s/once=%v", s, c.Fault.Call, c.Fault.Part, c.Fault.Once)
}

// Armor is the oracle: RFC 7468 strict encoding with the age label, 64 columns.
func Armor(data []byte) []byte {
	var b bytes.Buffer
	b.WriteString("-----BEGIN AGE ENCRYPTED FILE-----\n")
	s := base64.StdEncoding.EncodeToString(data)
	for len(s) > 64 {
		b.WriteString(s[:64])
		b.WriteByte('\n')
		s = s[64:]
	}
	if len(s) > 0 {
		b.WriteString(s)
		b.WriteByte('\n')
	}
	b.WriteString("-----END AGE ENCRYPTED FILE-----\n")
	return b.Bytes()
}

var errInjected = errors.New("armwr: injected destination failure")

type dest struct {
	f      Fault
	buf    bytes.Buffer
	calls  int
	dead   bool
	Fired  bool
	Lens   []int
	strict bool // WriteString not offered: the plain io.Writer
}

func acc(part string, l int) int {
	switch part {
	case "none":
		return 0
	case "one":
		if l-1 < 1 {
			return l - 1
		}
		return 1
	case "half":
		return l / 2
	case "allbut1":
		return l - 1
	}
	panic("unknown part " + part)
}

func (d *dest) Write(p []byte) (int, error) {
	d.calls++
	d.Lens = append(d.Lens, len(p))
	if d.dead {
		return 0, errInjected
	}
	if d.f.Call > 0 && d.calls == d.f.Call {
		a := acc(d.f.Part, len(p))
		if a < 0 {
			a = 0
		}
		d.buf.Write(p[:a])
		d.Fired = true
		d.dead = !d.f.Once
		return a, errInjected
	}
	d.buf.Write(p)
	return len(p), nil
}

func content(i, n int, seed int64) []byte {
	b := make([]byte, n)
	for j := range b {
		b[j] = byte((i*37 + j*11 + int(seed)*17 + 3) % 256)
	}
	return b
}

type Problem struct{ Kind, Detail string }

type Outcome struct {
	Mismatch string
	Problems []Problem
	Ops      int
}

// Replay runs one history against armor.NewWriter.
func Replay(c *Case, seed int64) (o Outcome) {
	d := &dest{f: c.Fault}
	defer func() {
		if r := recover(); r != nil {
			o.Problems = append(o.Problems, Problem{"panic", fmt.Sprint(r)})
		}
	}()
	w := armor.NewWriter(d)
	var all []byte // everything written before the first Close
	allOK := true  // every call up to and including the first Close reported success
	closedAt := -1 // index of the first Close
	for i, cl := range c.Calls {
		o.Ops++
		var n int
		var err error
		if cl.Op == "w" {
			p := content(i, cl.K, seed)
			if closedAt < 0 {
				all = append(all, p...)
			}
			n, err = w.Write(p)
			if n < 0 || n > len(p) {
				o.Problems = append(o.Problems, Problem{"bad-count", fmt.Sprintf("call %d Write(%d) returned n=%d", i+1, cl.K, n)})
			} else if err == nil && n != len(p) {
				o.Problems = append(o.Problems, Problem{"short-count", fmt.Sprintf("call %d Write(%d) returned (%d, nil)", i+1, cl.K, n)})
			}
			if closedAt < 0 && (err != nil || n != len(p)) {
				allOK = false
			}
		} else {
			err = w.Close()
			if closedAt < 0 {
				closedAt = i
				if err != nil {
					allOK = false
				}
				out := d.buf.Bytes()
				if allOK {
					want := Armor(all)
					if !bytes.Equal(out, want) {
						kind := "loss"
						if d.Fired {
							kind = "silent-loss"
						}
						o.Problems = append(o.Problems, Problem{kind, fmt.Sprintf("every call reported success; the destination holds %d bytes that are not the %d-byte armor of the %d bytes written (first difference at %d)", len(out), len(want), len(all), firstDiff(out, want))})
					} else if back, rerr := io.ReadAll(armor.NewReader(bytes.NewReader(out))); rerr != nil || !bytes.Equal(back, all) {
						o.Problems = append(o.Problems, Problem{"loss", fmt.Sprintf("the text does not de-armor to the %d bytes written (%v)", len(all), rerr)})
					}
				} else if !d.Fired {
					o.Problems = append(o.Problems, Problem{"spurious-error", fmt.Sprintf("a call failed although the destination never did (call %d: %v)", i+1, err)})
				}
			}
		}
		if closedAt < 0 && !d.Fired && (err != nil) {
			o.Problems = append(o.Problems, Problem{"spurious-error", fmt.Sprintf("call %d %s(%d) failed although the destination never did: %v", i+1, cl.Op, cl.K, err)})
		}
		if o.Mismatch == "" && (n != cl.N || (err == nil) != cl.OK || d.buf.Len() != cl.Out) {
			o.Mismatch = fmt.Sprintf("call %d %s(%d): model (n=%d ok=%v out=%d) real (n=%d err=%v out=%d)", i+1, cl.Op, cl.K, cl.N, cl.OK, cl.Out, n, err, d.buf.Len())
		}
	}
	if o.Mismatch == "" && d.calls != c.NCalls {
		o.Mismatch = fmt.Sprintf("the destination saw %d writes %v, the model has %d", d.calls, d.Lens, c.NCalls)
	}
	return o
}

func firstDiff(a, b []byte) int {
	for i := 0; i < len(a) && i < len(b); i++ {
		if a[i] != b[i] {
			return i
		}
	}
	if len(a) < len(b) {
		return len(a)
	}
	return len(b)
}

// Config builds the TLC configuration.
func Config(sizes string, maxWrites, maxAfter, maxFaultCall int, parts string, emit bool) string {
	e := "FALSE"
	if emit {
		e = "TRUE"
	}
	return fmt.Sprintf(`SPECIFICATION Spec
CONSTANTS
 Sizes = %s
 MaxWrites = %d
 MaxAfter = %d
 MaxFaultCall = %d
 Parts = %s
 Emit = %s
INVARIANTS TypeOK NoSilentLoss FaultSurfaces FullCount Streams PrefixUnderPermanentFailure SecondCloseFails ColsAccount EmitCase
PROPERTIES EncoderErrorSticky
CHECK_DEADLOCK FALSE
`, sizes, maxWrites, maxAfter, maxFaultCall, parts, e)
}

var c08Kinds = map[string]bool{"loss": true, "spurious-error": true, "panic": true, "bad-count": true, "short-count": true}
var c13Kinds = map[string]bool{"silent-loss": true, "loss": true, "panic": true, "bad-count": true}
var c12Kinds = map[string]bool{"short-count": true, "bad-count": true, "loss": true, "panic": true}

// Run model-checks one instance and replays every printed history.
func Run(run *vk.Run, what, cfg string) {
	res := run.SpecMustHold(what, vk.TLCOpts{Module: "ArmorWrite", Config: cfg, Workers: 16, Timeout: 30 * 60 * 1e9, Expect: []string{"Write", "Close", "WriteAfterClose"}})
	lines := res.PrintsWithPrefix("CASE ")
	if len(lines) == 0 {
		vk.Infra("ArmorWrite %s printed no histories", what)
	}
	kinds := c08Kinds
	switch run.Prop {
	case "C13":
		kinds = c13Kinds
	case "C12":
		kinds = c12Kinds
	}
	type cnt struct{ mism, faulted int }
	cs := make([]cnt, len(lines))
	vk.Parallel(len(lines), 16, func(i int) {
		var c Case
		if err := json.Unmarshal([]byte(lines[i]), &c); err != nil {
			vk.Infra("bad CASE %q: %v", lines[i], err)
		}
		label := c.Label()
		out := Replay(&c, run.Seed+int64(i%5))
		run.Eval(out.Ops)
		for _, p := range out.Problems {
			if !kinds[p.Kind] {
				run.Drift("%s (%s, not this property's clause): %s: %s", p.Kind, what, label, p.Detail)
				continue
			}
			run.Violation(fmt.Sprintf("%s:armor-writer-%s:%s", run.Prop, p.Kind, c.ShortLabel()), p.Detail,
				map[string]interface{}{"check": "armwr", "case": json.RawMessage(lines[i]), "seed": run.Seed + int64(i%5)})
		}
		if out.Mismatch != "" {
			cs[i].mism = 1
			run.Drift("armor writer differs from ArmorWrite.tla on %s: %s", label, out.Mismatch)
		}
		if c.Fault.Call > 0 {
			cs[i].faulted = 1
		}
		run.Distinct("armwr:" + label)
	})
	var mism, faulted int
	for _, c := range cs {
		mism += c.mism
		faulted += c.faulted
	}
	run.Traces(len(lines))
	run.Add("armor_writer_histories_"+what, len(lines))
	run.Add("armor_writer_call_mismatches", mism)
	run.Add("armor_writer_failing_destination_histories", faulted)
}
