// Package c03: any change to the header invalidates the file before any output.
package c03

import (
	"bytes"
	"crypto/rand"
	"errors"
	"fmt"
	"io"
	mrand "math/rand"
	"strings"

	"filippo.io/age"
	"filippo.io/age/internal/format"
	"filippo.io/age/xverif/internal/coregen"
	"filippo.io/age/xverif/internal/eval"
	"filippo.io/age/xverif/internal/vk"
	"filippo.io/age/xverif/internal/world"
	"filippo.io/age/xverif/props/ageflow"
	"filippo.io/age/xverif/props/c05"
)

// honest builds a real file for the model's recipient list and returns its parsed header and the rest.
type honest struct {
	file    []byte
	hdr     *format.Header
	payload []byte // nonce + STREAM
	pt      []byte
}

func build(w *world.World, rs []coregen.Recip, pt []byte) (*honest, error) {
	var buf bytes.Buffer
	wc, err := age.Encrypt(&buf, coregen.Recipients(w, rs)...)
	if err != nil {
		return nil, err
	}
	wc.Write(pt)
	if err := wc.Close(); err != nil {
		return nil, err
	}
	h := &honest{file: buf.Bytes(), pt: pt}
	hdr, rest, err := format.Parse(bytes.NewReader(h.file))
	if err != nil {
		return nil, err
	}
	h.hdr = hdr
	h.payload, _ = io.ReadAll(rest)
	if len(hdr.Recipients) != len(rs) {
		return nil, fmt.Errorf("%d stanzas for %d recipients", len(hdr.Recipients), len(rs))
	}
	return h, nil
}

func cloneStanza(s *format.Stanza) *format.Stanza {
	return &format.Stanza{Type: s.Type, Args: append([]string{}, s.Args...), Body: append([]byte{}, s.Body...)}
}

func wrapTo(w *world.World, key string, fk []byte) (*format.Stanza, error) {
	ss, err := w.Recipient(key).Wrap(fk)
	if err != nil || len(ss) != 1 {
		return nil, fmt.Errorf("wrap: %v", err)
	}
	return (*format.Stanza)(ss[0]), nil
}

// applyEdit turns the model's edit into real stanzas. fk is the honest file key, ak the attacker's.
func applyEdit(w *world.World, c *coregen.Case, h *honest, fk, ak []byte) ([]*format.Stanza, error) {
	ss := make([]*format.Stanza, len(h.hdr.Recipients))
	for i, s := range h.hdr.Recipients {
		ss[i] = cloneStanza(s)
	}
	insAt := func(p int, s *format.Stanza) {
		ss = append(ss[:p-1], append([]*format.Stanza{s}, ss[p-1:]...)...)
	}
	e := c.Edit
	switch e.E {
	case "subst":
		s := ss[e.P-1]
		switch e.What {
		case "type":
			s.Type += "x"
		case "badlen":
			s.Body = append(s.Body, 0x5a)
		case "badargs":
			s.Args = append(s.Args, "extra")
		case "fk":
			n, err := wrapTo(w, e.Key, ak)
			if err != nil {
				return nil, err
			}
			ss[e.P-1] = n
		case "wk":
			n, err := wrapTo(w, e.Key, fk)
			if err != nil {
				return nil, err
			}
			ss[e.P-1] = n
		}
	case "insert":
		if e.What == "grease" {
			b := make([]byte, 9)
			rand.Read(b)
			// both spellings in use: the bare type of the test vectors and the random "<word>-grease" rage really emits
			typ := "grease"
			if (e.P+len(ss)+int(b[0]))%2 == 0 {
				typ = fmt.Sprintf("%x-grease", b[1:4])
			}
			insAt(e.P, &format.Stanza{Type: typ, Args: []string{"arg"}, Body: b})
		} else {
			n, err := wrapTo(w, e.Key, ak)
			if err != nil {
				return nil, err
			}
			insAt(e.P, n)
		}
	case "delete":
		ss = append(ss[:e.P-1], ss[e.P:]...)
	case "dup":
		insAt(e.P, cloneStanza(h.hdr.Recipients[e.Q-1]))
	case "perm":
		out := make([]*format.Stanza, len(ss))
		for j, f := range e.Perm {
			out[j] = ss[f-1]
		}
		ss = out
	}
	return ss, nil
}

func fileKeyOf(w *world.World, c *coregen.Case, h *honest) []byte {
	for i, r := range c.Rs {
		if r.K != "K" {
			continue
		}
		if fk, err := w.Identity(r.Key).Unwrap([]*age.Stanza{(*age.Stanza)(h.hdr.Recipients[i])}); err == nil {
			return fk
		}
	}
	return nil
}

func macUnder(t *c05.Terms, key []byte, hdr *format.Header) []byte {
	var b bytes.Buffer
	hdr.MarshalWithoutMAC(&b)
	e := eval.NewEnv()
	e.B["fk"], e.B["hdrnomac"] = key, b.Bytes()
	m, err := e.Eval(t.Reading["mac"])
	if err != nil {
		vk.Infra("mac term: %v", err)
	}
	return m
}

func editSig(c *coregen.Case) string {
	e := c.Edit
	return fmt.Sprintf("rs=%s/%s(p=%d,q=%d,%s,%s,perm=%v)/mac=%s/ids=%s", coregen.RecipSig(c.Rs), e.E, e.P, e.Q, e.What, e.Key, e.Perm, e.Mac, strings.Join(c.Ids, ","))
}

var stranger, _ = age.GenerateX25519Identity() // an identity that matches no stanza of any file of the run

// judge: property-level verdict for one altered file and identity list. The verdict must not depend on who else is in the
// identity list or on what the same identity objects did before, so the altered file is also presented with an identity
// that matches nothing placed after and before the listed ones, and again after the same identity objects have opened
// the unaltered file (prime) in this process.
func judge(run *vk.Run, w *world.World, file []byte, ids []string, newFile bool, sig, what string, rp interface{}, pt []byte, prime []byte) {
	idl, _ := coregen.Identities(w, ids)
	judgeOne(run, idl, file, newFile, sig, what, rp, pt)
	judgeOne(run, append(append([]age.Identity{}, idl...), stranger), file, newFile, sig+"+stranger", what+", followed by an identity that matches nothing", rp, pt)
	judgeOne(run, append([]age.Identity{stranger}, idl...), file, newFile, "stranger+"+sig, what+", preceded by an identity that matches nothing", rp, pt)
	if prime != nil {
		if r, err := age.Decrypt(bytes.NewReader(prime), idl...); err == nil {
			io.Copy(io.Discard, r)
		}
		judgeOne(run, idl, file, newFile, sig+"/after-original", what+", after the same identities opened the unaltered file", rp, pt)
	}
}

func judgeOne(run *vk.Run, idl []age.Identity, file []byte, newFile bool, sig, what string, rp interface{}, pt []byte) {
	var r io.Reader
	var err error
	var pan interface{}
	func() {
		defer func() { pan = recover() }()
		r, err = age.Decrypt(bytes.NewReader(file), idl...)
	}()
	run.Eval(1)
	if pan != nil {
		run.Violation("C03:panic:"+sig, fmt.Sprintf("%s: %v", what, pan), rp)
		return
	}
	if r == nil && err != nil {
		return // refused before any output
	}
	got, rerr := io.ReadAll(r)
	if newFile {
		// the identity's first matching stanza is the attacker's own and the MAC is under the attacker's key: this is a new
		// header, not an alteration of this file's; it must not yield any of this file's plaintext
		if len(got) != 0 || rerr == nil {
			run.Violation("C03:plaintext-from-foreign-header:"+sig, fmt.Sprintf("%s: %d plaintext bytes released (read error %v)", what, len(got), rerr), rp)
		}
		return
	}
	run.Violation("C03:reader-from-altered-header:"+sig, fmt.Sprintf("%s: Decrypt returned a reader (err=%v); %d bytes readable, equal to the plaintext: %v", what, err, len(got), bytes.Equal(got, pt)), rp)
}

// Run is the C03 check.
func Run(tier string) {
	run := vk.NewRun("C03", tier, "model_checking")
	rec := ageflow.Start(run.Pick(30000, 150000)) // every Encrypt/Decrypt below is also replayed through AgeFlow.tla
	run.Rule("TLC (AgeCore.tla, mode tamper) enumerates, for every recipient list in bound, every structural edit of the header (per-stanza substitutions of type/arguments/body/wrapped key/addressee, insertion of grease and attacker-made stanzas at every position, deletion, duplication at every position, all permutations) x MAC choice (kept, random, recomputed under the attacker's file key) x identity list, checks HeaderBound/NewFileOnly on the symbolic model and emits the expected outcome; each edit is applied to a real header (parsed, edited, re-marshalled, MAC recomputed through the format term) and decrypted with the listed identities. Byte level: every single-bit flip of the header bytes of 1-3 recipient files and every inserted-byte/line-ending variant, decrypted with every identity that opens the original. Distinct = (recipient list, edit, MAC, identities).")
	run.Assume("perfect cryptography in the symbolic model; an attacker-made stanza wraps the attacker's own file key (it cannot know the file's)")
	keys := []string{"x1", "x2", "e1", "r1", "s1"} // s1: a passphrase file (one stanza, its own MAC path)
	maxR, maxI := 2, 1
	if run.Thorough() {
		maxR, maxI = 3, 2
	}
	cases := coregen.Generate(run, "tamper", coregen.Cfg("tamper", keys, maxR, maxI, "LabelSetsNone", coregen.AllInvs))
	t := c05.LoadTerms(run, 1, 5)
	w := world.New(run.Seed)
	for _, k := range keys {
		w.Identity(k)
		w.Recipient(k)
	}
	pt := []byte("C03 plaintext: attack at dawn. 0123456789")
	// one honest file per recipient list
	files := map[string]*honest{}
	fks := map[string][]byte{}
	for i := range cases {
		k := coregen.RecipSig(cases[i].Rs)
		if _, ok := files[k]; ok || !cases[i].Enc.Ok {
			continue
		}
		h, err := build(w, cases[i].Rs, pt)
		if err != nil {
			// the library does not read back the header it has just written for this list: C03 cannot be put to
			// that file (C01 and C05 judge it); the other lists go on
			run.Drift("no honest file for %s: %v", k, truncErr(err))
			continue
		}
		files[k] = h
		fks[k] = fileKeyOf(w, &cases[i], h)
	}
	ntam := 0
	vk.Parallel(len(cases), 16, func(i int) {
		c := &cases[i]
		if c.Edit.E == "none" || !c.Enc.Ok {
			return
		}
		k := coregen.RecipSig(c.Rs)
		h := files[k]
		if h == nil {
			return
		}
		fk := fks[k]
		if fk == nil && (c.Edit.What == "wk") {
			return
		}
		ak := make([]byte, 16)
		rand.Read(ak)
		ss, err := applyEdit(w, c, h, fk, ak)
		if err != nil {
			vk.Infra("edit %s: %v", editSig(c), err)
		}
		nh := &format.Header{Recipients: ss}
		switch c.Edit.Mac {
		case "orig":
			nh.MAC = h.hdr.MAC
		case "random":
			nh.MAC = make([]byte, 32)
			rand.Read(nh.MAC)
		case "attacker":
			nh.MAC = macUnder(t, ak, nh)
		}
		var out bytes.Buffer
		if err := nh.Marshal(&out); err != nil {
			vk.Infra("%v", err)
		}
		out.Write(h.payload)
		newFile := c.Res.C == "reader" && c.Res.Fk == "AK"
		rp := map[string]interface{}{"check": "C03.edit", "rs": c.Rs, "ids": c.Ids, "edit": c.Edit, "seed": run.Seed}
		judge(run, w, out.Bytes(), c.Ids, newFile, editSig(c), "edit "+editSig(c), rp, pt, h.file)
		run.Distinct(editSig(c))
	})
	for i := range cases {
		if cases[i].Edit.E != "none" {
			ntam++
		}
	}
	run.Add("structural_edits", ntam)
	c := cases[len(cases)/2]
	run.Sample(map[string]interface{}{"rs": coregen.RecipSig(c.Rs), "ids": c.Ids, "edit": c.Edit, "model_result": c.Res})
	byteLevel(run, w, pt)
	ageflow.Validate(run, "own-cases", rec.Stop())
	ageflow.RepoSuite(run)
	run.Finish()
}

// byteLevel: bit flips and inserted bytes in the real header bytes.
func byteLevel(run *vk.Run, w *world.World, pt []byte) {
	// ("G": a custom recipient's stanza of an unknown type; its body is 7 bytes in front, 149 bytes and a long first line
	// behind: body lengths of every residue modulo 3 occur, so last base64 groups of two and of three characters do)
	lists := [][]string{{"x1"}, {"x1", "e1"}, {"e1", "x1", "x2"}, {"r1", "x1"}, {"s1"}, {"G", "x1"}, {"x1", "G"}}
	rng := mrand.New(mrand.NewSource(run.Seed))
	for _, l := range lists {
		var rs []coregen.Recip
		for _, k := range l {
			if k == "G" {
				rs = append(rs, coregen.Recip{K: "G"})
				continue
			}
			rs = append(rs, coregen.Recip{K: "K", Key: k})
		}
		h, err := build(w, rs, pt)
		if err != nil {
			run.Drift("no honest file for %v: %v", l, truncErr(err))
			continue
		}
		hdrLen := len(h.file) - len(h.payload)
		sigBase := "rs=" + strings.Join(l, ",")
		type mut struct {
			name string
			file []byte
		}
		var muts []mut
		for off := 0; off < hdrLen; off++ {
			for bit := 0; bit < 8; bit++ {
				// the first and last two characters of every line get all eight flips (the ends of base64 runs carry the
				// spare bits), the rest a third of them in the quick tier
				edge := off == 0 || h.file[off-1] == '\n' || h.file[off] == '\n' || (off+1 < hdrLen && h.file[off+1] == '\n') || (off+2 < hdrLen && h.file[off+2] == '\n')
				if len(l) > 1 && !run.Thorough() && !edge && (off*8+bit+int(run.Seed))%3 != 0 {
					continue
				}
				f := append([]byte{}, h.file...)
				f[off] ^= 1 << uint(bit)
				muts = append(muts, mut{"bitflip", f})
			}
		}
		ins := func(name string, off int, b ...byte) {
			f := append(append(append([]byte{}, h.file[:off]...), b...), h.file[off:]...)
			muts = append(muts, mut{name, f})
		}
		for off := 0; off < hdrLen; off++ {
			c := h.file[off]
			if c == '\n' {
				ins("cr-before-lf", off, '\r')
				ins("space-before-lf", off, ' ')
				if off+1 < hdrLen { // after the last header line the payload begins: that is C02's ground
					ins("empty-line-after", off+1, '\n')
				}
			}
			if c == ' ' {
				ins("double-space", off, ' ')
			}
			if off+2 < hdrLen && (string(h.file[off:off+3]) == "-> " || string(h.file[off:off+3]) == "---") {
				for _, j := range [][]byte{{'x'}, {0}, {0xff}, []byte("junk")} {
					ins("junk-after-marker", off+2, j...)
					ins("junk-after-marker", off+3, j...)
				}
			}
			if off == 0 || h.file[off-1] == '\n' {
				// filler of exactly one and two internal line-buffer lengths (and one byte more) in front of a line: a
				// line reader that drops what does not fit must not make the line whole again
				for _, n := range []int{4096, 4097, 8192} {
					ins(fmt.Sprintf("filler-before-line-%d", n), off, bytes.Repeat([]byte{'A'}, n)...)
					ins(fmt.Sprintf("filler-before-line-%d", n), off, append(bytes.Repeat([]byte{'A'}, n-1), ' ')...)
				}
			}
			if off%5 == 0 {
				ins("random-insert", off, byte(rng.Intn(256)))
			}
			if off < 23 { // the intro line: every position gets a digit, a sign, a blank
				for _, b := range []byte{'0', '1', '+', '-', ' ', '\t'} {
					ins("intro-insert", off, b)
				}
			}
		}
		for off := 0; off < hdrLen; off += 3 {
			f := append(append([]byte{}, h.file[:off]...), h.file[off+1:]...)
			muts = append(muts, mut{"delete-byte", f})
		}
		// the last character of every base64 run (arguments, body lines, the MAC) replaced by each character whose 6-bit
		// value differs from it in the low four bits only: the spare bits of a two- or three-character last group
		const b64abc = "ABCDEFGHIJKLMNOPQRSTUVWXYZabcdefghijklmnopqrstuvwxyz0123456789+/"
		for off := 0; off+1 < hdrLen; off++ {
			if nx := h.file[off+1]; nx != '\n' && nx != ' ' {
				continue
			}
			v := strings.IndexByte(b64abc, h.file[off])
			if v < 0 {
				continue
			}
			for k := 1; k < 16; k++ {
				f := append([]byte{}, h.file...)
				f[off] = b64abc[v^k]
				muts = append(muts, mut{"spare-bits", f})
			}
		}
		// padded / non-canonical base64 on each body and the MAC line
		lines := bytes.SplitAfter(h.file[:hdrLen], []byte("\n"))
		for li, ln := range lines {
			if len(ln) > 2 && ln[0] != '-' && ln[0] != 'a' {
				f := bytes.Join(lines[:li], nil)
				f = append(f, ln[:len(ln)-1]...)
				f = append(f, '=', '\n')
				f = append(f, bytes.Join(lines[li+1:], nil)...)
				f = append(f, h.payload...)
				muts = append(muts, mut{"padded-body", f})
			}
		}
		vk.Parallel(len(muts), 16, func(i int) {
			m := muts[i]
			for _, id := range l {
				if id == "G" {
					continue
				}
				judge(run, w, m.file, []string{id}, false, sigBase+"/"+m.name, fmt.Sprintf("%s in the header of a file for [%s], decrypted with %s", m.name, strings.Join(l, ","), id), map[string]interface{}{"check": "C03.bytes", "file": vk.Ints(m.file[:min(len(m.file), hdrLen+40)]), "id": id}, pt, h.file)
			}
		})
		for _, m := range muts {
			run.Distinct(sigBase + "/" + m.name)
		}
		run.Add("byte_level_mutations", len(muts))
	}
	_ = errors.New
}

func truncErr(err error) string {
	s := err.Error()
	if len(s) > 160 {
		s = s[:160] + "..."
	}
	return s
}

func min(a, b int) int {
	if a < b {
		return a
	}
	return b
}
