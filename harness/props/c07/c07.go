// Package c07: header encoding is canonical; parse and marshal are inverse.
//
// TLC (spec/HeaderGen.tla over spec/AgeHeader.tla) enumerates header texts as
// paths of line classes, as all strings over a small alphabet, and as
// well-formed headers; it checks the theorems Canonical and RoundTrip of the
// specification on each and prints the bytes with the specified parse result.
// This package replays every case against internal/format and evaluates the
// property-level predicates on the real code. In the other direction it
// records format.Parse on grammar-aware mutations of real headers and lets TLC
// (spec/HeaderOracle.tla) check the records against the specification.
package c07

import (
	"bufio"
	"bytes"
	"encoding/base64"
	"encoding/json"
	"fmt"
	"io"
	"math/rand"
	"os"
	"path/filepath"
	"runtime"
	"strings"
	"sync"
	"sync/atomic"
	"testing/iotest"

	"filippo.io/age/internal/format"
	"filippo.io/age/xverif/internal/vectors"
	"filippo.io/age/xverif/internal/vk"
)

type stz struct {
	Type []int   `json:"type"`
	Args [][]int `json:"args"`
	Body []int   `json:"body"`
}

type hcase struct {
	Path      []string `json:"path"`
	Input     []int    `json:"input"`
	Ok        bool     `json:"ok"`
	Stanzas   []stz    `json:"stanzas"`
	Mac       []int    `json:"mac"`
	Rest      []int    `json:"rest"`
	Canonical bool     `json:"canonical"`
}

// ReaderKinds are the ways the same bytes are presented to Parse.
// ("advanced": a seekable reader that has already been read up to where the header starts: the header is not at offset 0
// of what lies underneath; "section": a window into a larger object)
var ReaderKinds = []string{"bytes", "bufio", "bufio16", "onebyte", "dataerr", "half", "advanced", "section"}

func mkReader(kind string, b []byte) io.Reader {
	switch kind {
	case "bytes":
		return bytes.NewReader(b)
	case "bufio":
		return bufio.NewReader(bytes.NewReader(b))
	case "bufio16":
		return bufio.NewReaderSize(bytes.NewReader(b), 16)
	case "onebyte":
		return iotest.OneByteReader(bytes.NewReader(b))
	case "dataerr":
		return iotest.DataErrReader(bytes.NewReader(b))
	case "half":
		return iotest.HalfReader(bytes.NewReader(b))
	case "advanced":
		junk := []byte("what came before the age file: 41 bytes..\n")
		r := bytes.NewReader(append(append([]byte{}, junk...), b...))
		r.Seek(int64(len(junk)), io.SeekStart)
		return r
	case "section":
		junk := []byte("-> front matter 0123456789\n")
		all := append(append(append([]byte{}, junk...), b...), []byte("behind the window")...)
		return io.NewSectionReader(bytes.NewReader(all), int64(len(junk)), int64(len(b)))
	}
	panic(kind)
}

type parsed struct {
	ok      bool
	hdr     *format.Header
	rest    []byte
	restErr error
	nilHdr  bool
	nilRd   bool
	err     error
}

func parseWith(kind string, in []byte) (p parsed, panicked interface{}) {
	defer func() {
		if r := recover(); r != nil {
			panicked = r
		}
	}()
	h, rd, err := format.Parse(mkReader(kind, in))
	p.err = err
	p.ok = err == nil
	p.hdr = h
	p.nilHdr = h == nil
	p.nilRd = rd == nil
	if err == nil && rd != nil {
		p.rest, p.restErr = io.ReadAll(rd)
	}
	return
}

func toHeader(ss []stz, mac []int) *format.Header {
	h := &format.Header{MAC: vk.Bytes(mac)}
	for _, s := range ss {
		st := &format.Stanza{Type: string(vk.Bytes(s.Type)), Body: vk.Bytes(s.Body)}
		for _, a := range s.Args {
			st.Args = append(st.Args, string(vk.Bytes(a)))
		}
		h.Recipients = append(h.Recipients, st)
	}
	return h
}

func headersEqual(a, b *format.Header) bool {
	if !bytes.Equal(a.MAC, b.MAC) || len(a.Recipients) != len(b.Recipients) {
		return false
	}
	for i := range a.Recipients {
		x, y := a.Recipients[i], b.Recipients[i]
		if x.Type != y.Type || len(x.Args) != len(y.Args) || !bytes.Equal(x.Body, y.Body) {
			return false
		}
		for j := range x.Args {
			if x.Args[j] != y.Args[j] {
				return false
			}
		}
	}
	return true
}

func marshal(h *format.Header) ([]byte, error) {
	var b bytes.Buffer
	err := h.Marshal(&b)
	return b.Bytes(), err
}

// classKey abstracts a path into a structural signature (for known findings and de-duplication).
func classKey(path []string) string { return strings.Join(path, ",") }

// CheckCase evaluates the C07 predicates on one input. It returns violation signatures (empty if none).
// spec may be nil (then only the implementation-only predicates are evaluated).
func CheckCase(run *vk.Run, input []byte, spec *hcase, label string) {
	var first parsed
	for ki, kind := range ReaderKinds {
		p, pan := parseWith(kind, input)
		run.Eval(1)
		if pan != nil {
			run.Violation("C07:panic:"+label, fmt.Sprintf("format.Parse panicked (%v) via %s reader", pan, kind), replay(input, label, kind))
			return
		}
		if ki == 0 {
			first = p
		}
		if p.ok {
			// P1: accepted input re-serialises to itself followed by exactly the remainder
			out, merr := marshal(p.hdr)
			if merr != nil || p.restErr != nil || !bytes.Equal(append(append([]byte{}, out...), p.rest...), input) {
				run.Violation("C07:noncanonical-accept:"+label,
					fmt.Sprintf("reader=%s: Parse accepted %q but Marshal(header)+payload = %q (restErr=%v)", kind, trunc(input), trunc(append(out, p.rest...)), p.restErr),
					replay(input, label, kind))
				return
			}
		} else {
			// P2: rejected input yields neither a header nor a payload reader
			if !p.nilHdr || !p.nilRd {
				run.Violation("C07:partial-on-reject:"+label, fmt.Sprintf("reader=%s: Parse failed (%v) but header nil=%v reader nil=%v", kind, p.err, p.nilHdr, p.nilRd), replay(input, label, kind))
				return
			}
		}
		// the verdict and result must not depend on how the bytes are delivered
		if ki > 0 && (p.ok != first.ok || (p.ok && (!headersEqual(p.hdr, first.hdr) || !bytes.Equal(p.rest, first.rest)))) {
			run.Violation("C07:reader-dependent:"+label, fmt.Sprintf("Parse result differs between %s and %s readers on %q", ReaderKinds[0], kind, trunc(input)), replay(input, label, kind))
			return
		}
	}
	if spec == nil {
		return
	}
	if spec.Ok {
		// P3: a well-formed header (the one the specification reads) marshals to bytes that parse back to it
		h := toHeader(spec.Stanzas, spec.Mac)
		out, merr := marshal(h)
		rest := vk.Bytes(spec.Rest)
		if merr != nil {
			run.Violation("C07:marshal-error:"+label, fmt.Sprintf("Marshal of a well-formed header failed: %v", merr), replay(input, label, ""))
			return
		}
		p, pan := parseWith("bytes", append(append([]byte{}, out...), rest...))
		run.Eval(1)
		if pan != nil || !p.ok || !headersEqual(p.hdr, h) || !bytes.Equal(p.rest, rest) {
			run.Violation("C07:roundtrip:"+label, fmt.Sprintf("well-formed header does not survive Marshal+Parse (ok=%v err=%v panic=%v) input=%q", p.ok, p.err, pan, trunc(out)), replay(input, label, ""))
			return
		}
		if !bytes.Equal(append(append([]byte{}, out...), rest...), input) {
			run.Drift("Marshal differs from the specification for path %s", label)
		}
		if first.ok && !headersEqual(first.hdr, h) {
			run.Drift("Parse result differs from the specification for path %s", label)
		}
	}
	if spec.Ok != first.ok {
		// both sides are canonical in themselves (P1 above, Canonical in TLC): a grammar drift, not a C07 verdict
		run.Drift("verdict differs from specification (spec ok=%v, code ok=%v) for %s", spec.Ok, first.ok, label)
	}
}

func trunc(b []byte) string {
	if len(b) > 160 {
		return string(b[:80]) + "…" + string(b[len(b)-60:])
	}
	return string(b)
}

func replay(input []byte, label, kind string) interface{} {
	return map[string]interface{}{"check": "C07.parse", "input": vk.Ints(input), "label": label, "reader": kind}
}

func genCfg(mode string, maxSt, maxFull int, shorts string, args string, seed int64, freeLen int, invs string) string {
	return fmt.Sprintf(`SPECIFICATION Spec
CONSTANTS
 MaxStanzas = %d
 MaxFull = %d
 ShortSet = %s
 ArgLines = %s
 Seed = %d
 Mode = "%s"
 FreeLen = %d
INVARIANTS %s
CHECK_DEADLOCK FALSE
`, maxSt, maxFull, shorts, args, seed%50, mode, freeLen, invs)
}

func runGen(run *vk.Run, what, cfg string, workers int) {
	n := 0
	acc := 0
	res := run.TLC(what, vk.TLCOpts{Module: "HeaderGen", Config: cfg, Workers: workers, OnLine: nil})
	if res.Violated != "" || !res.OK {
		vk.Infra("HeaderGen %s: specification-level failure: %s\n%s", what, res.Violated, res.Output)
	}
	cases := res.PrintsWithPrefix("CASE ")
	syms := loadSyms(res)
	parsedCases := make([]hcase, len(cases))
	for i, c := range cases {
		if err := json.Unmarshal([]byte(c), &parsedCases[i]); err != nil {
			vk.Infra("bad CASE line from TLC: %v: %s", err, c[:min(len(c), 200)])
		}
		syms.fill(&parsedCases[i])
	}
	vk.Parallel(len(parsedCases), 16, func(i int) {
		c := &parsedCases[i]
		label := what + ":" + classKey(c.Path)
		CheckCase(run, vk.Bytes(c.Input), c, label)
		run.Distinct(label)
	})
	for i := range parsedCases {
		n++
		if parsedCases[i].Ok {
			acc++
		}
	}
	if n == 0 {
		vk.Infra("HeaderGen %s produced no cases", what)
	}
	if len(parsedCases) > 0 {
		c := parsedCases[len(parsedCases)/2]
		run.Sample(map[string]interface{}{"generator": what, "path": c.Path, "input": string(vk.Bytes(c.Input)), "spec_ok": c.Ok})
	}
	run.Add("cases_"+what, n)
	run.Add("accepted_by_spec_"+what, acc)
}

func min(a, b int) int {
	if a < b {
		return a
	}
	return b
}

// Run is the C07 check.
func Run(tier string) {
	run := vk.NewRun("C07", tier, "model_checking")
	run.Rule("TLC enumerates header texts (all paths of line classes through the grammar automaton; all strings over a 12-symbol alphabet up to FreeLen; all well-formed headers over edge argument/body shapes) and checks Canonical/RoundTrip on the specification; each text is replayed through internal/format.Parse with 6 reader kinds; a case is distinct by its class path; oracle mode: grammar-aware mutations of real headers recorded from the implementation and validated by TLC against AgeHeader!Parse")
	run.Assume("AgeHeader.tla is a faithful reading of the age v1 header grammar (checked against the 85 binary CCTV vectors in oracle mode)")
	seed := run.Seed
	if !run.Thorough() {
		runGen(run, "classes1", genCfg("classes", 1, 2, "{0, 2, 47}", `{"st0","st1","st2","st3"}`, seed, 0, "CanonicalAndEmit GoodPathsAccepted"), 16)
		runGen(run, "classes2", genCfg("classes", 2, 1, "{0, 47}", `{"st0","st2"}`, seed, 0, "CanonicalAndEmit GoodPathsAccepted"), 16)
		runGen(run, "free", genCfg("free", 0, 0, "{0}", `{"st0"}`, seed, 4, "CanonicalAndEmit"), 16)
		runGen(run, "wf", genCfg("wf", 1, 0, "{0}", `{"st0"}`, seed, 0, "CanonicalAndEmit RoundTripInv"), 16)
		runGen(run, "intro", genCfg("intro", 0, 0, "{0}", `{"st0"}`, seed, 0, "CanonicalAndEmit IntroExact"), 4)
	} else {
		runGen(run, "intro", genCfg("intro", 0, 0, "{0}", `{"st0"}`, seed, 0, "CanonicalAndEmit IntroExact"), 4)
		// (bounds fitted to measured state counts: since malformed lines may be followed by the rest of a header the two
		// wider instances tried first, 2 stanzas x 6 short lengths x 4 argument shapes and 3 stanzas x 2 short lengths, did
		// not finish in 30 minutes; these three take about 1, 5 and 5 minutes)
		runGen(run, "classes1", genCfg("classes", 1, 2, "{0, 1, 2, 3, 46, 47}", `{"st0","st1","st2","st3"}`, seed, 0, "CanonicalAndEmit GoodPathsAccepted"), 16)
		runGen(run, "classes2", genCfg("classes", 2, 2, "{0, 47}", `{"st0","st2"}`, seed, 0, "CanonicalAndEmit GoodPathsAccepted"), 16)
		runGen(run, "classes3", genCfg("classes", 3, 1, "{0}", `{"st0","st2"}`, seed, 0, "CanonicalAndEmit GoodPathsAccepted"), 16)
		runGen(run, "free", genCfg("free", 0, 0, "{0}", `{"st0"}`, seed, 5, "CanonicalAndEmit"), 16)
		runGen(run, "wf", genCfg("wf", 2, 0, "{0}", `{"st0"}`, seed, 0, "CanonicalAndEmit RoundTripInv"), 16)
		run.Exhaustive()
	}
	longLines(run)
	remarshal(run)
	charSweep(run)
	interleavedParses(run)
	oracle(run, rand.New(rand.NewSource(seed)))
	run.Finish()
}

// remarshal: what a header value serialises to depends on its value, not on its history. The same *Header is
// marshalled, changed in place (type, argument, body, a stanza replaced, one appended, the MAC), and marshalled again:
// each time the bytes must be those of a freshly built equal header and parse back to it.
func remarshal(run *vk.Run) {
	mk := func() *format.Header {
		return &format.Header{MAC: bytes.Repeat([]byte{4}, 32), Recipients: []*format.Stanza{{Type: "t", Args: []string{"a", "b"}, Body: []byte("0123456789")}, {Type: "u", Args: []string{"c"}}}}
	}
	steps := []struct {
		name string
		f    func(h *format.Header)
	}{
		{"type", func(h *format.Header) { h.Recipients[0].Type = "tt" }},
		{"arg", func(h *format.Header) { h.Recipients[0].Args[1] = "bb" }},
		{"body", func(h *format.Header) { h.Recipients[1].Body = bytes.Repeat([]byte{8}, 50) }},
		{"body-in-place", func(h *format.Header) { h.Recipients[0].Body[0] = 'X' }},
		{"replace", func(h *format.Header) {
			h.Recipients[1] = &format.Stanza{Type: "v", Args: []string{"d"}, Body: []byte{1}}
		}},
		{"append", func(h *format.Header) {
			h.Recipients = append(h.Recipients, &format.Stanza{Type: "w", Args: []string{"e"}})
		}},
		{"mac", func(h *format.Header) { h.MAC = bytes.Repeat([]byte{5}, 32) }},
	}
	h := mk()   // lives through all steps
	ref := mk() // the same changes applied to it, but re-built from scratch before every marshal
	for _, st := range steps {
		marshal(h) // an earlier serialisation of the same object
		var nm bytes.Buffer
		h.MarshalWithoutMAC(&nm)
		st.f(h)
		st.f(ref)
		fresh := &format.Header{MAC: append([]byte{}, ref.MAC...)}
		for _, r := range ref.Recipients {
			fresh.Recipients = append(fresh.Recipients, &format.Stanza{Type: r.Type, Args: append([]string{}, r.Args...), Body: append([]byte{}, r.Body...)})
		}
		got, err1 := marshal(h)
		want, err2 := marshal(fresh)
		var gotNM, wantNM bytes.Buffer
		h.MarshalWithoutMAC(&gotNM)
		fresh.MarshalWithoutMAC(&wantNM)
		run.Eval(1)
		if err1 != nil || err2 != nil || !bytes.Equal(got, want) || !bytes.Equal(gotNM.Bytes(), wantNM.Bytes()) {
			run.Violation("C07:roundtrip:remarshal:"+st.name, fmt.Sprintf("after changing %s in place the header marshals to %q; an equal, freshly built header marshals to %q", st.name, trunc(got), trunc(want)), nil)
			return
		}
		p, pan := parseWith("bytes", got)
		if pan != nil || !p.ok || !headersEqual(p.hdr, fresh) {
			run.Violation("C07:roundtrip:remarshal:"+st.name, fmt.Sprintf("the re-marshalled header does not parse back to itself: %v %v", p.err, pan), nil)
			return
		}
		run.Distinct("remarshal:" + st.name)
	}
}

// charSweep: every byte value as the type, inside the type, as an argument and inside an argument of a stanza line.
// Bytes 33..126 are the stanza alphabet: such a header parses and marshals back to itself (CheckCase's predicates,
// with the expectation "accepted"); every other byte must be refused. The class alphabets of HeaderGen hold a few
// representatives; a table or format-string driven implementation can be wrong for one character only.
func charSweep(run *vk.Run) {
	mac := base64.RawStdEncoding.EncodeToString(make([]byte, 32))
	n := 0
	for c := 0; c < 256; c++ {
		if c == ' ' {
			continue // the separator: inserting it only changes the number of arguments (covered by the class generators)
		}
		for _, line := range []string{"-> " + string([]byte{byte(c)}) + " a", "-> t" + string([]byte{byte(c)}) + "t a", "-> t " + string([]byte{byte(c)}), "-> t a" + string([]byte{byte(c)}) + "b " + string([]byte{byte(c), byte(c)})} {
			in := []byte("age-encryption.org/v1\n" + line + "\nQUJD\n--- " + mac + "\npayload")
			valid := c >= 33 && c <= 126
			p, pan := parseWith(ReaderKinds[0], in)
			run.Eval(1)
			n++
			label := fmt.Sprintf("char-sweep:%d", c)
			if pan != nil {
				run.Violation("C07:panic:"+label, fmt.Sprint(pan), replay(in, label, ReaderKinds[0]))
				continue
			}
			if p.ok != valid {
				if valid {
					run.Violation("C07:canonical-reject:"+label, fmt.Sprintf("byte %d belongs to the stanza alphabet, yet %q is refused: %v", c, line, p.err), replay(in, label, ReaderKinds[0]))
				} else {
					run.Violation("C07:noncanonical-accept:"+label, fmt.Sprintf("byte %d is outside the stanza alphabet, yet %q is accepted", c, line), replay(in, label, ReaderKinds[0]))
				}
				continue
			}
			if p.ok {
				out, err := marshal(p.hdr)
				if err != nil || !bytes.Equal(append(out, p.rest...), in) {
					run.Violation("C07:noncanonical-accept:"+label, fmt.Sprintf("%q parses, but marshals back as %q", line, trunc(out)), replay(in, label, ReaderKinds[0]))
				}
			}
		}
		run.Distinct(fmt.Sprintf("char-sweep:%d", c))
	}
	run.Add("char_sweep_headers", n)
}

// longLines: well-formed headers whose lines are longer than any internal buffer (bufio default 4096).
func longLines(run *vk.Run) {
	for _, n := range []int{63, 64, 65, 4000, 4090, 4096, 4097, 4200, 8192, 70000} {
		for _, nargs := range []int{1, 3} {
			h := &format.Header{MAC: bytes.Repeat([]byte{7}, 32)}
			st := &format.Stanza{Type: "t", Body: bytes.Repeat([]byte{9}, 49)}
			for k := 0; k < nargs; k++ {
				st.Args = append(st.Args, strings.Repeat("a~", n/2/nargs+1))
			}
			h.Recipients = append(h.Recipients, st, &format.Stanza{Type: "u"})
			out, err := marshal(h)
			if err != nil {
				run.Violation(fmt.Sprintf("C07:marshal-error:long:%d", n), err.Error(), nil)
				continue
			}
			rest := []byte("payload\n--- x\n")
			in := append(append([]byte{}, out...), rest...)
			for _, kind := range ReaderKinds {
				p, pan := parseWith(kind, in)
				run.Eval(1)
				if pan != nil || !p.ok || !headersEqual(p.hdr, h) || !bytes.Equal(p.rest, rest) {
					run.Violation(fmt.Sprintf("C07:roundtrip:longline:%d:%d", n, nargs), fmt.Sprintf("well-formed header with a %d-byte argument line does not survive Marshal+Parse via %s reader: ok=%v err=%v panic=%v", n, kind, p.ok, p.err, pan), replay(in, "long", kind))
					break
				}
			}
			run.Distinct(fmt.Sprintf("long:%d:%d", n, nargs))
		}
	}
	// filler of one or two line-buffer lengths in front of each line of a small valid header: whatever Parse makes of
	// it must satisfy the case predicates (accepted input re-serialises to itself; rejected input leaves nothing)
	{
		h := &format.Header{MAC: bytes.Repeat([]byte{5}, 32), Recipients: []*format.Stanza{{Type: "t", Args: []string{"a"}, Body: bytes.Repeat([]byte{3}, 60)}}}
		out, _ := marshal(h)
		in := append(append([]byte{}, out...), []byte("payload")...)
		for off := 0; off < len(out); off++ {
			if off != 0 && in[off-1] != '\n' {
				continue
			}
			for _, n := range []int{4095, 4096, 4097, 8192, 12288} {
				f := append(append(append([]byte{}, in[:off]...), bytes.Repeat([]byte{'A'}, n)...), in[off:]...)
				CheckCase(run, f, nil, fmt.Sprintf("filler:%d@%d", n, off))
				run.Distinct(fmt.Sprintf("filler:%d@%d", n, off))
			}
		}
	}
	// long bodies (an ssh-rsa stanza for a 4096-bit key carries 512 bytes; plugins may carry more)
	for _, n := range []int{479, 480, 481, 511, 512, 513, 1024, 4096, 70000} {
		h := &format.Header{MAC: bytes.Repeat([]byte{6}, 32), Recipients: []*format.Stanza{{Type: "t", Args: []string{"a"}, Body: bytes.Repeat([]byte{0xb7}, n)}, {Type: "u", Args: []string{"b"}}}}
		out, err := marshal(h)
		if err != nil {
			run.Violation(fmt.Sprintf("C07:marshal-error:longbody:%d", n), err.Error(), nil)
			continue
		}
		p, pan := parseWith("bytes", append(append([]byte{}, out...), []byte("rest")...))
		run.Eval(1)
		if pan != nil || !p.ok || !headersEqual(p.hdr, h) || string(p.rest) != "rest" {
			run.Violation(fmt.Sprintf("C07:roundtrip:longbody:%d", n), fmt.Sprintf("well-formed header with a %d-byte stanza body does not survive Marshal+Parse: ok=%v err=%v panic=%v", n, p.ok, p.err, pan), replay(out, "longbody", "bytes"))
		}
		run.Distinct(fmt.Sprintf("longbody:%d", n))
	}
	// many arguments
	for _, k := range []int{10, 500, 1500, 3000} {
		st := &format.Stanza{Type: "t"}
		for i := 0; i < k; i++ {
			st.Args = append(st.Args, "ab")
		}
		h := &format.Header{MAC: bytes.Repeat([]byte{1}, 32), Recipients: []*format.Stanza{st}}
		out, _ := marshal(h)
		p, pan := parseWith("bytes", out)
		run.Eval(1)
		if pan != nil || !p.ok || !headersEqual(p.hdr, h) {
			run.Violation(fmt.Sprintf("C07:roundtrip:manyargs:%d", k), fmt.Sprintf("well-formed header with %d arguments does not survive Marshal+Parse: err=%v", k, p.err), replay(out, "manyargs", "bytes"))
		}
		run.Distinct(fmt.Sprintf("manyargs:%d", k))
	}
}

type orec struct {
	Name    string `json:"name"`
	Input   []int  `json:"input"`
	Ok      bool   `json:"ok"`
	Stanzas []stz  `json:"stanzas"`
	Mac     []int  `json:"mac"`
	Rest    []int  `json:"rest"`
}

func record(name string, in []byte) orec {
	p, _ := parseWith("bytes", in)
	r := orec{Name: name, Input: vk.Ints(in), Ok: p.ok, Stanzas: []stz{}, Mac: []int{}, Rest: []int{}}
	if p.ok {
		r.Mac = vk.Ints(p.hdr.MAC)
		r.Rest = vk.Ints(p.rest)
		for _, s := range p.hdr.Recipients {
			z := stz{Type: vk.Ints([]byte(s.Type)), Args: [][]int{}, Body: vk.Ints(s.Body)}
			for _, a := range s.Args {
				z.Args = append(z.Args, vk.Ints([]byte(a)))
			}
			r.Stanzas = append(r.Stanzas, z)
		}
	}
	return r
}

// oracle mode: the implementation's results on mutated real headers are checked by TLC against the specification.
func oracle(run *vk.Run, rng *rand.Rand) {
	bases := baseHeaders()
	if len(bases) == 0 {
		vk.Infra("no base headers for oracle mode")
	}
	var recs []interface{}
	var inputs [][]byte
	add := func(name string, in []byte) {
		if len(in) > 700 {
			return
		}
		recs = append(recs, record(name, in))
		inputs = append(inputs, in)
	}
	for bi, b := range bases {
		add(fmt.Sprintf("base%d", bi), b)
	}
	nmut := run.Pick(1500, 20000)
	subs := []byte{' ', '\n', '\r', '-', '>', '=', 'A', '/', '+', 0x7f, 0x80, 0, '\t'}
	for i := 0; i < nmut; i++ {
		b := append([]byte{}, bases[rng.Intn(len(bases))]...)
		if len(b) > 600 {
			continue
		}
		hdrEnd := bytes.Index(b, []byte("\n--- "))
		if hdrEnd < 0 {
			hdrEnd = len(b) - 1
		}
		lim := min(len(b), hdrEnd+50)
		pos := rng.Intn(lim)
		var name string
		switch rng.Intn(6) {
		case 0:
			b[pos] = subs[rng.Intn(len(subs))]
			name = "subst"
		case 1:
			b = append(b[:pos], append([]byte{subs[rng.Intn(len(subs))]}, b[pos:]...)...)
			name = "insert"
		case 2:
			b = append(b[:pos], b[pos+1:]...)
			name = "delete"
		case 3: // duplicate a line
			lines := bytes.SplitAfter(b, []byte("\n"))
			k := rng.Intn(len(lines))
			var nb []byte
			for j, l := range lines {
				nb = append(nb, l...)
				if j == k {
					nb = append(nb, l...)
				}
			}
			b = nb
			name = "dupline"
		case 4: // swap two lines
			lines := bytes.SplitAfter(b, []byte("\n"))
			if len(lines) > 2 {
				k := rng.Intn(len(lines) - 1)
				lines[k], lines[k+1] = lines[k+1], lines[k]
			}
			b = bytes.Join(lines, nil)
			name = "swapline"
		case 5:
			b = b[:pos]
			name = "truncate"
		}
		add(fmt.Sprintf("%s@%d#%d", name, pos, i), b)
	}
	// binding self-test: one record with the implementation's verdict falsified must be singled out by TLC
	fake := record("selftest-falsified", bases[0])
	fake.Ok = !fake.Ok
	fake.Stanzas, fake.Mac, fake.Rest = []stz{}, []int{}, []int{}
	recs = append(recs, fake)
	selfIdx := len(recs)
	dir, err := os.MkdirTemp("", "c07o-")
	if err != nil {
		vk.Infra("%v", err)
	}
	defer os.RemoveAll(dir)
	path := filepath.Join(dir, "cases.ndjson")
	if err := vk.WriteNDJSON(path, recs); err != nil {
		vk.Infra("%v", err)
	}
	nshards := 16
	cfg := fmt.Sprintf("SPECIFICATION Spec\nCONSTANT NShards = %d\nINVARIANT Judge\nCHECK_DEADLOCK FALSE\n", nshards)
	res := run.TLC("oracle", vk.TLCOpts{Module: "HeaderOracle", Config: cfg, Workers: 16, Env: map[string]string{"CASES": path}})
	if res.Violated != "" || !res.OK {
		vk.Infra("HeaderOracle failed: %s\n%s", res.Violated, res.Output)
	}
	run.Traces(len(recs) - 1)
	bad := res.PrintsWithPrefix("BAD ")
	judged := len(res.PrintsWithPrefix("JUDGED "))
	_ = judged
	selfSeen := false
	for _, bline := range bad {
		var v struct {
			I    int    `json:"i"`
			Why  string `json:"why"`
			Name string `json:"name"`
		}
		if err := json.Unmarshal([]byte(bline), &v); err == nil && v.I == selfIdx {
			selfSeen = true
			continue
		}
		if err := json.Unmarshal([]byte(bline), &v); err != nil || v.I < 1 || v.I > len(inputs) {
			vk.Infra("bad BAD line %q", bline)
		}
		// re-run on the real code with the property-level predicates; TLC's disagreement alone is drift
		CheckCase(run, inputs[v.I-1], nil, "oracle:"+v.Why+":"+strings.SplitN(v.Name, "@", 2)[0])
		run.Drift("oracle disagreement (%s) on %s", v.Why, v.Name)
	}
	for i, in := range inputs {
		CheckCase(run, in, nil, fmt.Sprintf("oracle-input:%d", i))
	}
	if !selfSeen {
		vk.Infra("binding self-test failed: HeaderOracle did not flag a falsified record")
	}
	run.Set("binding_selftest", "falsified record flagged by HeaderOracle")
	run.Add("oracle_records", len(recs)-1)
	run.Add("oracle_disagreements", len(bad)-1)
	if len(recs) > 0 {
		run.Sample(map[string]interface{}{"generator": "oracle", "record": recs[len(recs)/2]})
	}
}

// baseHeaders: the binary CCTV vectors plus library-made headers.
func baseHeaders() [][]byte {
	var out [][]byte
	for _, v := range vectors.All() {
		if v.Armored {
			continue
		}
		out = append(out, v.File)
	}
	for _, n := range []int{0, 1, 47, 48, 49, 96} {
		h := &format.Header{MAC: bytes.Repeat([]byte{byte(n)}, 32)}
		h.Recipients = append(h.Recipients, &format.Stanza{Type: "X25519", Args: []string{"abc"}, Body: bytes.Repeat([]byte{0xa5}, n)})
		h.Recipients = append(h.Recipients, &format.Stanza{Type: "grease", Body: []byte{1, 2, 3}})
		b, _ := marshal(h)
		out = append(out, append(b, []byte("PAYLOAD")...))
	}
	return out
}

// HostileInputs returns TLC-generated header texts (every reject edge of the header grammar) for C14.
func HostileInputs(run *vk.Run) [][]byte {
	res := run.TLC("header-grammar", vk.TLCOpts{Module: "HeaderGen", Config: genCfg("classes", 2, 1, "{0, 47}", `{"st0","st2"}`, run.Seed, 0, "CanonicalAndEmit"), Workers: 16})
	if res.Violated != "" || !res.OK {
		vk.Infra("HeaderGen: %s\n%s", res.Violated, res.Output)
	}
	var out [][]byte
	syms := loadSyms(res)
	for _, l := range res.PrintsWithPrefix("CASE ") {
		var c hcase
		if json.Unmarshal([]byte(l), &c) == nil {
			syms.fill(&c)
			out = append(out, vk.Bytes(c.Input))
		}
	}
	return out
}

// symTable: the bytes of each class/symbol as printed once by TLC ("SYMS ...").
type symTable struct {
	Intro []int            `json:"intro"`
	Syms  map[string][]int `json:"syms"`
}

func loadSyms(res *vk.TLCResult) *symTable {
	t := &symTable{}
	if l := res.PrintsWithPrefix("SYMS "); len(l) >= 1 {
		if err := json.Unmarshal([]byte(l[0]), t); err != nil {
			// an empty table is printed as [] for the wf mode
			t.Syms = map[string][]int{}
		}
	}
	return t
}

// fill rebuilds the input of a case from its path when TLC did not print it.
func (t *symTable) fill(c *hcase) {
	if len(c.Input) > 0 || len(t.Intro) == 0 {
		return
	}
	in := append([]int{}, t.Intro...)
	for _, p := range c.Path {
		b, ok := t.Syms[p]
		if !ok {
			vk.Infra("TLC did not print the bytes of class %q", p)
		}
		in = append(in, b...)
	}
	c.Input = in
}

// interleavedParses: what Parse hands back as the payload reader belongs to that call alone. Several files are parsed
// one after the other (and by several goroutines at once) before any payload is read; each payload reader must then
// deliver exactly the bytes behind its own header, in whatever order the payloads are read. (Parse reads ahead of the
// header; the bytes it read ahead must not live in anything a later Parse call can write to.)
func interleavedParses(run *vk.Run) {
	var bases [][]byte
	for _, n := range []int{0, 1, 47, 48, 49, 96, 200} {
		h := &format.Header{MAC: bytes.Repeat([]byte{byte(n)}, 32)}
		h.Recipients = append(h.Recipients, &format.Stanza{Type: "X25519", Args: []string{"abc"}, Body: bytes.Repeat([]byte{0xa5}, n)})
		if n%2 == 1 {
			h.Recipients = append(h.Recipients, &format.Stanza{Type: "grease", Body: []byte{1, 2, 3}})
		}
		b, err := marshal(h)
		if err != nil {
			run.Drift("interleaved parses: a well-formed header does not marshal: %v (judged by the round-trip part)", err)
			return
		}
		bases = append(bases, b)
	}
	type file struct {
		in      []byte
		payload []byte
	}
	mkFiles := func(n int, salt int) []file {
		var fs []file
		for i := 0; i < n; i++ {
			h := bases[(i+salt)%len(bases)]
			ln := []int{0, 1, 17, 100, 1000, 3000, 4095, 4096, 5000, 70000}[(i*3+salt)%10]
			pl := make([]byte, ln)
			for j := range pl {
				pl[j] = byte(i*37 + salt*11 + j)
			}
			fs = append(fs, file{in: append(append([]byte{}, h...), pl...), payload: pl})
		}
		return fs
	}
	check := func(label string, fs []file, kinds []string, order []int) {
		rds := make([]io.Reader, len(fs))
		for i := range fs {
			h, rd, err := format.Parse(mkReader(kinds[i%len(kinds)], fs[i].in))
			if err != nil || h == nil || rd == nil {
				run.Drift("interleaved parses: a base header did not parse (%s): %v", label, err)
				return
			}
			rds[i] = rd
		}
		for _, i := range order {
			got, err := io.ReadAll(rds[i])
			run.Eval(1)
			if err != nil || !bytes.Equal(got, fs[i].payload) {
				run.Violation("C07:payload-reader-disturbed-by-later-parse:"+label, fmt.Sprintf("%s: file %d of %d parsed one after the other (reader kind %s): its payload reader gives %d bytes (%v), the file holds %d behind its header, first difference at %d", label, i+1, len(fs), kinds[i%len(kinds)], len(got), err, len(fs[i].payload), firstDiff(got, fs[i].payload)), map[string]interface{}{"check": "C07.interleaved", "label": label})
				return
			}
		}
		run.Distinct("interleaved:" + label)
	}
	for salt := 0; salt < 10; salt++ {
		for _, kinds := range [][]string{{"bytes"}, {"bufio16"}, {"onebyte"}, {"bytes", "bufio", "half", "advanced", "section"}} {
			fs := mkFiles(2+salt%3, salt)
			fwd := make([]int, len(fs))
			rev := make([]int, len(fs))
			for i := range fs {
				fwd[i], rev[i] = i, len(fs)-1-i
			}
			check(fmt.Sprintf("sequential/%s/%d/forward", strings.Join(kinds, "+"), salt), fs, kinds, fwd)
			check(fmt.Sprintf("sequential/%s/%d/reverse", strings.Join(kinds, "+"), salt), fs, kinds, rev)
		}
	}
	// goroutines: each parses, yields, and reads its payload while the others do the same
	var wg sync.WaitGroup
	var bad atomic.Value
	for g := 0; g < 32; g++ {
		wg.Add(1)
		go func(g int) {
			defer wg.Done()
			defer func() { recover() }()
			for round := 0; round < 20; round++ {
				fs := mkFiles(1, g*20+round)
				_, rd, err := format.Parse(bytes.NewReader(fs[0].in))
				if err != nil {
					return
				}
				runtime.Gosched()
				got, err := io.ReadAll(rd)
				if err != nil || !bytes.Equal(got, fs[0].payload) {
					bad.Store(fmt.Sprintf("goroutine %d round %d: payload reader gives %d bytes (%v), the file holds %d behind its header", g, round, len(got), err, len(fs[0].payload)))
					return
				}
			}
		}(g)
	}
	wg.Wait()
	run.Eval(32 * 20)
	if s, ok := bad.Load().(string); ok {
		run.Violation("C07:payload-reader-disturbed-by-later-parse:concurrent", s, map[string]interface{}{"check": "C07.interleaved", "label": "concurrent"})
	}
	run.Distinct("interleaved:concurrent")
}

func firstDiff(a, b []byte) int {
	for i := 0; i < len(a) && i < len(b); i++ {
		if a[i] != b[i] {
			return i
		}
	}
	return min(len(a), len(b))
}
