// Package c12: results do not depend on I/O chunking; processing is streaming.
package c12

import (
	"bufio"
	"bytes"
	"encoding/json"
	"filippo.io/age/xverif/props/armwr"
	"fmt"
	"io"
	"math/rand"
	"os"
	"path/filepath"
	"strings"
	"sync"
	"time"

	"filippo.io/age"
	"filippo.io/age/armor"
	"filippo.io/age/internal/stream"
	"filippo.io/age/xverif/internal/rd"
	"filippo.io/age/xverif/internal/strm"
	"filippo.io/age/xverif/internal/tape"
	"filippo.io/age/xverif/internal/vk"
	"filippo.io/age/xverif/props/c02"
)

func mcCfg(mode string, C, T, maxL int, reads, writes string, maxWrites int, keep bool, invs string, view bool) string {
	k := "FALSE"
	if keep {
		k = "TRUE"
	}
	v := ""
	if view {
		v = "VIEW view\n"
	}
	return fmt.Sprintf(`SPECIFICATION Spec
CONSTANTS
 C = %d
 T = %d
 KeepHist = %s
 Mode = "%s"
 MaxL = %d
 ReadSizes = %s
 WriteSizes = %s
 MaxWrites = %d
 Faults = FALSE
 ProbeIgnoresN = FALSE
INVARIANTS %s
%sCHECK_DEADLOCK FALSE
`, C, T, k, mode, maxL, reads, writes, maxWrites, invs, v)
}

type whist struct {
	A   string `json:"a"`
	N   int    `json:"n"`
	F   int    `json:"f"`
	Ret int    `json:"ret"`
	Err string `json:"err"`
}
type wcase struct {
	Hist  []whist `json:"hist"`
	Acc   int     `json:"acc"`
	Err   string  `json:"err"`
	AllOK bool    `json:"allOK"`
}

type rstep struct {
	A   string `json:"a"`
	N   int    `json:"n"`
	Eof bool   `json:"eof"`
}
type rcase struct {
	File     []strm.Frame `json:"file"`
	Avail    int          `json:"avail"`
	Hist     []rstep      `json:"hist"`
	Class    string       `json:"class"`
	Released int          `json:"released"`
	Honest   bool         `json:"honest"`
}

// offMap maps a cumulative plaintext offset in model units (chunk size C) to bytes.
func offMap(w *strm.World, u int) int {
	return (u/w.C)*strm.Chunk + w.LenMap(u%w.C)
}

// encryptWith runs age.Encrypt under a deterministic tape and the given write sizes (bytes); returns the file,
// per-write holdback observations and any error.
func encryptWith(id *age.X25519Identity, tapeSeed int64, pt []byte, sizes []int, armored bool, viaCopy string) (out []byte, problem string) {
	var dst bytes.Buffer
	var sink io.Writer = &dst
	var aw io.WriteCloser
	if armored {
		aw = armor.NewWriter(&dst)
		sink = aw
	}
	var w io.WriteCloser
	var err error
	// all random values are drawn inside Encrypt; the writes themselves can run in parallel
	tape.WithDeterministic(tapeSeed, func() { w, err = age.Encrypt(sink, id.Recipient()) })
	if err != nil {
		return nil, "Encrypt: " + err.Error()
	}
	hdr := dst.Len() // header + nonce already at dst (binary); for armor an approximation, see below
	accepted := 0
	check := func() {
		if armored {
			return // holdback through the armor is judged on decoded size below
		}
		atDst := 0
		if dst.Len() > hdr {
			atDst = (dst.Len() - hdr) / strm.EncChunk * strm.Chunk
		}
		if accepted-atDst > strm.Chunk && problem == "" {
			problem = fmt.Sprintf("holdback: %d bytes accepted, only %d at the destination", accepted, atDst)
		}
	}
	switch viaCopy {
	case "":
		off := 0
		for _, n := range sizes {
			k, err := w.Write(pt[off : off+n])
			if err != nil || k != n {
				return nil, fmt.Sprintf("Write(%d) = (%d, %v)", n, k, err)
			}
			off += n
			accepted += n
			check()
		}
	case "copy": // source with WriteTo
		if _, err := io.Copy(w, bytes.NewReader(pt)); err != nil {
			return nil, "io.Copy: " + err.Error()
		}
	case "copyplain": // source without WriteTo, EOF signalled by a separate read: ReaderFrom would be used if the writer had it
		if _, err := io.Copy(w, rd.Plain{R: bytes.NewReader(pt)}); err != nil {
			return nil, "io.Copy: " + err.Error()
		}
	case "copyhalf":
		if _, err := io.Copy(w, rd.New("half", pt)); err != nil {
			return nil, "io.Copy: " + err.Error()
		}
	}
	if err := w.Close(); err != nil {
		return nil, "Close: " + err.Error()
	}
	if aw != nil {
		if err := aw.Close(); err != nil {
			return nil, "armor Close: " + err.Error()
		}
	}
	return dst.Bytes(), problem
}

func sizesKey(s []int) string {
	p := make([]string, len(s))
	for i, n := range s {
		p[i] = fmt.Sprint(n)
	}
	return strings.Join(p, ",")
}

func splitN(n, k int) []int {
	out := []int{}
	for n > 0 {
		m := k
		if m > n {
			m = n
		}
		out = append(out, m)
		n -= m
	}
	return out
}

// Run is the C12 check.
func Run(tier string) {
	run := vk.NewRun("C12", tier, "model_checking")
	run.Rule("TLC model-checks the STREAM reader machine under every delivery schedule x read size (ScheduleIndependence, ReadAhead) and the writer under every write sequence (Holdback, full counts); TLC enumerates all write sequences over {0,1,C-1,C,C+1,2C,2C+1} (mapped to 0,1,65535,65536,65537,131072,131073 bytes) which are replayed through age.Encrypt under a fixed tape and compared byte for byte with the single-write ciphertext, binary and armored; TLC -simulate produces reader schedules (delivery sizes with/without EOF, read sizes) replayed against internal/stream; a policy matrix (10 source kinds x 7 read policies x bufio or not x armor) on valid and damaged files compares plaintext and error; writer runs are recorded and validated by TLC with real constants. Distinct = schedule signature.")
	run.Assume("crypto/rand.Reader is the only randomness source of Encrypt (asserted by C06)")
	seed := run.Seed
	rinv := "PrefixOnlyS CleanOnlyIfHonestS ScheduleIndependence ReadAhead NoPanicR TypeOK"
	run.SpecMustHold("reader-mc", vk.TLCOpts{Module: "StreamMC", Config: mcCfg("reader", 2, 1, run.Pick(5, 7), "{0, 1, 2, 3}", "{}", 0, false, rinv, true), Workers: 16, Expect: []string{"RCall", "RFill", "RProbe"}})
	winv := "HoldbackW FrameShapeW SuccessMeansCompleteW"
	run.SpecMustHold("writer-mc", vk.TLCOpts{Module: "StreamMC", Config: mcCfg("writer", 2, 1, 0, "{}", "{0, 1, 2, 3, 4, 5}", run.Pick(5, 6), false, winv, true), Workers: 16, Expect: []string{"WWriteA", "WCloseA"}})
	if run.Thorough() {
		run.SpecMustHold("reader-mc-C3", vk.TLCOpts{Module: "StreamMC", Config: mcCfg("reader", 3, 2, 10, "{0, 1, 3, 4}", "{}", 0, false, rinv, true), Workers: 16})
	}

	id, err := age.GenerateX25519Identity()
	if err != nil {
		vk.Infra("%v", err)
	}
	writeSchedules(run, id, seed)
	readSchedules(run, seed)
	policyMatrix(run, id, seed)
	writerTraces(run, seed)
	// the armoring writer as a machine (ArmorWrite.tla): every history of writes over sizes around the 3-byte group
	// and the 48-byte line gives the armor of the concatenation, each successful Write reporting the full count
	if run.Thorough() {
		armwr.Run(run, "armor-writer-segmentations", armwr.Config("{0, 1, 2, 3, 46, 47, 48, 49, 50, 96, 800}", 4, 1, 0, "{}", true))
	} else {
		armwr.Run(run, "armor-writer-segmentations", armwr.Config("{0, 1, 2, 47, 48, 49, 97, 800}", 3, 1, 0, "{}", true))
	}
	run.Finish()
}

// writeSchedules: all TLC-enumerated write sequences, replayed through age.Encrypt.
func writeSchedules(run *vk.Run, id *age.X25519Identity, seed int64) {
	C := 3
	cfg := mcCfg("writer", C, 2, 0, "{}", "{0, 1, 2, 3, 4, 6, 7}", run.Pick(4, 5), true, "HoldbackW FrameShapeW SuccessMeansCompleteW EmitWriter", false)
	res := run.TLC("write-schedules", vk.TLCOpts{Module: "StreamMC", Config: cfg, Workers: 16})
	if res.Violated != "" || !res.OK {
		vk.Infra("StreamMC writer generation failed: %s\n%s", res.Violated, res.Output)
	}
	lines := res.PrintsWithPrefix("CASE ")
	if len(lines) == 0 {
		vk.Infra("no writer schedules generated")
	}
	w := strm.NewWorld(seed, C, 2, 13)
	refs := map[string][]byte{}
	var rmu sync.Mutex
	ref := func(n int, armored bool) []byte {
		rmu.Lock()
		defer rmu.Unlock()
		k := fmt.Sprintf("%d/%v", n, armored)
		if b, ok := refs[k]; ok {
			return b
		}
		b, prob := encryptWith(id, seed, w.P[:n], []int{n}, armored, "")
		if prob != "" {
			// the single-write encryption itself misbehaves (e.g. a short count on a successful write)
			run.Violation(fmt.Sprintf("C12:write:single-write/total=%d/armor=%v", n, armored), fmt.Sprintf("encrypting %d bytes with one Write: %s", n, prob), map[string]interface{}{"check": "C12.write", "sizes": []int{n}, "armored": armored})
		}
		refs[k] = b
		return b
	}
	n := 0
	for _, total := range []int{0, 1, 65535, 65536, 65537, 131072, 131073, 196608, 200000} {
		ref(total, false)
		ref(total, true)
	}
	vk.Parallel(len(lines), 16, func(li int) {
		l := lines[li]
		var c wcase
		if err := json.Unmarshal([]byte(l), &c); err != nil {
			vk.Infra("bad CASE: %v", err)
		}
		if c.Err != "closed" {
			return
		}
		var sizes []int
		cum := 0
		for _, h := range c.Hist {
			if h.A != "write" {
				continue
			}
			sizes = append(sizes, offMap(w, cum+h.N)-offMap(w, cum))
			cum += h.N
		}
		total := offMap(w, cum)
		for _, armored := range []bool{false, true} {
			if armored && li%4 != 0 {
				continue
			}
			out, prob := encryptWith(id, seed, w.P[:total], sizes, armored, "")
			run.Eval(1)
			sig := fmt.Sprintf("writes=%s/armor=%v", sizesKey(sizes), armored)
			rp := map[string]interface{}{"check": "C12.write", "sizes": sizes, "armored": armored, "seed": seed}
			if prob != "" {
				run.Violation("C12:write:"+sig, prob, rp)
				continue
			}
			if !bytes.Equal(out, ref(total, armored)) {
				run.Violation("C12:ciphertext-depends-on-writes:"+sig, fmt.Sprintf("writes %v give a %d-byte file that differs from the single-write encryption (%d bytes) under the same random values", sizes, len(out), len(ref(total, armored))), rp)
			}
			run.Distinct("w:" + sig)
		}
	})
	n = len(lines)
	// additional write policies on boundary lengths, incl. io.Copy paths (ReaderFrom / WriterTo)
	for _, total := range []int{0, 1, 65535, 65536, 65537, 131072, 131073, 196608, 200000} {
		for _, armored := range []bool{false, true} {
			pols := map[string][]int{"b7": splitN(total, 7), "b4096": splitN(total, 4096), "b65536": splitN(total, 65536), "b65537": splitN(total, 65537), "b100000": splitN(total, 100000),
				"empty-between": append(append([]int{0}, splitN(total, 50000)...), 0), "b49": nil, "b1": nil}
			if total <= 70000 {
				pols["b1"] = splitN(total, 1)
				pols["b49"] = splitN(total, 49)
			}
			for name, sizes := range pols {
				if sizes == nil && name != "b7" {
					continue
				}
				out, prob := encryptWith(id, seed, w.P[:total], sizes, armored, "")
				run.Eval(1)
				sig := fmt.Sprintf("policy=%s/total=%d/armor=%v", name, total, armored)
				if prob != "" {
					run.Violation("C12:write:"+sig, prob, nil)
				} else if !bytes.Equal(out, ref(total, armored)) {
					run.Violation("C12:ciphertext-depends-on-writes:"+sig, "file differs from the single-write encryption under the same random values", nil)
				}
				run.Distinct("wp:" + sig)
			}
			for _, via := range []string{"copy", "copyplain", "copyhalf"} {
				out, prob := encryptWith(id, seed, w.P[:total], nil, armored, via)
				run.Eval(1)
				sig := fmt.Sprintf("policy=%s/total=%d/armor=%v", via, total, armored)
				if prob != "" {
					run.Violation("C12:write:"+sig, prob, nil)
				} else if !bytes.Equal(out, ref(total, armored)) {
					run.Violation("C12:ciphertext-depends-on-writes:"+sig, "file written through io.Copy differs from the single-write encryption under the same random values", map[string]interface{}{"check": "C12.copy", "via": via, "total": total, "armored": armored})
				}
				run.Distinct("wp:" + sig)
			}
		}
	}
	run.Add("write_schedules_from_tlc", n)
	run.Sample(map[string]interface{}{"generator": "write-schedules", "tlc_case": lines[len(lines)/2]})
}

// readSchedules: TLC-simulated delivery/read schedules replayed on the real reader.
func readSchedules(run *vk.Run, seed int64) {
	C, T := 3, 2
	cfg := mcCfg("reader", C, T, 7, "{0, 1, 3, 4}", "{}", 0, true, "PrefixOnlyS ScheduleIndependence EmitReader", false)
	res := run.TLC("read-schedules", vk.TLCOpts{Module: "StreamMC", Config: cfg, Workers: 8, Simulate: fmt.Sprintf("num=%d", run.Pick(60, 600)), Depth: 60, Seed: seed})
	if res.Violated != "" {
		vk.Infra("StreamMC reader simulation failed: %s\n%s", res.Violated, res.Output)
	}
	lines := res.PrintsWithPrefix("CASE ")
	if len(lines) == 0 {
		vk.Infra("no reader schedules generated")
	}
	w := strm.NewWorld(seed, C, T, 8)
	seen := map[string]bool{}
	n := 0
	for li, l := range lines {
		var c rcase
		if err := json.Unmarshal([]byte(l), &c); err != nil {
			vk.Infra("bad CASE: %v", err)
		}
		key := l
		if seen[key] || n >= run.Pick(400, 4000) {
			continue
		}
		seen[key] = true
		rng := rand.New(rand.NewSource(seed + int64(li)))
		// concretise the visible part of the file
		full := w.FileBytes(c.File, 0, rng)
		total := 0
		for _, f := range c.File {
			total += f.Size
		}
		cut := total - c.Avail
		payload := full
		if cut > 0 {
			payload = cutUnits(w, c.File, cut, rng)
		}
		// unit position -> byte position
		pos := func(u int) int { return unitPos(w, c.File, u) }
		var sizes []int
		var reads []int
		up := 0
		eofWith := false
		for _, h := range c.Hist {
			switch h.A {
			case "deliver":
				if h.N > 0 {
					sizes = append(sizes, pos(up+h.N)-pos(up))
					up += h.N
				}
				if h.Eof && h.N > 0 {
					eofWith = true
				}
			case "read":
				reads = append(reads, map[int]int{0: 0, 1: 1, 3: 65536, 4: 65537}[h.N])
			}
		}
		src := &strm.Scripted{B: payload, Sizes: sizes, EOFWithData: eofWith, FailAt: -1}
		r, _ := stream.NewReader(w.KeyK, src)
		var out bytes.Buffer
		var term error
		for _, p := range reads {
			buf := make([]byte, p)
			k, err := r.Read(buf)
			out.Write(buf[:k])
			if err != nil {
				term = err
				break
			}
		}
		if term == nil {
			res := strm.Drain(r, "buf4096")
			out.Write(res.Data)
			term = res.Err
		}
		run.Eval(1)
		sig := fmt.Sprintf("sched:%d", li)
		rp := map[string]interface{}{"check": "C12.sched", "case": c}
		refR, _ := stream.NewReader(w.KeyK, bytes.NewReader(payload))
		want := strm.Drain(refR, "readall")
		if !bytes.Equal(out.Bytes(), want.Data) || (term == io.EOF) != (want.Err == io.EOF) {
			run.Violation("C12:result-depends-on-schedule:"+sig, fmt.Sprintf("schedule (deliveries %v, reads %v, eofWithData=%v) gives %d bytes/%v; all-at-once gives %d bytes/%v", sizes, reads, eofWith, out.Len(), term, len(want.Data), want.Err), rp)
		}
		if c.Honest && (term != io.EOF || out.Len() != offMapFile(w, c.File)) {
			run.Violation("C12:valid-file-fails-under-schedule:"+sig, fmt.Sprintf("untouched file under schedule (deliveries %v, reads %v, eofWithData=%v): %d bytes, %v", sizes, reads, eofWith, out.Len(), term), rp)
		}
		run.Distinct(sig)
		n++
	}
	run.Add("read_schedules_from_tlc", n)
	run.Sample(map[string]interface{}{"generator": "read-schedules", "tlc_case": lines[len(lines)/2]})
}

func offMapFile(w *strm.World, fs []strm.Frame) int {
	n := 0
	for _, f := range fs {
		n += w.LenMap(f.Len)
	}
	return n
}

// unitPos: byte offset of unit position u in the concretised file.
func unitPos(w *strm.World, fs []strm.Frame, u int) int {
	b := 0
	for _, f := range fs {
		if u >= f.Size {
			if f.K == "G" {
				b += garbageBytes(w, f.Size)
			} else {
				b += w.LenMap(f.Len) + strm.Tag
			}
			u -= f.Size
			continue
		}
		if f.K == "G" {
			return b + garbageBytes(w, f.Size)*u/f.Size
		}
		return b + w.UnitBytes(f.Len, u)
	}
	return b
}

func garbageBytes(w *strm.World, size int) int {
	if size >= w.T {
		return w.UnitBytes(size-w.T, size)
	}
	return size * strm.Tag / w.T
}

func cutUnits(w *strm.World, fs []strm.Frame, cut int, rng *rand.Rand) []byte {
	total := 0
	for _, f := range fs {
		total += f.Size
	}
	full := w.FileBytes(fs, 0, rand.New(rand.NewSource(1)))
	_ = rng
	return full[:unitPos(w, fs, total-cut)]
}

// policyMatrix: the same file, valid or damaged, through every combination of source kind, buffering, armor
// and read policy must give the same plaintext and the same kind of ending; and reading must be incremental.
func policyMatrix(run *vk.Run, id *age.X25519Identity, seed int64) {
	rng := rand.New(rand.NewSource(seed))
	{
		// a paused sender: header + two chunks of a five-chunk file available, every caller buffer size
		n := 4*65536 + 100
		pt := make([]byte, n)
		rng.Read(pt)
		var buf bytes.Buffer
		wc, _ := age.Encrypt(&buf, id.Recipient())
		wc.Write(pt)
		wc.Close()
		stalledSource(run, id, buf.Bytes(), pt, n)
	}
	longHeaderLines(run, id, rng)
	sizes := []int{0, 1, 65536, 65537, 131072}
	if run.Thorough() {
		sizes = append(sizes, 65535, 196608, 200001)
	}
	for _, n := range sizes {
		pt := make([]byte, n)
		rng.Read(pt)
		for _, armored := range []bool{false, true} {
			var buf bytes.Buffer
			var sink io.Writer = &buf
			var aw io.WriteCloser
			if armored {
				aw = armor.NewWriter(&buf)
				sink = aw
			}
			wc, _ := age.Encrypt(sink, id.Recipient())
			wc.Write(pt)
			wc.Close()
			if aw != nil {
				aw.Close()
			}
			valid := buf.Bytes()
			variants := map[string][]byte{"valid": valid}
			if len(valid) > 300 {
				variants["truncated"] = valid[:len(valid)-rng.Intn(200)-70]
				fl := append([]byte{}, valid...)
				fl[len(fl)-150] ^= 4
				variants["flipped"] = fl
			}
			if !armored {
				variants["trailing1"] = append(append([]byte{}, valid...), 'x')
			} else {
				variants["trailing-garbage"] = append(append([]byte{}, valid...), []byte("\nxyz\n")...)
				variants["crlf"] = bytes.ReplaceAll(valid, []byte("\n"), []byte("\r\n"))
			}
			for vname, file := range variants {
				type outcome struct {
					data []byte
					eof  bool
				}
				var ref *outcome
				kinds := c02.SourceKinds
				pols := strm.ReadPolicies
				if !run.Thorough() {
					kinds = pickS(kinds, 5, n+len(vname))
					pols = pickS(pols, 4, n)
					// the styles that switch between Read and io.Copy or hand over buffers of more than a chunk are always in
					for _, must := range []string{"sniffcopy", "readfrom", "buf1048576", "sniff512copybuf"} {
						have := false
						for _, p := range pols {
							have = have || p == must
						}
						if !have {
							pols = append(pols, must)
						}
					}
				}
				for _, kind := range kinds {
					if kind == "onebyte" && len(file) > 100000 && armored {
						continue
					}
					for _, wrap := range []string{"", "bufio", "bufio16"} {
						for _, pol := range pols {
							if pol == "buf1" && n > 70000 {
								continue
							}
							src := &rd.Counting{R: c02.Source(kind, file)}
							var in io.Reader = src
							switch wrap {
							case "bufio":
								in = bufio.NewReader(in)
							case "bufio16":
								in = bufio.NewReaderSize(in, 16)
							}
							if armored {
								in = armor.NewReader(in)
							}
							var res strm.Result
							r, err := age.Decrypt(in, id)
							if err != nil {
								res.Err = err
							} else {
								res = strm.Drain(r, pol)
							}
							run.Eval(1)
							o := &outcome{res.Data, res.Err == io.EOF}
							sig := fmt.Sprintf("n=%d/armor=%v/%s", n, armored, vname)
							rp := map[string]interface{}{"check": "C12.matrix", "n": n, "armored": armored, "variant": vname, "source": kind, "wrap": wrap, "read": pol}
							if res.Panic != nil {
								run.Violation("C12:panic:"+sig, fmt.Sprint(res.Panic), rp)
								continue
							}
							if ref == nil {
								ref = o
							} else if !bytes.Equal(ref.data, o.data) || ref.eof != o.eof {
								run.Violation("C12:result-depends-on-delivery:"+sig, fmt.Sprintf("source=%s wrap=%s read=%s: %d bytes, clean end=%v (err=%v); first combination: %d bytes, clean end=%v", kind, wrap, pol, len(o.data), o.eof, res.Err, len(ref.data), ref.eof), rp)
							}
							if vname == "valid" && (!o.eof || !bytes.Equal(o.data, pt)) {
								run.Violation("C12:valid-file-fails:"+sig, fmt.Sprintf("source=%s wrap=%s read=%s: %v after %d of %d bytes", kind, wrap, pol, res.Err, len(o.data), n), rp)
							}
						}
					}
				}
				run.Distinct(fmt.Sprintf("matrix:%d:%v:%s", n, armored, vname))
			}
			if !armored && n >= 65536 {
				readAhead(run, id, valid, pt, n)
			}
		}
	}
}

func pickS(all []string, k, salt int) []string {
	if k >= len(all) {
		return all
	}
	out := []string{}
	for i := 0; i < k; i++ {
		out = append(out, all[(salt+i*3)%len(all)])
	}
	return out
}

// readAhead: after k chunks have been released the source has been read at most about one further chunk.
func readAhead(run *vk.Run, id *age.X25519Identity, file, pt []byte, n int) {
	src := &rd.Counting{R: bytes.NewReader(file)}
	r, err := age.Decrypt(src, id)
	if err != nil {
		return
	}
	hdr := len(file) - (16 + n + ((n+strm.Chunk-1)/strm.Chunk)*16)
	if n == 0 {
		hdr = len(file) - 32
	}
	buf := make([]byte, 4096)
	released := 0
	for {
		k, err := r.Read(buf)
		released += k
		chunksDone := (released + strm.Chunk - 1) / strm.Chunk
		limit := int64(hdr + 16 + (chunksDone+1)*strm.EncChunk + 4096 + 1)
		run.Eval(1)
		if src.N > limit {
			run.Violation(fmt.Sprintf("C12:read-ahead:n=%d", n), fmt.Sprintf("after releasing %d plaintext bytes the reader had taken %d bytes from the source (bound %d)", released, src.N, limit), nil)
			return
		}
		if err != nil {
			return
		}
	}
}

// longArg is a recipient whose stanza has one argument of n characters (a line longer than any line buffer).
type longArg struct{ n int }

func (l longArg) Wrap(fileKey []byte) ([]*age.Stanza, error) {
	return []*age.Stanza{{Type: "long", Args: []string{strings.Repeat("a", l.n)}, Body: []byte{1, 2, 3}}}, nil
}

// longHeaderLines: a valid file whose header has a stanza line of 4000..70000 characters decrypts to the same plaintext
// through every kind of source: plain, one byte at a time, buffered with buffers smaller and larger than the line.
func longHeaderLines(run *vk.Run, id *age.X25519Identity, rng *rand.Rand) {
	pt := make([]byte, 1000)
	rng.Read(pt)
	for _, n := range []int{4000, 4084, 4085, 4086, 4087, 4096, 8192, 70000} {
		var buf bytes.Buffer
		wc, err := age.Encrypt(&buf, longArg{n}, id.Recipient())
		if err != nil {
			vk.Infra("%v", err)
		}
		wc.Write(pt)
		wc.Close()
		file := buf.Bytes()
		var first string
		for ki, kind := range rd.SourceKinds {
			r, err := age.Decrypt(rd.New(kind, file), id)
			var got []byte
			if err == nil {
				got, err = io.ReadAll(r)
			}
			run.Eval(1)
			res := "ok"
			if err != nil || !bytes.Equal(got, pt) {
				res = fmt.Sprintf("error: %v", err)
			}
			if ki == 0 {
				first = res
			}
			sig := fmt.Sprintf("long-header-line:%d", n)
			if res != first {
				run.Violation("C12:result-depends-on-delivery:"+sig, fmt.Sprintf("a valid file with a %d-character stanza line: source %s gives %q, source %s gives %q", n, rd.SourceKinds[0], first, kind, res), map[string]interface{}{"check": "C12.longline", "n": n, "kind": kind})
				break
			}
			if res != "ok" {
				run.Violation("C12:valid-file-fails:"+sig, fmt.Sprintf("a valid file with a %d-character stanza line does not decrypt (%s source): %s", n, kind, res), map[string]interface{}{"check": "C12.longline", "n": n, "kind": kind})
				break
			}
		}
		run.Distinct(fmt.Sprintf("long-header-line:%d", n))
	}
}

// stallSrc hands out B[:avail] and then blocks until released (a pipe or socket whose sender has paused).
type stallSrc struct {
	b       []byte
	pos     int
	release chan struct{}
	stalled chan struct{}
	once    sync.Once
}

func (s *stallSrc) Read(p []byte) (int, error) {
	if s.pos >= len(s.b) {
		s.once.Do(func() { close(s.stalled) })
		<-s.release
		return 0, io.ErrUnexpectedEOF
	}
	n := copy(p, s.b[s.pos:])
	s.pos += n
	return n, nil
}

// stalledSource: the source has delivered the header and two whole chunks and then pauses. A streaming reader hands out
// the first chunk whatever the size of the caller's buffer; it must not wait for input it does not need.
func stalledSource(run *vk.Run, id *age.X25519Identity, file, pt []byte, n int) {
	hdr := len(file) - (16 + n + ((n+strm.Chunk-1)/strm.Chunk)*16)
	avail := hdr + 16 + 2*strm.EncChunk
	for _, bs := range []int{4096, 65536, 100000, 262144, 1 << 20} {
		src := &stallSrc{b: file[:avail], release: make(chan struct{}), stalled: make(chan struct{})}
		type res struct {
			k   int
			err error
			buf []byte
		}
		done := make(chan res, 1)
		go func() {
			r, err := age.Decrypt(src, id)
			if err != nil {
				done <- res{0, err, nil}
				return
			}
			buf := make([]byte, bs)
			k, err := r.Read(buf)
			done <- res{k, err, buf}
		}()
		run.Eval(1)
		sig := fmt.Sprintf("C12:waits-for-input-it-does-not-need:n=%d/buf=%d", n, bs)
		rp := map[string]interface{}{"check": "C12.stall", "n": n, "buf": bs}
		select {
		case r := <-done:
			close(src.release)
			if r.err != nil || r.k <= 0 || r.k > len(pt) || !bytes.Equal(r.buf[:r.k], pt[:r.k]) {
				run.Violation(sig, fmt.Sprintf("header and two chunks available: the first Read(%d) returned %d bytes, %v", bs, r.k, r.err), rp)
			}
		case <-src.stalled:
			// the reader asked for a third chunk before handing out anything
			select {
			case r := <-done:
				close(src.release)
				_ = r
			case <-time.After(300 * time.Millisecond):
				close(src.release)
				<-done
			}
			run.Violation(sig, fmt.Sprintf("header and two chunks were available, yet the first Read(%d) asked the source for more before returning any plaintext", bs), rp)
		case <-time.After(20 * time.Second):
			close(src.release)
			run.Violation(sig, fmt.Sprintf("the first Read(%d) neither returned nor asked for input within 20 s", bs), rp)
		}
		run.Distinct(fmt.Sprintf("stall:%d:%d", n, bs))
	}
}

// writerTraces: random write compositions on the real writer, validated against Stream.tla (real constants).
func writerTraces(run *vk.Run, seed int64) {
	rng := rand.New(rand.NewSource(seed ^ 77))
	key := make([]byte, 32)
	rng.Read(key)
	data := make([]byte, 400000)
	rng.Read(data)
	var evs []interface{}
	nruns := run.Pick(100, 1000)
	for t := 0; t < nruns; t++ {
		evs = append(evs, map[string]interface{}{"ev": "WReset"})
		dst := strm.NewFaultyDst()
		w, _ := stream.NewWriter(key, dst)
		nops := 1 + rng.Intn(6)
		closed := false
		for o := 0; o < nops; o++ {
			if rng.Intn(6) == 0 {
				err := w.Close()
				evs = append(evs, map[string]interface{}{"ev": "Close", "err": errS(err), "dstCalls": dst.Calls, "dstBytes": dst.Buf.Len(), "dstFailed": false})
				closed = true
				continue
			}
			n := []int{0, 1, 100, 65535, 65536, 65537, 131072, 131073, 200000}[rng.Intn(9)]
			k, err := w.Write(data[:n])
			evs = append(evs, map[string]interface{}{"ev": "Write", "n": n, "ret": k, "err": errS(err), "dstCalls": dst.Calls, "dstBytes": dst.Buf.Len(), "dstFailed": false})
		}
		if !closed {
			err := w.Close()
			evs = append(evs, map[string]interface{}{"ev": "Close", "err": errS(err), "dstCalls": dst.Calls, "dstBytes": dst.Buf.Len(), "dstFailed": false})
		}
	}
	dir, err := os.MkdirTemp("", "c12t-")
	if err != nil {
		vk.Infra("%v", err)
	}
	defer os.RemoveAll(dir)
	path := filepath.Join(dir, "trace.ndjson")
	if err := vk.WriteNDJSON(path, evs); err != nil {
		vk.Infra("%v", err)
	}
	ok, at := c02.ValidateTrace(run, "writer-traces", path)
	run.Traces(nruns)
	run.Add("trace_events", len(evs))
	if !ok {
		b, _ := json.Marshal(evs[at-1])
		run.Violation("C12:trace-rejected", fmt.Sprintf("the real writer took a step Stream.tla does not allow at trace line %d: %s", at, b), map[string]interface{}{"check": "C12.trace", "event": evs[at-1]})
	}
}

func errS(err error) string {
	if err == nil {
		return ""
	}
	if err == io.EOF {
		return "EOF"
	}
	return "other"
}
