// Package c10: passphrase files stand alone and bound the work they demand.
package c10

import (
	"bytes"
	"crypto/rand"
	"encoding/json"
	"fmt"
	"io"
	"os"
	"path/filepath"
	"strconv"
	"strings"
	"sync"
	"time"

	"filippo.io/age"
	"filippo.io/age/internal/format"
	"filippo.io/age/internal/verifhook"
	"filippo.io/age/xverif/internal/coregen"
	"filippo.io/age/xverif/internal/eval"
	"filippo.io/age/xverif/internal/vk"
	"filippo.io/age/xverif/internal/world"
	"filippo.io/age/xverif/props/c05"
)

type gcase struct {
	Kind     string   `json:"kind"`
	WF       []string `json:"wf"`
	Max      int      `json:"max"`
	Layout   []string `json:"layout"`
	Expected struct {
		Derive bool   `json:"derive"`
		LogN   int    `json:"logN"`
		Why    string `json:"why"`
	} `json:"expected"`
}

const pw = "the passphrase is right"

var hookMu sync.Mutex
var derived []int

func installHook() {
	verifhook.EmitFn = func(name string, args ...int) {
		if name == "scrypt.derive" && len(args) > 0 {
			hookMu.Lock()
			derived = append(derived, args[0])
			hookMu.Unlock()
		}
	}
}

func takeDerived() []int {
	hookMu.Lock()
	defer hookMu.Unlock()
	d := derived
	derived = nil
	return d
}

// forgeScrypt makes a correct scrypt stanza wrapping fk with work factor logN, then writes wfString as its argument.
func forgeScrypt(t *c05.Terms, fk []byte, logN int, wfString string) *format.Stanza {
	var st c05.Stanza
	if err := json.Unmarshal(t.ForgeScrypt[logN-1], &st); err != nil {
		vk.Infra("forge term: %v", err)
	}
	e := eval.NewEnv()
	salt := make([]byte, 16)
	rand.Read(salt)
	e.B["draw2"], e.B["fk"], e.B["pw:k"] = salt, fk, []byte(pw)
	out := &format.Stanza{Type: st.Type}
	for _, a := range st.Args {
		b, err := e.Eval(a)
		if err != nil {
			vk.Infra("forge arg: %v", err)
		}
		out.Args = append(out.Args, string(b))
	}
	body, err := e.Eval(st.Body)
	if err != nil {
		vk.Infra("forge body: %v", err)
	}
	out.Body = body
	out.Args[1] = wfString
	return out
}

// buildFile assembles a complete valid file around the given stanzas (valid MAC under fk, valid payload).
func buildFile(t *c05.Terms, fk []byte, ss []*format.Stanza, pt []byte) []byte {
	h := &format.Header{Recipients: ss}
	var nm bytes.Buffer
	h.MarshalWithoutMAC(&nm)
	e := eval.NewEnv()
	e.B["fk"], e.B["hdrnomac"] = fk, nm.Bytes()
	mac, err := e.Eval(t.Reading["mac"])
	if err != nil {
		vk.Infra("%v", err)
	}
	h.MAC = mac
	var out bytes.Buffer
	h.Marshal(&out)
	nonce := make([]byte, 16)
	rand.Read(nonce)
	e.B["nonce"], e.B["plaintext"] = nonce, pt
	pl, err := e.Eval(t.Payload)
	if err != nil {
		vk.Infra("payload term: %v", err)
	}
	out.Write(pl)
	return out.Bytes()
}

func set(xs []string) string {
	q := make([]string, len(xs))
	for i, x := range xs {
		q[i] = `"` + x + `"`
	}
	return "{" + strings.Join(q, ",") + "}"
}

// Run is the C10 check.
func Run(tier string) {
	run := vk.NewRun("C10", tier, "model_checking")
	run.Rule("TLC (ScryptGate.tla) enumerates every work-factor string over {0,1,2,5,9,+,-,space,x,a} up to 3 characters plus specials (20 digits, 64, 23, leading zeros, Arabic-Indic digit, empty) x configured maxima {1,2,5,9,10,14,22}, and every header layout of 1..4 stanzas with an scrypt stanza at any position among X25519/grease/second-scrypt stanzas, with the specified outcome (derive with logN, or reject without derivation); each case becomes a complete file forged through the format terms with a CORRECT wrap and a valid MAC (so acceptance would succeed) and is given to ScryptIdentity.Unwrap and age.Decrypt; the scrypt.derive hook reports every key derivation. Encrypt side: every recipient list containing a passphrase recipient (AgeCore.tla). Distinct = (string, maximum) / layout / list.")
	run.Assume("the verif hook sits immediately before scrypt.Key in scrypt.go (both call sites); a derivation that bypassed it would go unnoticed (cross-checked by wall time only)")
	installHook()
	alpha := []string{"0", "1", "2", "5", "9", "+", "-", " ", "x", "a"}
	maxLen := run.Pick(2, 3)
	cfg := fmt.Sprintf(`SPECIFICATION Spec
CONSTANTS
 Alphabet = %s
 MaxLen = %d
 Maxima = {1, 2, 5, 9, 10, 14, 22}
 MaxStanzas = %d
 OtherKinds = {"X25519", "grease", "rand-grease", "scrypt-copy"}
 Specials <- SpecialStrings
INVARIANT Emit
CHECK_DEADLOCK FALSE
`, set(alpha), maxLen, run.Pick(3, 4))
	res := run.TLC("gate", vk.TLCOpts{Module: "ScryptGateMC", Config: cfg, Workers: 8})
	if res.Violated != "" || !res.OK {
		vk.Infra("ScryptGate: %s\n%s", res.Violated, res.Output)
	}
	lines := res.PrintsWithPrefix("CASE ")
	if len(lines) == 0 {
		vk.Infra("no gate cases")
	}
	t := c05.LoadTerms(run, 1, 5)
	w := world.New(run.Seed)
	x1 := w.XIdentity("x1")
	pt := []byte("C10 plaintext")
	nDerive := 0
	for li, l := range lines {
		var c gcase
		if err := json.Unmarshal([]byte(l), &c); err != nil {
			vk.Infra("bad CASE: %v", err)
		}
		wf := strings.Join(c.WF, "")
		if c.Expected.Derive && c.Expected.LogN > 14 {
			continue // would really spend the work; the reject side of large factors is covered with smaller maxima
		}
		actual := 2
		if c.Expected.Derive {
			actual = c.Expected.LogN
		} else if v := leadingInt(wf); v >= 1 && v <= 12 {
			actual = v // if the gate were too lax the derivation would even succeed
		} else if v := wrapped(wf); v >= 1 && v <= 12 {
			actual = v // a parser that wraps around on overflow would read this small number
		}
		fk := make([]byte, 16)
		rand.Read(fk)
		var ss []*format.Stanza
		var the *format.Stanza
		theUsed := false
		for _, k := range c.Layout {
			switch k {
			case "scrypt":
				if the == nil {
					the = forgeScrypt(t, fk, actual, wf)
					ss = append(ss, the)
				} else if !theUsed {
					ss = append(ss, the)
				} else {
					ss = append(ss, forgeScrypt(t, fk, actual, wf))
				}
				theUsed = true
			case "scrypt-copy": // byte for byte the header's (first) passphrase stanza, wherever that one stands
				if the == nil {
					the = forgeScrypt(t, fk, actual, wf)
				}
				cp := *the
				ss = append(ss, &cp)
			case "X25519":
				s, _ := x1.Recipient().Wrap(fk)
				ss = append(ss, (*format.Stanza)(s[0]))
			case "rand-grease": // the form of grease stanza that age and rage really emit
				ss = append(ss, &format.Stanza{Type: "k7Qz-grease", Args: []string{"a", "b"}, Body: []byte{9, 8, 7, 6}})
			default:
				ss = append(ss, &format.Stanza{Type: "grease", Args: []string{"a"}, Body: []byte{1, 2, 3}})
			}
		}
		if wf == "" || strings.ContainsAny(wf, " ") {
			// an empty or space-containing argument cannot be carried by a parseable header: Unwrap is called directly
			id, _ := age.NewScryptIdentity(pw)
			id.SetMaxWorkFactor(c.Max)
			takeDerived()
			var stz []*age.Stanza
			for _, s := range ss {
				stz = append(stz, (*age.Stanza)(s))
			}
			_, err := id.Unwrap(stz)
			judge(run, &c, wf, takeDerived(), err == nil, "Unwrap", li)
			continue
		}
		file := buildFile(t, fk, ss, pt)
		if len(c.Layout) > 1 {
			// with a WRONG passphrase too the header must be rejected outright (not treated as "not mine"): another identity
			// listed after the passphrase identity must not get to open a header that mixes a passphrase stanza with others
			wrongID, _ := age.NewScryptIdentity("not " + pw)
			wrongID.SetMaxWorkFactor(c.Max)
			r, err := age.Decrypt(bytes.NewReader(file), wrongID, x1)
			run.Eval(1)
			if err == nil && r != nil {
				run.Violation(fmt.Sprintf("C10:mixed-header-accepted:layout=%s", strings.Join(c.Layout, ",")), fmt.Sprintf("a passphrase identity (wrong passphrase) followed by an X25519 identity: the header %v, in which the passphrase stanza is not alone, was opened", c.Layout), map[string]interface{}{"check": "C10.mixed", "layout": c.Layout})
			}
		}
		vias := []string{"Unwrap", "Decrypt"}
		if len(c.Layout) == 1 && c.Layout[0] == "scrypt" && !c.Expected.Derive && actual <= c.Max {
			vias = append(vias, "Unwrap-after-genuine") // history: the same identity value has just opened the genuine stanza (same salt, same body)
		}
		for _, via := range vias {
			id, _ := age.NewScryptIdentity(pw)
			id.SetMaxWorkFactor(c.Max)
			if via == "Unwrap-after-genuine" {
				g := *ss[0]
				g.Args = append([]string(nil), g.Args...)
				g.Args[1] = strconv.Itoa(actual)
				if k, err := id.Unwrap([]*age.Stanza{(*age.Stanza)(&g)}); err != nil || !bytes.Equal(k, fk) {
					run.Drift("the genuine stanza (work factor %d, maximum %d) was not opened: %v", actual, c.Max, err)
					continue
				}
			}
			takeDerived()
			ok := false
			if via == "Unwrap" || via == "Unwrap-after-genuine" {
				var stz []*age.Stanza
				for _, s := range ss {
					stz = append(stz, (*age.Stanza)(s))
				}
				k, err := id.Unwrap(stz)
				ok = err == nil && bytes.Equal(k, fk)
			} else {
				r, err := age.Decrypt(bytes.NewReader(file), id)
				if err == nil {
					b, rerr := io.ReadAll(r)
					ok = rerr == nil && bytes.Equal(b, pt)
				}
			}
			d := takeDerived()
			if len(d) > 0 {
				nDerive++
			}
			judge(run, &c, wf, d, ok, via, li)
		}
		run.Distinct(fmt.Sprintf("%s:%q:%d:%s", c.Kind, wf, c.Max, strings.Join(c.Layout, ",")))
	}
	run.Add("gate_cases", len(lines))
	run.Add("derivations_observed", nDerive)
	run.Sample(map[string]interface{}{"tlc_case": lines[len(lines)/2]})
	cliGate(run, t, x1)
	encryptSide(run, w, tier)
	run.Finish()
}

// wrapped: the value of a decimal string modulo 2^64 and 2^32 if either is small (else 0).
func wrapped(s string) int {
	var v64 uint64
	for _, c := range s {
		if c < '0' || c > '9' {
			return 0
		}
		v64 = v64*10 + uint64(c-'0')
	}
	if v64 >= 1 && v64 <= 12 {
		return int(v64)
	}
	if v32 := uint32(v64); v32 >= 1 && v32 <= 12 {
		return int(v32)
	}
	return 0
}

func leadingInt(s string) int {
	v := 0
	for _, c := range strings.TrimLeft(s, "+0 ") {
		if c < '0' || c > '9' || v > 1000 {
			break
		}
		v = v*10 + int(c-'0')
	}
	return v
}

func judge(run *vk.Run, c *gcase, wf string, d []int, ok bool, via string, li int) {
	run.Eval(1)
	sig := fmt.Sprintf("wf=%q/max=%d/layout=%s/%s", wf, c.Max, strings.Join(c.Layout, ","), via)
	rp := map[string]interface{}{"check": "C10.gate", "case": c, "via": via}
	if !c.Expected.Derive {
		if len(d) > 0 {
			run.Violation("C10:derived-although-must-reject:"+sig, fmt.Sprintf("work factor %q, maximum %d, layout %v (%s): a key was derived with logN=%v although the stanza must be rejected (%s) without derivation", wf, c.Max, c.Layout, via, d, c.Expected.Why), rp)
			return
		}
		if ok {
			run.Violation("C10:accepted-although-must-reject:"+sig, fmt.Sprintf("work factor %q, maximum %d, layout %v (%s): accepted, must be rejected (%s)", wf, c.Max, c.Layout, via, c.Expected.Why), rp)
		}
		return
	}
	for _, n := range d {
		if n > c.Max {
			run.Violation("C10:work-above-maximum:"+sig, fmt.Sprintf("derived with logN=%d above the configured maximum %d", n, c.Max), rp)
			return
		}
	}
	if !ok {
		run.Drift("a canonical in-range work factor %q (max %d) was not accepted via %s", wf, c.Max, via)
	}
}

// encryptSide: every recipient list containing a passphrase recipient together with anything is refused, untouched dst.
func encryptSide(run *vk.Run, w *world.World, tier string) {
	maxR := 3
	if tier == "thorough" {
		maxR = 4
	}
	cases := coregen.Generate(run, "scrypt-lists", coregen.Cfg("scryptlists", []string{"x1", "e1", "s1", "s2"}, maxR, 1, "LabelSetsNone", "ScryptAloneEnc LabelRule Emit"))
	seen := map[string]bool{}
	n := 0
	for i := range cases {
		c := &cases[i]
		k := coregen.RecipSig(c.Rs)
		has := false
		for _, r := range c.Rs {
			if r.K == "K" && world.Type(r.Key) == "scrypt" {
				has = true
			}
		}
		if !has || seen[k] {
			continue
		}
		seen[k] = true
		n++
		// twice: with the library's recipient values, and with every passphrase recipient held inside a caller's own
		// struct (the rule is about what the recipient does, not about its dynamic type)
		for _, owned := range []bool{false, true} {
			rcs := coregen.Recipients(w, c.Rs)
			if owned {
				for j, rc := range rcs {
					if sr, ok := rc.(*age.ScryptRecipient); ok {
						rcs[j] = ownedPassphrase{sr, "caller"}
					}
				}
			}
			cw := &coregen.CountingWriter{}
			takeDerived()
			_, err := age.Encrypt(cw, rcs...)
			run.Eval(1)
			rp := map[string]interface{}{"check": "C10.encrypt", "rs": c.Rs, "owned": owned}
			kk := k
			if owned {
				kk += "/embedded"
			}
			if len(c.Rs) > 1 {
				if err == nil {
					run.Violation("C10:passphrase-recipient-not-alone:rs="+kk, fmt.Sprintf("Encrypt accepted [%s]", kk), rp)
				} else if cw.Bytes != 0 {
					run.Violation("C10:bytes-written-on-refusal:rs="+kk, fmt.Sprintf("%d bytes written before refusing [%s]", cw.Bytes, kk), rp)
				}
			} else if err != nil {
				run.Drift("a lone passphrase recipient was refused: %v", err)
			}
		}
		run.Distinct("enc:" + k)
	}
	run.Add("lists_with_passphrase_recipient", n)
}

// cliGate: the age command's passphrase identity (LazyScryptIdentity, default maximum 22) on forged files, through a pty.
func cliGate(run *vk.Run, t *c05.Terms, x1 *age.X25519Identity) {
	ageBin := filepath.Join(vk.BuildCLI(), "age")
	dir, err := os.MkdirTemp("", "c10cli-")
	if err != nil {
		vk.Infra("%v", err)
	}
	defer os.RemoveAll(dir)
	pt := []byte("C10 cli plaintext")
	mk := func(layout []string, wf string, actual int) []byte {
		fk := make([]byte, 16)
		rand.Read(fk)
		var ss []*format.Stanza
		for _, k := range layout {
			switch k {
			case "scrypt":
				ss = append(ss, forgeScrypt(t, fk, actual, wf))
			case "X25519":
				s, _ := x1.Recipient().Wrap(fk)
				ss = append(ss, (*format.Stanza)(s[0]))
			default:
				ss = append(ss, &format.Stanza{Type: "k7Qz-grease", Args: []string{"a"}, Body: []byte{1, 2}})
			}
		}
		return buildFile(t, fk, ss, pt)
	}
	cases := []struct {
		name   string
		file   []byte
		accept bool
	}{
		{"wf=10", mk([]string{"scrypt"}, "10", 10), true},
		{"wf=23-above-default-maximum", mk([]string{"scrypt"}, "23", 2), false},
		{"wf=30", mk([]string{"scrypt"}, "30", 2), false},
		{"wf=05", mk([]string{"scrypt"}, "05", 5), false},
		{"wf=+5", mk([]string{"scrypt"}, "+5", 5), false},
		{"wf=2^64+10", mk([]string{"scrypt"}, "18446744073709551626", 10), false},
		{"grease,scrypt", mk([]string{"rand-grease", "scrypt"}, "4", 4), false},
		{"scrypt,X25519", mk([]string{"scrypt", "X25519"}, "4", 4), false},
		{"X25519,scrypt,X25519", mk([]string{"X25519", "scrypt", "X25519"}, "4", 4), false},
	}
	for _, c := range cases {
		f := filepath.Join(dir, "in.age")
		os.WriteFile(f, c.file, 0o644)
		out := filepath.Join(dir, "out.txt")
		os.Remove(out)
		start := time.Now()
		p := vk.RunProc(120*time.Second, dir, []string{"TERM=dumb"}, []byte(pw+"\n"), "script", "-qec", "'"+ageBin+"' -d -o out.txt in.age", "/dev/null")
		el := time.Since(start)
		run.Eval(1)
		got, _ := os.ReadFile(out)
		sig := "cli:" + c.name
		rp := map[string]interface{}{"check": "C10.cli", "case": c.name}
		if p.TimedOut {
			run.Violation("C10:cli-hang:"+sig, "age -d did not finish within 120 s", rp)
			continue
		}
		if c.accept {
			if p.Exit != 0 || !bytes.Equal(got, pt) {
				run.Drift("the CLI did not decrypt a passphrase file with an in-range canonical work factor (exit %d)", p.Exit)
			}
		} else {
			if p.Exit == 0 || len(got) > 0 {
				run.Violation("C10:cli-accepted:"+sig, fmt.Sprintf("age -d accepted %s (exit %d, %d bytes of output) although a passphrase identity must reject it", c.name, p.Exit, len(got)), rp)
			} else if el > 20*time.Second {
				run.Violation("C10:cli-work-before-reject:"+sig, fmt.Sprintf("age -d took %v to reject %s: key-derivation work was spent on a stanza that must be rejected without it", el, c.name), rp)
			}
		}
		run.Distinct(sig)
	}
}

// ownedPassphrase is a passphrase recipient inside a caller's struct: all its methods are the library's.
type ownedPassphrase struct {
	*age.ScryptRecipient
	owner string
}
