// Package c05: files are byte-exact age v1 and existing files keep decrypting. Also hosts the C06 check, which
// observes the same encryptions through the CSPRNG tape.
package c05

import (
	"bytes"
	"crypto/cipher"
	crand "crypto/rand"
	"crypto/rsa"
	"crypto/sha256"
	"crypto/x509"
	"encoding/base64"
	"encoding/hex"
	"encoding/json"
	"encoding/pem"
	"errors"
	"fmt"
	"golang.org/x/crypto/curve25519"
	"io"
	"math/rand"
	"os"
	"os/exec"
	"path/filepath"
	"strconv"
	"strings"
	"sync/atomic"

	"filippo.io/age"
	"filippo.io/age/armor"
	"filippo.io/age/internal/format"
	"filippo.io/age/internal/stream"
	"filippo.io/age/xverif/internal/eval"
	"filippo.io/age/xverif/internal/strm"
	"filippo.io/age/xverif/internal/tape"
	"filippo.io/age/xverif/internal/vectors"
	"filippo.io/age/xverif/internal/vk"
	"filippo.io/age/xverif/internal/world"
	"golang.org/x/crypto/chacha20poly1305"
)

type rcp struct {
	K  string `json:"k"`
	ID string `json:"id"`
	WF int    `json:"wf"`
}
type planEntry struct {
	Role string `json:"role"`
	Rcp  int    `json:"rcp"`
	Size int    `json:"size"`
}
type termCase struct {
	Rs      []rcp           `json:"rs"`
	Plan    []planEntry     `json:"plan"`
	File    json.RawMessage `json:"file"`
	Armored json.RawMessage `json:"armored"`
}

// Terms holds what TLC printed from AgeFormatGen.
type Terms struct {
	Cases       []termCase
	Reading     map[string]json.RawMessage
	Forge       map[string]json.RawMessage
	ForgeScrypt []json.RawMessage // index logN-1
	Payload     json.RawMessage
}

// Stanza is a forged stanza term.
type Stanza struct {
	Type string            `json:"type"`
	Args []json.RawMessage `json:"args"`
	Body json.RawMessage   `json:"body"`
}

func rsSig(rs []rcp) string {
	p := make([]string, len(rs))
	for i, r := range rs {
		p[i] = r.ID
	}
	return strings.Join(p, ",")
}

// LoadTerms runs TLC over AgeFormatGen.
func LoadTerms(run *vk.Run, maxRecips, wf int) *Terms {
	cfg := fmt.Sprintf("SPECIFICATION Spec\nCONSTANTS\n MaxRecips = %d\n WF = %d\nINVARIANT Emit\nCHECK_DEADLOCK FALSE\n", maxRecips, wf)
	res := run.TLC("format-terms", vk.TLCOpts{Module: "AgeFormatGen", Config: cfg, Workers: 8})
	if res.Violated != "" || !res.OK {
		vk.Infra("AgeFormatGen: %s\n%s", res.Violated, res.Output)
	}
	t := &Terms{}
	for _, l := range res.PrintsWithPrefix("TERM ") {
		var c termCase
		if err := json.Unmarshal([]byte(l), &c); err != nil {
			vk.Infra("bad TERM: %v", err)
		}
		t.Cases = append(t.Cases, c)
	}
	rd := res.PrintsWithPrefix("READING ")
	fg := res.PrintsWithPrefix("FORGE ")
	if len(t.Cases) == 0 || len(rd) == 0 || len(fg) == 0 {
		vk.Infra("AgeFormatGen printed no terms")
	}
	json.Unmarshal([]byte(rd[0]), &t.Reading)
	json.Unmarshal([]byte(fg[0]), &t.Forge)
	if fs := res.PrintsWithPrefix("FORGESCRYPT "); len(fs) == 1 {
		json.Unmarshal([]byte(fs[0]), &t.ForgeScrypt)
	}
	if pl := res.PrintsWithPrefix("PAYLOAD "); len(pl) == 1 {
		t.Payload = json.RawMessage(pl[0])
	}
	return t
}

// Observation of one library encryption under the recording tape.
type Observation struct {
	Out   []byte
	Draws [][]byte
	Err   error
}

// buildRecipients makes the real recipient objects of a list (one object per list position).
func buildRecipients(w *world.World, rs []rcp) []age.Recipient {
	var recips []age.Recipient
	same := map[string]age.Recipient{} // a key listed twice is the SAME recipient value twice (what a caller with one parsed key does)
	for _, r := range rs {
		if rc, ok := same[r.ID]; ok {
			recips = append(recips, rc)
			continue
		}
		rc := w.Recipient(r.ID)
		same[r.ID] = rc
		if sr, ok := rc.(*age.ScryptRecipient); ok {
			sr.SetWorkFactor(r.WF)
		}
		recips = append(recips, rc)
	}
	return recips
}

func encryptObserved(w *world.World, rs []rcp, pt []byte, armored bool) Observation {
	return encryptObservedWith(buildRecipients(w, rs), pt, armored, writeStyle(len(pt)))
}

var styleTurn int32

// writeStyle picks how the plaintext reaches the writer: 0 one Write; 1 io.Copy from a plain reader; 2.. a short Write
// followed by one Write of everything else (so that a write larger than a chunk meets a non-empty buffer), a full chunk
// then the rest, and 100 + a chunk + the rest. Multiples of the chunk size always include the io.Copy style; above one
// chunk the styles rotate so that every length class meets every style over a run.
func writeStyle(n int) int {
	t := int(atomic.AddInt32(&styleTurn, 1))
	if n > 65536 {
		return t % 5
	}
	if n%2 == 1 || (n > 0 && n%65536 == 0) {
		return 1
	}
	return 0
}

func encryptObservedWith(recips []age.Recipient, pt []byte, armored bool, style int) Observation {
	var o Observation
	var buf bytes.Buffer
	var sink io.Writer = &buf
	var aw io.WriteCloser
	if armored {
		aw = armor.NewWriter(&buf)
		sink = aw
	}
	var wc io.WriteCloser
	t := tape.WithRecording(func() { wc, o.Err = age.Encrypt(sink, recips...) })
	o.Draws = t.Draws
	if o.Err != nil {
		return o
	}
	switch style {
	case 1:
		// a source without WriteTo: io.Copy would use an io.ReaderFrom of the writer if it had one
		_, o.Err = io.Copy(wc, struct{ io.Reader }{bytes.NewReader(pt)})
	case 2, 3, 4:
		cuts := [][]int{{5}, {65536}, {100, 65536}}[style-2]
		rest := pt
		for _, c := range cuts {
			if c > len(rest) {
				c = len(rest)
			}
			if _, o.Err = wc.Write(rest[:c]); o.Err != nil {
				break
			}
			rest = rest[c:]
		}
		if o.Err == nil {
			_, o.Err = wc.Write(rest)
		}
	default:
		_, o.Err = wc.Write(pt)
	}
	if o.Err != nil {
		return o
	}
	if o.Err = wc.Close(); o.Err != nil {
		return o
	}
	if aw != nil {
		o.Err = aw.Close()
	}
	o.Out = buf.Bytes()
	return o
}

// alignDraws binds the recorded draws to the plan; an optional 1-byte draw before an OAEP seed is skipped.
func alignDraws(plan []planEntry, draws [][]byte) ([][]byte, error) {
	var out [][]byte
	i := 0
	for n, p := range plan {
		if i >= len(draws) {
			return nil, fmt.Errorf("draw #%d (%s) of the plan is missing: only %d draws were made", n+1, p.Role, len(draws))
		}
		if p.Role == "oaepseed" && len(draws[i]) == 1 {
			i++
			if i >= len(draws) {
				return nil, fmt.Errorf("draw #%d (%s) missing", n+1, p.Role)
			}
		}
		if len(draws[i]) != p.Size {
			return nil, fmt.Errorf("draw #%d should be the %s (%d bytes) but %d bytes were drawn; sizes drawn: %v", n+1, p.Role, p.Size, len(draws[i]), sizes(draws))
		}
		out = append(out, draws[i])
		i++
	}
	if i != len(draws) {
		return nil, fmt.Errorf("%d draws beyond the plan; sizes drawn: %v", len(draws)-i, sizes(draws))
	}
	return out, nil
}

func sizes(d [][]byte) []int {
	o := make([]int, len(d))
	for i := range d {
		o[i] = len(d[i])
	}
	return o
}

func binaryOf(out []byte, armored bool) []byte {
	if !armored {
		return out
	}
	b, _ := io.ReadAll(armor.NewReader(bytes.NewReader(out)))
	return b
}

func envFor(w *world.World, rs []rcp) *eval.Env {
	e := eval.NewEnv()
	for _, r := range rs {
		w.Bind(e, r.ID)
	}
	return e
}

// ReferenceDecrypt decrypts a binary age file with the reading-side terms only (no library code).
func ReferenceDecrypt(t *Terms, w *world.World, file []byte, idKey string) ([]byte, error) {
	const intro = "age-encryption.org/v1\n"
	if !bytes.HasPrefix(file, []byte(intro)) {
		return nil, errors.New("reference decoder: bad intro")
	}
	pos := len(intro)
	type st struct {
		typ  string
		args []string
		body []byte
	}
	var stanzas []st
	for {
		nl := bytes.IndexByte(file[pos:], '\n')
		if nl < 0 {
			return nil, errors.New("reference decoder: truncated header")
		}
		line := string(file[pos : pos+nl])
		if strings.HasPrefix(line, "---") {
			break
		}
		if !strings.HasPrefix(line, "-> ") {
			return nil, errors.New("reference decoder: bad stanza line")
		}
		parts := strings.Split(line[3:], " ")
		pos += nl + 1
		s := st{typ: parts[0], args: parts[1:]}
		for {
			nl := bytes.IndexByte(file[pos:], '\n')
			if nl < 0 {
				return nil, errors.New("reference decoder: truncated body")
			}
			b, err := base64.RawStdEncoding.Strict().DecodeString(string(file[pos : pos+nl]))
			if err != nil {
				return nil, err
			}
			pos += nl + 1
			s.body = append(s.body, b...)
			if len(b) < 48 {
				break
			}
		}
		stanzas = append(stanzas, s)
	}
	hdrNoMac := file[:pos+3]
	nl := bytes.IndexByte(file[pos:], '\n')
	macLine := string(file[pos : pos+nl])
	if !strings.HasPrefix(macLine, "--- ") {
		return nil, errors.New("reference decoder: bad footer")
	}
	mac, err := base64.RawStdEncoding.Strict().DecodeString(macLine[4:])
	if err != nil {
		return nil, err
	}
	rest := file[pos+nl+1:]
	if len(rest) < 16 {
		return nil, errors.New("reference decoder: no nonce")
	}
	e := eval.NewEnv()
	w.Bind(e, idKey)
	var fk []byte
	want := world.Type(idKey)
	for _, s := range stanzas {
		if s.typ != want {
			continue
		}
		dec := func(a string) []byte { b, _ := base64.RawStdEncoding.Strict().DecodeString(a); return b }
		e.B["body"] = s.body
		var term json.RawMessage
		switch want {
		case "X25519":
			e.B["sec"], e.B["arg1"] = e.B["sec:"+idKey], dec(s.args[0])
			term = t.Reading["x25519"]
		case "scrypt":
			e.B["pw"], e.B["arg1"], e.B["logN"] = e.B["pw:"+idKey], dec(s.args[0]), []byte(s.args[1])
			term = t.Reading["scrypt"]
		case "ssh-ed25519":
			e.B["wire"] = e.B["wire:"+idKey]
			tag, err := e.Eval(t.Reading["sshtag"])
			if err != nil || string(tag) != s.args[0] {
				continue
			}
			e.B["sec"], e.B["arg2"] = e.B["sec:"+idKey], dec(s.args[1])
			term = t.Reading["sshed25519"]
		case "ssh-rsa":
			e.B["wire"] = e.B["wire:"+idKey]
			tag, err := e.Eval(t.Reading["sshtag"])
			if err != nil || string(tag) != s.args[0] {
				continue
			}
			e.RSAPriv["rsapriv"] = e.RSAPriv["rsapriv:"+idKey]
			term = t.Reading["sshrsa"]
		}
		k, err := e.Eval(term)
		if err == nil && len(k) == 16 {
			fk = k
			break
		}
	}
	if fk == nil {
		return nil, errors.New("reference decoder: no stanza opens with " + idKey)
	}
	e.B["fk"], e.B["hdrnomac"], e.B["nonce"], e.B["payload"] = fk, hdrNoMac, rest[:16], rest[16:]
	m, err := e.Eval(t.Reading["mac"])
	if err != nil || !bytes.Equal(m, mac) {
		return nil, errors.New("reference decoder: header MAC mismatch")
	}
	return e.Eval(t.Reading["plaintext"])
}

var ptLens = []int{0, 1, 65535, 65536, 65537, 131072, 200000}

// checkEncrypt: one library encryption observed on the tape, compared with the evaluated term (C05) and its draws
// with the plan (C06). which selects the predicates that produce verdicts.
func checkEncrypt(run *vk.Run, t *Terms, w *world.World, c *termCase, n int, armored bool, pt []byte, which string, seenDraws map[string]string) {
	checkEncryptWith(run, t, w, c, nil, n, armored, pt, which, seenDraws)
}

func checkEncryptWith(run *vk.Run, t *Terms, w *world.World, c *termCase, recips []age.Recipient, n int, armored bool, pt []byte, which string, seenDraws map[string]string) {
	var o Observation
	if recips == nil {
		o = encryptObserved(w, c.Rs, pt[:n], armored)
	} else {
		o = encryptObservedWith(recips, pt[:n], armored, writeStyle(n))
	}
	run.Eval(1)
	sig := fmt.Sprintf("rs=%s/n=%d/armor=%v", rsSig(c.Rs), n, armored)
	rp := map[string]interface{}{"check": which + ".encrypt", "rs": c.Rs, "n": n, "armored": armored}
	if o.Err != nil {
		run.Violation(which+":encrypt-failed:"+sig, o.Err.Error(), rp)
		return
	}
	draws, err := alignDraws(c.Plan, o.Draws)
	if err != nil {
		if which == "C06" {
			// the CSPRNG was not read in the planned pieces. That alone is not a violation (a refactoring may read its
			// randomness differently); what C06 requires is decided directly: every secret that ends up in the file is a
			// slice of what this Encrypt call drew from the CSPRNG, and no two of them share bytes.
			if role, why := provenance(w, c, o, binaryOf(o.Out, armored)); role != "" {
				run.Violation("C06:secret-not-from-csprng:"+role+":"+rsSig(c.Rs), fmt.Sprintf("recipients [%s], CSPRNG read in pieces %v (%v): %s", rsSig(c.Rs), sizes(o.Draws), err, why), rp)
			} else {
				run.Drift("draw plan differs for %s (%v); every secret of the file is a distinct slice of the call's CSPRNG output", rsSig(c.Rs), err)
			}
		} else {
			run.Drift("draw plan differs for %s: %v", rsSig(c.Rs), err)
		}
		return
	}
	if which == "C06" {
		for i, d := range draws {
			key := hex.EncodeToString(d)
			role := fmt.Sprintf("%s#%d of [%s]", c.Plan[i].Role, c.Plan[i].Rcp, rsSig(c.Rs))
			if bytes.Equal(d, make([]byte, len(d))) {
				run.Violation("C06:constant-draw:"+c.Plan[i].Role, role+" is all zero", rp)
			}
			if prev, ok := seenDraws[key]; ok {
				run.Violation("C06:draw-reused:"+c.Plan[i].Role, fmt.Sprintf("the value drawn as %s was drawn before as %s", role, prev), rp)
			}
			seenDraws[key] = role
		}
	}
	e := envFor(w, c.Rs)
	for i, d := range draws {
		e.B["draw"+strconv.Itoa(i+1)] = d
	}
	e.B["plaintext"] = pt[:n]
	bin := binaryOf(o.Out, armored)
	if hdr, _, err := format.Parse(bytes.NewReader(bin)); err == nil {
		for _, s := range hdr.Recipients {
			if s.Type == "ssh-rsa" {
				e.OaepBodies = append(e.OaepBodies, s.Body)
			}
		}
	} else {
		run.Violation(which+":own-output-does-not-parse:"+rsSig(c.Rs), fmt.Sprintf("recipients [%s], %d-byte plaintext: the header the library has just written is refused by its own parser: %v", rsSig(c.Rs), n, err), rp)
		return
	}
	term := c.File
	if armored {
		term = c.Armored
	}
	want, err := e.Eval(term)
	if err != nil {
		if strings.Contains(err.Error(), "ssh-rsa body") {
			run.Violation(which+":ssh-rsa-body:"+rsSig(c.Rs), err.Error(), rp)
			return
		}
		vk.Infra("evaluating the format term for %s: %v", sig, err)
	}
	if !bytes.Equal(want, o.Out) {
		d := 0
		for d < len(want) && d < len(o.Out) && want[d] == o.Out[d] {
			d++
		}
		detail := fmt.Sprintf("recipients [%s], %d-byte plaintext, armor=%v: the library wrote %d bytes, the age v1 definition evaluated on the same random values gives %d bytes; first difference at byte %d", rsSig(c.Rs), n, armored, len(o.Out), len(want), d)
		if which == "C05" {
			run.Violation("C05:not-byte-exact:"+fmt.Sprintf("rs=%s/armor=%v", rsSig(c.Rs), armored), detail, rp)
		} else {
			// C06: the nonce, shares, salts in the file are not the values drawn for them (or the format changed: C05 decides)
			run.Violation("C06:file-not-made-of-its-draws:"+rsSig(c.Rs), detail, rp)
		}
		return
	}
	if which == "C05" {
		for _, r := range c.Rs {
			got, err := ReferenceDecrypt(t, w, bin, r.ID)
			run.Eval(1)
			if err != nil || !bytes.Equal(got, pt[:n]) {
				run.Violation("C05:reference-cannot-decrypt:"+sig, fmt.Sprintf("the reference decoder with %s: %v", r.ID, err), rp)
				return
			}
		}
	}
}

// provenance: with the draws of one Encrypt call concatenated into a tape, the payload nonce, the file key, every
// X25519 / ssh-ed25519 ephemeral secret and every scrypt salt of the file must each be a contiguous slice of the tape,
// pairwise disjoint. Returns the role that fails ("" if none) and why.
func provenance(w *world.World, c *termCase, o Observation, bin []byte) (string, string) {
	var tape []byte
	for _, d := range o.Draws {
		tape = append(tape, d...)
	}
	hdr, payload, err := format.Parse(bytes.NewReader(bin))
	if err != nil {
		return "header", "the library's own output does not parse: " + err.Error()
	}
	type span struct {
		role   string
		lo, hi int
	}
	var spans []span
	find := func(role string, v []byte) bool {
		i := bytes.Index(tape, v)
		if i < 0 {
			return false
		}
		spans = append(spans, span{role, i, i + len(v)})
		return true
	}
	nonce := make([]byte, 16)
	if _, err := io.ReadFull(payload, nonce); err != nil {
		return "nonce", "no payload nonce in the output"
	}
	if !find("nonce", nonce) {
		return "nonce", fmt.Sprintf("the payload nonce %x is not among the %d bytes this call drew from the CSPRNG", nonce, len(tape))
	}
	var stz []*age.Stanza
	for _, s := range hdr.Recipients {
		stz = append(stz, (*age.Stanza)(s))
	}
	for _, r := range c.Rs {
		if fk, err := w.Identity(r.ID).Unwrap(stz); err == nil {
			if !find("filekey", fk) {
				return "filekey", "the file key is not among the bytes this call drew from the CSPRNG"
			}
			break
		}
	}
	for si, s := range hdr.Recipients {
		role := fmt.Sprintf("%s#%d", s.Type, si+1)
		switch s.Type {
		case "scrypt":
			if len(s.Args) < 1 {
				continue
			}
			salt, err := base64.RawStdEncoding.DecodeString(s.Args[0])
			if err != nil || !find(role+".salt", salt) {
				return "salt", "the scrypt salt of stanza " + role + " is not among the bytes this call drew from the CSPRNG"
			}
		case "X25519", "ssh-ed25519":
			share, err := base64.RawStdEncoding.DecodeString(s.Args[len(s.Args)-1])
			if err != nil || len(share) != 32 {
				continue
			}
			found := false
			for i := 0; i+32 <= len(tape) && !found; i++ {
				if pub, err := curve25519.X25519(tape[i:i+32], curve25519.Basepoint); err == nil && bytes.Equal(pub, share) {
					spans = append(spans, span{role + ".ephemeral", i, i + 32})
					found = true
				}
			}
			if !found {
				return "ephemeral", "the ephemeral share of stanza " + role + " does not come from 32 bytes this call drew from the CSPRNG"
			}
		}
	}
	for i := range spans {
		for j := i + 1; j < len(spans); j++ {
			if spans[i].lo < spans[j].hi && spans[j].lo < spans[i].hi {
				return "overlap", fmt.Sprintf("%s and %s share CSPRNG bytes", spans[i].role, spans[j].role)
			}
		}
	}
	return "", ""
}

// appending wraps a recipient and, like a sloppy but legal implementation, appends to the file-key slice it is handed
// before using it: whatever lies behind that slice in the caller's memory must not be part of the file.
type appending struct{ r age.Recipient }

func (a appending) Wrap(fileKey []byte) ([]*age.Stanza, error) {
	_ = append(fileKey, []byte("key-commitment/1")...)
	return a.r.Wrap(fileKey[:len(fileKey):len(fileKey)])
}

func loadRSA(w *world.World) { loadRSAFile(w, "rsa_r1.pem") }

// loadRSAFile installs a frozen RSA key of the corpus directory as key r1 of the world.
func loadRSAFile(w *world.World, name string) {
	b, err := os.ReadFile(filepath.Join(vk.VerifRoot(), "corpus", name))
	if err != nil {
		vk.Infra("corpus RSA key: %v", err)
	}
	blk, _ := pem.Decode(b)
	k, err := x509.ParsePKCS1PrivateKey(blk.Bytes)
	if err != nil {
		vk.Infra("corpus RSA key: %v", err)
	}
	w.RKey["r1"] = k
}

// CorpusWorld is the fixed world the frozen corpus was made in.
func CorpusWorld() *world.World {
	w := world.New(424242)
	for _, k := range []string{"x1", "x2", "e1", "e2", "s1"} {
		w.Identity(k)
	}
	loadRSA(w)
	return w
}

type corpusEntry struct {
	Name    string `json:"name"`
	Rs      []rcp  `json:"rs"`
	N       int    `json:"n"`
	Armored bool   `json:"armored"`
	Seed    int64  `json:"seed"`
	SHA256  string `json:"sha256"`
	Inline  bool   `json:"inline"`
}

// makeFile builds a file with the evaluator from explicit draws (independent encoder).
func makeFile(t *Terms, w *world.World, c *termCase, n int, armored bool, seed int64) ([]byte, []byte, error) {
	rng := rand.New(rand.NewSource(seed))
	e := envFor(w, c.Rs)
	for i, p := range c.Plan {
		d := make([]byte, p.Size)
		rng.Read(d)
		e.B["draw"+strconv.Itoa(i+1)] = d
	}
	pt := make([]byte, n)
	rng.Read(pt)
	e.B["plaintext"] = pt
	// ssh-rsa bodies: made with the real OAEP under the specified label by the evaluator's own encoder
	for _, r := range c.Rs {
		if r.K == "R" {
			k := e.RSAPub["rsapub:"+r.ID]
			body, err := rsa.EncryptOAEP(sha256.New(), rng, k, e.B["draw1"], []byte("age-encryption.org/v1/ssh-rsa"))
			if err != nil {
				return nil, nil, err
			}
			e.OaepBodies = append(e.OaepBodies, body)
		}
	}
	term := c.File
	if armored {
		term = c.Armored
	}
	b, err := e.Eval(term)
	return b, pt, err
}

func findCase(t *Terms, rs []rcp) *termCase {
	for i := range t.Cases {
		if rsSig(t.Cases[i].Rs) == rsSig(rs) {
			return &t.Cases[i]
		}
	}
	return nil
}

var libDecryptCalls int64

// libDecrypt decrypts with the library, reading the plaintext in one of several caller styles (the result must not
// depend on it): io.ReadAll, io.Copy, a short Read followed by io.Copy, small reads.
func libDecrypt(w *world.World, file []byte, armored bool, id string) ([]byte, error) {
	pols := strm.BulkPolicies
	return libDecryptWith(w, file, armored, id, pols[int(atomic.AddInt64(&libDecryptCalls, 1))%len(pols)])
}

func libDecryptWith(w *world.World, file []byte, armored bool, id string, pol string) ([]byte, error) {
	var in io.Reader = bytes.NewReader(file)
	if armored {
		in = armor.NewReader(in)
	}
	r, err := age.Decrypt(in, w.Identity(id))
	if err != nil {
		return nil, err
	}
	res := strm.Drain(r, pol)
	if res.Panic != nil {
		return res.Data, fmt.Errorf("panic: %v", res.Panic)
	}
	if res.Err != io.EOF {
		return res.Data, res.Err
	}
	return res.Data, nil
}

// GenCorpus writes the frozen corpus (run once; the result is committed).
func GenCorpus() {
	run := vk.NewRun("C05", "quick", "model_checking")
	dir := filepath.Join(vk.VerifRoot(), "corpus")
	if _, err := os.Stat(filepath.Join(dir, "rsa_r1.pem")); err != nil {
		k, _ := rsa.GenerateKey(cryptoRand(), 2048)
		os.WriteFile(filepath.Join(dir, "rsa_r1.pem"), pem.EncodeToMemory(&pem.Block{Type: "RSA PRIVATE KEY", Bytes: x509.MarshalPKCS1PrivateKey(k)}), 0o644)
	}
	t := LoadTerms(run, 2, 5)
	w := CorpusWorld()
	var idx []corpusEntry
	lists := [][]rcp{{{K: "X", ID: "x1"}}, {{K: "E", ID: "e1"}}, {{K: "R", ID: "r1"}}, {{K: "S", ID: "s1", WF: 5}}, {{K: "X", ID: "x1"}, {K: "E", ID: "e1"}}, {{K: "R", ID: "r1"}, {K: "X", ID: "x2"}}}
	seed := int64(1000)
	for _, rs := range lists {
		c := findCase(t, rs)
		if c == nil {
			vk.Infra("no term for %v", rs)
		}
		for _, n := range []int{0, 1, 65535, 65536, 65537, 131072} {
			for _, a := range []bool{false, true} {
				seed++
				b, _, err := makeFile(t, w, c, n, a, seed)
				if err != nil {
					vk.Infra("%v", err)
				}
				h := sha256.Sum256(b)
				name := fmt.Sprintf("%s_%d_%v", strings.ReplaceAll(rsSig(rs), ",", "+"), n, a)
				e := corpusEntry{Name: name, Rs: rs, N: n, Armored: a, Seed: seed, SHA256: hex.EncodeToString(h[:]), Inline: len(b) <= 2048}
				if e.Inline {
					os.WriteFile(filepath.Join(dir, name+".age"), b, 0o644)
				}
				idx = append(idx, e)
			}
		}
	}
	b, _ := json.MarshalIndent(idx, "", " ")
	os.WriteFile(filepath.Join(dir, "index.json"), b, 0o644)
	fmt.Println("corpus entries:", len(idx))
}

func corpus(run *vk.Run, t *Terms) {
	dir := filepath.Join(vk.VerifRoot(), "corpus")
	b, err := os.ReadFile(filepath.Join(dir, "index.json"))
	if err != nil {
		vk.Infra("corpus index: %v", err)
	}
	var idx []corpusEntry
	if err := json.Unmarshal(b, &idx); err != nil {
		vk.Infra("%v", err)
	}
	w := CorpusWorld()
	vk.Parallel(len(idx), 8, func(i int) {
		e := idx[i]
		c := findCase(t, e.Rs)
		if c == nil {
			vk.Infra("no term for corpus entry %s", e.Name)
		}
		var file []byte
		if e.Inline {
			file, err = os.ReadFile(filepath.Join(dir, e.Name+".age"))
			if err != nil {
				vk.Infra("%v", err)
			}
		}
		regen, pt, err := makeFile(t, w, c, e.N, e.Armored, e.Seed)
		if err != nil {
			vk.Infra("corpus regeneration: %v", err)
		}
		if !e.Inline {
			// ssh-rsa files are not reproducible byte for byte (OAEP randomness comes from a seeded stream: it is)
			file = regen
		}
		h := sha256.Sum256(file)
		hasRSA := false
		for _, r := range e.Rs {
			if r.K == "R" {
				hasRSA = true
			}
		}
		if hex.EncodeToString(h[:]) != e.SHA256 && !hasRSA {
			vk.Infra("corpus file %s does not match its recorded hash (the evaluator or the specification changed)", e.Name)
		}
		for ri, r := range e.Rs {
			// the files whose last chunk is full are read in every caller style (the end of such a file is found by
			// trial decryption: what the reader does with the caller's buffer matters there), the others in one
			pols := []string{strm.BulkPolicies[(i+ri)%len(strm.BulkPolicies)]}
			if e.N > 0 && e.N%65536 == 0 && ri == 0 {
				pols = strm.BulkPolicies
			}
			for _, pol := range pols {
				got, err := libDecryptWith(w, file, e.Armored, r.ID, pol)
				run.Eval(1)
				if err != nil || !bytes.Equal(got, pt) {
					run.Violation("C05:corpus-file-does-not-decrypt:"+e.Name, fmt.Sprintf("frozen corpus file %s (recipients %s, %d bytes, armor=%v) with identity %s, read as %q: %d bytes, %v", e.Name, rsSig(e.Rs), e.N, e.Armored, r.ID, pol, len(got), err), map[string]interface{}{"check": "C05.corpus", "name": e.Name, "read": pol})
					break
				}
			}
		}
		run.Distinct("corpus:" + e.Name)
	})
	run.Add("corpus_files", len(idx))
}

// RunC05 is the C05 check.
func RunC05(tier string) {
	run := vk.NewRun("C05", tier, "model_checking")
	run.Rule("TLC prints the age v1 file as a term (AgeFormat.tla) for every recipient list over X25519 x2, ssh-ed25519 x2, ssh-rsa, and scrypt alone, up to MaxRecips; a generic evaluator that knows only the primitives turns the term plus the recorded CSPRNG draws into bytes, compared byte for byte with what age.Encrypt wrote (ssh-rsa bodies opened instead), at all chunk-boundary plaintext lengths, binary and armored; the reading-side terms decrypt every library file; the frozen corpus (72 evaluator-made files, all types, armored/binary, boundary sizes), fresh evaluator-made files, testdata/example.age and the successful CCTV vectors must decrypt with the library. Distinct = (recipient list, length, armor).")
	run.Assume("primitives (x/crypto, crypto/*, edwards25519) are shared by library and evaluator: a primitive bug is out of scope; AgeFormat.tla is this project's reading of age v1, anchored by the CCTV vectors")
	t := LoadTerms(run, run.Pick(2, 3), 5)
	w := world.New(run.Seed)
	pt := make([]byte, 200001)
	rand.New(rand.NewSource(run.Seed)).Read(pt)
	for _, k := range []string{"x1", "x2", "e1", "e2", "r1", "s1"} {
		w.Identity(k)
	}
	for i := range t.Cases {
		c := &t.Cases[i]
		lens := []int{ptLens[(i+int(run.Seed))%len(ptLens)], 0}
		if run.Thorough() || len(c.Rs) == 1 {
			lens = ptLens
		}
		for li, n := range lens {
			checkEncrypt(run, t, w, c, n, (i+li)%2 == 1, pt, "C05", nil)
			run.Distinct(fmt.Sprintf("enc:%s:%d", rsSig(c.Rs), n))
		}
	}
	// the counter's first byte carry is part of the byte comparison
	big := make([]byte, 257*65536+5)
	rand.New(rand.NewSource(run.Seed + 1)).Read(big)
	checkEncrypt(run, t, w, findCase(t, []rcp{{K: "X", ID: "x1"}}), len(big), false, big, "C05", nil)
	run.Distinct("enc:x1:257chunks")
	// through the armor the binary length takes every residue mod 48 (the footer rule differs at 0, 46, 47)
	if xc := findCase(t, []rcp{{K: "X", ID: "x1"}}); xc != nil {
		for n := 0; n < 50; n++ {
			checkEncrypt(run, t, w, xc, n, true, pt, "C05", nil)
			run.Distinct(fmt.Sprintf("enc-armor-align:%d", n))
		}
	}
	run.Add("recipient_lists", len(t.Cases))
	run.Sample(map[string]interface{}{"recipients": rsSig(t.Cases[len(t.Cases)/2].Rs), "plan": t.Cases[len(t.Cases)/2].Plan})
	corpus(run, t)
	fresh(run, t, w)
	external(run)
	run.Finish()
}

// fresh: files written by the independent implementation decrypt with the library.
func fresh(run *vk.Run, t *Terms, w *world.World) {
	n := 0
	for i := range t.Cases {
		c := &t.Cases[i]
		for li, ln := range []int{0, 1, 65536, 65537, 131073} {
			if !run.Thorough() && (i+li)%3 != 0 {
				continue
			}
			armored := (i+li)%2 == 0
			file, pt, err := makeFile(t, w, c, ln, armored, run.Seed*1000+int64(i*10+li))
			if err != nil {
				vk.Infra("reference encoder: %v", err)
			}
			for _, r := range c.Rs {
				got, err := libDecrypt(w, file, armored, r.ID)
				run.Eval(1)
				if err != nil || !bytes.Equal(got, pt) {
					run.Violation(fmt.Sprintf("C05:reference-file-does-not-decrypt:rs=%s/armor=%v", rsSig(c.Rs), armored), fmt.Sprintf("a file written by the reference encoder (recipients %s, %d bytes, armor=%v) does not decrypt with %s: %v", rsSig(c.Rs), ln, armored, r.ID, err), nil)
				}
				if r.K == "S" {
					// a passphrase file keeps decrypting with an identity whose maximum is exactly the file's work factor
					id, _ := age.NewScryptIdentity(w.Pw[r.ID])
					id.SetMaxWorkFactor(r.WF)
					var in io.Reader = bytes.NewReader(file)
					if armored {
						in = armor.NewReader(in)
					}
					var got []byte
					rd, err := age.Decrypt(in, id)
					if err == nil {
						got, err = io.ReadAll(rd)
					}
					run.Eval(1)
					if err != nil || !bytes.Equal(got, pt) {
						run.Violation(fmt.Sprintf("C05:reference-file-does-not-decrypt:scrypt-at-maximum:wf=%d", r.WF), fmt.Sprintf("a passphrase file with work factor %d does not decrypt with an identity whose maximum work factor is %d: %v", r.WF, r.WF, err), nil)
					}
				}
			}
			run.Distinct(fmt.Sprintf("fresh:%s:%d", rsSig(c.Rs), ln))
			n++
		}
	}
	run.Add("reference_encoder_files", n)
	// the same with a 4096-bit RSA key as r1: its stanza body is 512 bytes, eleven body lines (a frozen key: generating
	// one costs seconds). Evaluator-made files must decrypt, and what the library writes must decrypt and be byte-exact.
	w4 := world.New(run.Seed + 4096)
	for _, k := range []string{"x1", "x2", "e1", "e2", "s1"} {
		w4.Identity(k)
	}
	loadRSAFile(w4, "rsa_r1_4096.pem")
	m := 0
	for i := range t.Cases {
		c := &t.Cases[i]
		has := false
		for _, r := range c.Rs {
			has = has || r.ID == "r1"
		}
		if !has {
			continue
		}
		for li, ln := range []int{0, 65537} {
			armored := (i+li)%2 == 0
			file, pt, err := makeFile(t, w4, c, ln, armored, run.Seed*2000+int64(i*10+li))
			if err != nil {
				vk.Infra("reference encoder (RSA 4096): %v", err)
			}
			for _, r := range c.Rs {
				got, err := libDecrypt(w4, file, armored, r.ID)
				run.Eval(1)
				if err != nil || !bytes.Equal(got, pt) {
					run.Violation(fmt.Sprintf("C05:reference-file-does-not-decrypt:rsa4096:rs=%s/armor=%v", rsSig(c.Rs), armored), fmt.Sprintf("a file written by the reference encoder for a 4096-bit ssh-rsa key (recipients %s, %d bytes) does not decrypt with %s: %v", rsSig(c.Rs), ln, r.ID, err), nil)
				}
			}
			checkEncrypt(run, t, w4, c, ln, armored, pt, "C05", map[string]string{})
			run.Distinct(fmt.Sprintf("fresh4096:%s:%d", rsSig(c.Rs), ln))
			m++
		}
	}
	run.Add("reference_encoder_files_rsa4096", m)
}

// external anchors: the repository's example file and the CCTV vectors that expect success.
func external(run *vk.Run) {
	n := 0
	for _, v := range vectors.All() {
		if v.Expect != "success" {
			continue
		}
		var ids []age.Identity
		for _, s := range v.Identities {
			if i, err := age.ParseX25519Identity(s); err == nil {
				ids = append(ids, i)
			}
		}
		for _, p := range v.Passphrases {
			if i, err := age.NewScryptIdentity(p); err == nil {
				ids = append(ids, i)
			}
		}
		var in io.Reader = bytes.NewReader(v.File)
		if v.Armored {
			in = armor.NewReader(in)
		}
		r, err := age.Decrypt(in, ids...)
		var got []byte
		if err == nil {
			got, err = io.ReadAll(r)
		}
		run.Eval(1)
		h := sha256.Sum256(got)
		if err != nil || (v.PayloadHash != "" && hex.EncodeToString(h[:]) != v.PayloadHash) {
			run.Violation("C05:vector-does-not-decrypt:"+v.Name, fmt.Sprintf("CCTV vector %s: %v", v.Name, err), nil)
		}
		run.Distinct("vector:" + v.Name)
		n++
	}
	run.Add("external_vectors", n)
}

// RunC06 is the C06 check: fresh CSPRNG secrets per file; no key and nonce pair is reused.
func RunC06(tier string) {
	run := vk.NewRun("C06", tier, "model_checking")
	run.Rule("TLC checks RoleSeparation on the draw plan of every recipient list (AgeFormatGen.tla) and NoNonceReuse/FrameShape on the STREAM writer machine (StreamMC.tla: counters 0,1,2,... with the final flag on the last frame only). Histories of 2-4 age.Encrypt calls in one process, re-using the same recipient objects, run under a recording pass-through tape on crypto/rand.Reader: the sequence of draw sizes must be the plan's, no drawn value may repeat in any role, stanza or file, and the file must be byte for byte the term evaluated on those draws (so nonce, shares, salts and the wrapped file key are the drawn values and every chunk is sealed under counter||flag), including a 258-chunk payload for the counter carry. Static guard: non-test importers of math/rand. Distinct = (history, position).")
	run.Assume("crypto/rand.Reader is what the library reads its randomness from (a direct getrandom call would bypass the tape and show up as a draw-plan mismatch)")
	winv := "HoldbackW FrameShapeW SuccessMeansCompleteW"
	cfg := fmt.Sprintf("SPECIFICATION Spec\nCONSTANTS\n C = 2\n T = 1\n KeepHist = FALSE\n Mode = \"writer\"\n MaxL = 0\n ReadSizes = {}\n WriteSizes = {0, 1, 2, 3, 4, 5}\n MaxWrites = %d\n Faults = FALSE\n ProbeIgnoresN = FALSE\nINVARIANTS %s\nVIEW view\nCHECK_DEADLOCK FALSE\n", run.Pick(5, 6), winv)
	run.SpecMustHold("writer-frame-nonces", vk.TLCOpts{Module: "StreamMC", Config: cfg, Workers: 16})
	t := LoadTerms(run, run.Pick(2, 3), 5)
	w := world.New(run.Seed)
	pt := make([]byte, 258*65536+3)
	rng := rand.New(rand.NewSource(run.Seed))
	rng.Read(pt)
	for _, k := range []string{"x1", "x2", "e1", "e2", "r1", "s1"} {
		w.Identity(k)
	}
	nh := 0
	for i := range t.Cases {
		c := &t.Cases[i]
		sameKind := true
		for _, r := range c.Rs {
			if r.K != c.Rs[0].K {
				sameKind = false
			}
		}
		if !run.Thorough() && len(c.Rs) > 1 && !sameKind && (i+int(run.Seed))%3 != 0 {
			continue // lists of one kind (two native recipients, the same recipient twice, ...) always run
		}
		// one history: the same recipient objects encrypt 2-4 files
		recips := buildRecipients(w, c.Rs)
		if i%4 == 1 && c.Rs[0].K != "S" && (len(c.Rs) == 1 || !sameKind) {
			recips[0] = appending{recips[0]} // same draws, same file; the recipient scribbles behind its argument
		}
		seen := map[string]string{}
		files := 2 + i%3
		for f := 0; f < files; f++ {
			n := []int{0, 1, 100, 65536, 65537, 131073}[(i+f)%6]
			checkEncryptWith(run, t, w, c, recips, n, (i+f)%4 == 0, pt, "C06", seen)
			run.Distinct(fmt.Sprintf("hist:%s:%d", rsSig(c.Rs), f))
		}
		nh++
	}
	// the chunk counter across its first carry
	seen := map[string]string{}
	checkEncryptWith(run, t, w, findCase(t, []rcp{{K: "X", ID: "x1"}}), nil, len(pt), false, pt, "C06", seen)
	run.Distinct("carry:258chunks")
	run.Add("histories", nh)
	run.Sample(map[string]interface{}{"recipients": rsSig(t.Cases[len(t.Cases)/3].Rs), "plan": t.Cases[len(t.Cases)/3].Plan})
	randFaultProvenance(run, t, w)
	shortReadProvenance(run, t, w)
	nonceReuseAfterWriteError(run, rng)
	closedWriterPlans(run, rng)
	repoSuiteTrace(run)
	if run.Thorough() {
		secondCarry(run, rng)
	}
	mathRandGuard(run)
	run.Finish()
}

// faultTape passes the system CSPRNG through, records what it delivered, and fails exactly once, at its n-th read.
type faultTape struct {
	inner io.Reader
	n     int
	calls int
	draws [][]byte
	Fired bool
}

func (f *faultTape) Read(p []byte) (int, error) {
	f.calls++
	if f.calls == f.n {
		f.Fired = true
		return 0, errors.New("injected CSPRNG failure")
	}
	n, err := f.inner.Read(p)
	f.draws = append(f.draws, append([]byte{}, p[:n]...))
	return n, err
}

// shortTape passes the system CSPRNG through k bytes at a time (an io.Reader may return fewer bytes than asked for) and
// records what it delivered.
type shortTape struct {
	inner io.Reader
	k     int
	draws [][]byte
}

func (s *shortTape) Read(p []byte) (int, error) {
	if len(p) > s.k {
		p = p[:s.k]
	}
	n, err := s.inner.Read(p)
	s.draws = append(s.draws, append([]byte{}, p[:n]...))
	return n, err
}

// shortReadProvenance: with a CSPRNG source that hands out one or three bytes per Read, every secret of the file is
// still made of CSPRNG output only (a caller that takes one short Read for a full draw leaves zeros in its secret).
func shortReadProvenance(run *vk.Run, t *Terms, w *world.World) {
	saved := crand.Reader
	defer func() { crand.Reader = saved }()
	for _, rs := range [][]rcp{{{K: "X", ID: "x1"}}, {{K: "E", ID: "e1"}}, {{K: "E", ID: "e1"}, {K: "X", ID: "x1"}}, {{K: "S", ID: "s1", WF: 5}}} {
		c := findCase(t, rs)
		if c == nil {
			continue
		}
		for _, k := range []int{1, 3} {
			st := &shortTape{inner: saved, k: k}
			var o Observation
			var buf bytes.Buffer
			var wc io.WriteCloser
			var pan interface{}
			func() {
				defer func() { pan = recover() }()
				crand.Reader = st
				defer func() { crand.Reader = saved }()
				wc, o.Err = age.Encrypt(&buf, buildRecipients(w, rs)...)
			}()
			run.Eval(1)
			sig := fmt.Sprintf("shortreads:%s/%d", rsSig(rs), k)
			run.Distinct(sig)
			if pan != nil || o.Err != nil {
				continue // refusing to work with such a source is fine
			}
			wc.Write([]byte("x"))
			wc.Close()
			o.Out, o.Draws = buf.Bytes(), st.draws
			if role, why := provenance(w, c, o, o.Out); role != "" {
				run.Violation("C06:secret-not-from-csprng:"+role+":"+sig, fmt.Sprintf("recipients [%s], CSPRNG delivering %d byte(s) per Read: %s", rsSig(rs), k, why), map[string]interface{}{"check": "C06.shortreads", "rs": rs, "k": k})
			}
		}
	}
}

// randFaultProvenance: the CSPRNG fails once, at each draw of an Encrypt call in turn. Either Encrypt reports the
// failure, or - if it carries on - every secret of the file it writes still comes from what the CSPRNG did deliver
// (a dropped error leaves a constant, e.g. all-zero, ephemeral secret or nonce behind).
func randFaultProvenance(run *vk.Run, t *Terms, w *world.World) {
	saved := crand.Reader
	defer func() { crand.Reader = saved }()
	for _, rs := range [][]rcp{{{K: "X", ID: "x1"}}, {{K: "X", ID: "x1"}, {K: "X", ID: "x2"}}, {{K: "E", ID: "e1"}}, {{K: "E", ID: "e1"}, {K: "X", ID: "x1"}}} {
		c := findCase(t, rs)
		if c == nil {
			continue
		}
		for k := 1; k <= len(c.Plan)+1; k++ {
			ft := &faultTape{inner: saved, n: k}
			var o Observation
			var buf bytes.Buffer
			var wc io.WriteCloser
			var pan interface{}
			func() {
				defer func() { pan = recover() }()
				crand.Reader = ft
				defer func() { crand.Reader = saved }()
				wc, o.Err = age.Encrypt(&buf, buildRecipients(w, rs)...)
			}()
			run.Eval(1)
			sig := fmt.Sprintf("randfault:%s/draw%d", rsSig(rs), k)
			run.Distinct(sig)
			if pan != nil || !ft.Fired || o.Err != nil {
				continue // reported (or this toolchain aborts on CSPRNG failure, or fewer draws): fine
			}
			wc.Write([]byte("x"))
			wc.Close()
			o.Out, o.Draws = buf.Bytes(), ft.draws
			if role, why := provenance(w, c, o, o.Out); role != "" {
				run.Violation("C06:secret-not-from-csprng:"+role+":"+sig, fmt.Sprintf("recipients [%s], CSPRNG failing once at draw %d: Encrypt reported success; %s", rsSig(rs), k, why), map[string]interface{}{"check": "C06.randfault", "rs": rs, "draw": k})
			}
		}
	}
}

// closedWriterPlans: histories of the writer machine that go on calling a writer after Close (StreamMC, mode
// "writer-postclose": every sequence of writes and closes up to MaxWrites calls), replayed on stream.Writer with a
// destination that keeps every frame. Whatever the caller does after Close, the frames handed to the destination are
// sealed under counters 0,1,2,... each used once, and the final flag is on one frame only, the last one.
func closedWriterPlans(run *vk.Run, rng *rand.Rand) {
	const C = 3
	cfg := fmt.Sprintf("SPECIFICATION Spec\nCONSTANTS\n C = %d\n T = 2\n KeepHist = TRUE\n Mode = \"writer-postclose\"\n MaxL = 0\n ReadSizes = {}\n WriteSizes = {0, 1, 3, 4, 7}\n MaxWrites = %d\n Faults = FALSE\n ProbeIgnoresN = FALSE\nINVARIANTS HoldbackW FrameShapeW SuccessMeansCompleteW EmitWriter\nCHECK_DEADLOCK FALSE\n", C, run.Pick(4, 5))
	res := run.SpecMustHold("closed-writer-plans", vk.TLCOpts{Module: "StreamMC", Config: cfg, Workers: 16})
	lines := res.PrintsWithPrefix("CASE ")
	type hrec struct {
		A string `json:"a"`
		N int    `json:"n"`
	}
	type pcase struct {
		Hist []hrec `json:"hist"`
	}
	key := make([]byte, 32)
	rng.Read(key)
	aead, _ := chacha20poly1305.New(key)
	unit := func(u int) int { return (u/C)*strm.Chunk + []int{0, 1, strm.Chunk - 1}[u%C] } // model units -> bytes, chunk edges kept
	data := make([]byte, 4*strm.Chunk)
	rng.Read(data)
	n := 0
	for _, l := range lines {
		var c pcase
		if err := json.Unmarshal([]byte(l), &c); err != nil {
			vk.Infra("bad CASE: %v", err)
		}
		post := false
		closedSeen := false
		for _, h := range c.Hist {
			if closedSeen {
				post = true
			}
			if h.A == "close" {
				closedSeen = true
			}
		}
		if !post {
			continue // histories ending at Close are replayed by C13's writer plans
		}
		d := &attemptDst{}
		w, err := stream.NewWriter(key, d)
		if err != nil {
			vk.Infra("%v", err)
		}
		var ops []string
		cum := 0
		for _, h := range c.Hist {
			if h.A == "close" {
				w.Close()
				ops = append(ops, "close")
			} else {
				nb := unit(cum+h.N) - unit(cum)
				cum += h.N
				w.Write(data[:nb]) // results deliberately ignored: the caller carries on whatever it is told
				ops = append(ops, fmt.Sprint(nb))
			}
		}
		run.Eval(1)
		n++
		sig := strings.Join(ops, ",")
		finals := 0
		for i, fr := range d.attempts {
			_, e0 := aead.Open(nil, strm.Nonce(i, false), fr, nil)
			_, e1 := aead.Open(nil, strm.Nonce(i, true), fr, nil)
			rp := map[string]interface{}{"check": "C06.postclose", "ops": ops, "frame": i}
			if e0 != nil && e1 != nil {
				run.Violation("C06:frame-not-under-its-counter:postclose:"+sig, fmt.Sprintf("calls %s: frame %d handed to the destination is not sealed under counter %d", sig, i, i), rp)
				break
			}
			if e1 == nil {
				finals++
				if i != len(d.attempts)-1 {
					run.Violation("C06:final-flag-not-last:postclose:"+sig, fmt.Sprintf("calls %s: frame %d of %d carries the final flag", sig, i+1, len(d.attempts)), rp)
					break
				}
			}
		}
		run.Distinct("postclose:" + sig)
	}
	run.Add("closed_writer_histories", n)
}

// attemptDst records every frame handed to it, also the ones it refuses.
type attemptDst struct {
	attempts [][]byte
	failAt   int
}

func (d *attemptDst) Write(p []byte) (int, error) {
	d.attempts = append(d.attempts, append([]byte{}, p...))
	if len(d.attempts) == d.failAt {
		return 0, errors.New("injected write failure")
	}
	return len(p), nil
}

// nonceReuseAfterWriteError: a caller that keeps writing after the destination failed once must not make the writer seal
// two different chunks under the same key and nonce (what reached the wire of the failed write may have been observed).
func nonceReuseAfterWriteError(run *vk.Run, rng *rand.Rand) {
	key := make([]byte, 32)
	rng.Read(key)
	aead, _ := chacha20poly1305.New(key)
	data := make([]byte, 70000)
	for failAt := 1; failAt <= 3; failAt++ {
		d := &attemptDst{failAt: failAt}
		w, err := stream.NewWriter(key, d)
		if err != nil {
			vk.Infra("%v", err)
		}
		for i := 0; i < 5; i++ {
			rng.Read(data)
			w.Write(data) // errors deliberately ignored: the caller carries on
		}
		w.Close()
		run.Eval(1)
		seen := map[string][]byte{}
		for _, a := range d.attempts {
			for ctr := 0; ctr < 12; ctr++ {
				for _, fin := range []bool{false, true} {
					if _, err := aead.Open(nil, strm.Nonce(ctr, fin), a, nil); err == nil {
						k := fmt.Sprintf("%d/%v", ctr, fin)
						if prev, ok := seen[k]; ok && !bytes.Equal(prev, a) {
							run.Violation("C06:nonce-reused-after-write-error", fmt.Sprintf("after the destination failed at write %d and the caller kept writing, two different chunks were sealed under counter %d (final=%v) of the same key", failAt, ctr, fin), map[string]interface{}{"check": "C06.failedflush", "failAt": failAt})
						}
						seen[k] = a
					}
				}
			}
		}
		run.Distinct(fmt.Sprintf("failed-flush:%d", failAt))
	}
}

// frameTap looks at frames as they stream by (no buffering of the 4 GiB payload).
type frameTap struct {
	aead    cipher.AEAD
	idx     int
	want    map[int]bool
	opened  map[int]bool
	buf     []byte
	skipped int64
}

func (t *frameTap) Write(p []byte) (int, error) {
	// stream.Writer hands over exactly one frame per Write
	if t.want[t.idx] {
		if _, err := t.aead.Open(nil, strm.Nonce(t.idx, false), p, nil); err == nil {
			t.opened[t.idx] = true
		}
	}
	t.idx++
	return len(p), nil
}

// secondCarry: 65 538 chunks (4 GiB) streamed through the writer; the frames around the counter's second byte carry must be
// sealed under the specified nonces (counter 65535, 65536, 65537 big-endian in 11 bytes).
func secondCarry(run *vk.Run, rng *rand.Rand) {
	key := make([]byte, 32)
	rng.Read(key)
	aead, _ := chacha20poly1305.New(key)
	tap := &frameTap{aead: aead, want: map[int]bool{255: true, 256: true, 65535: true, 65536: true, 65537: true}, opened: map[int]bool{}}
	w, _ := stream.NewWriter(key, tap)
	chunk := make([]byte, 65536)
	for i := 0; i < 65539; i++ {
		chunk[0] = byte(i)
		if _, err := w.Write(chunk); err != nil {
			vk.Infra("%v", err)
		}
	}
	w.Close()
	run.Eval(1)
	for i := range tap.want {
		if !tap.opened[i] {
			run.Violation("C06:chunk-nonce-after-carry", fmt.Sprintf("chunk %d of a 4 GiB payload is not sealed under counter %d of the age v1 nonce layout", i, i), map[string]interface{}{"check": "C06.carry2", "chunk": i})
		}
	}
	run.Distinct("second-carry")
}

// mathRandGuard: the only non-test file allowed to import math/rand is plugin/client.go (grease, not key material).
func mathRandGuard(run *vk.Run) {
	root := vk.RepoRoot()
	var offenders []string
	filepath.Walk(root, func(p string, info os.FileInfo, err error) error {
		if err != nil || info.IsDir() || !strings.HasSuffix(p, ".go") || strings.HasSuffix(p, "_test.go") || strings.Contains(p, "/.git/") {
			return nil
		}
		b, err := os.ReadFile(p)
		if err != nil {
			return nil
		}
		for _, line := range strings.Split(string(b), "\n") {
			l := strings.TrimSpace(line)
			if strings.Contains(l, `"math/rand"`) || strings.Contains(l, `"math/rand/v2"`) {
				rel, _ := filepath.Rel(root, p)
				if rel != "plugin/client.go" {
					offenders = append(offenders, rel)
				}
			}
		}
		return nil
	})
	run.Eval(1)
	for _, o := range offenders {
		run.Violation("C06:math-rand-imported:"+o, o+" imports math/rand: a non-cryptographic generator in a non-test source file other than plugin/client.go", nil)
	}
}

// repoSuiteTrace runs the repository's own test suite built with the verif tag and VERIF_TRACE set, so that every STREAM
// chunk sealed or opened and every scrypt derivation anywhere in `go test ./...` is logged, and validates the log against
// spec/HookTrace.tla: the tests already reach these paths, the specification adds the per-step assertions.
func repoSuiteTrace(run *vk.Run) {
	dir, err := os.MkdirTemp("", "c06trace-")
	if err != nil {
		vk.Infra("%v", err)
	}
	defer os.RemoveAll(dir)
	trace := filepath.Join(dir, "hooks.ndjson")
	cmd := exec.Command("go", "test", "-tags", "verif", "-vet=off", "-count=1", ".", "./internal/stream", "./agessh", "./armor", "./cmd/age")
	cmd.Dir = vk.RepoRoot()
	cmd.Env = append(os.Environ(), "GOFLAGS=-mod=mod", "GOPROXY=off", "GOSUMDB=off", "VERIF_TRACE="+trace)
	out, _ := cmd.CombinedOutput() // test failures are the suite's business; only the trace matters here
	b, err := os.ReadFile(trace)
	if err != nil || len(b) == 0 {
		if strings.Contains(string(out), "build failed") || strings.Contains(string(out), "cannot find") {
			vk.Infra("the repository's tests did not build with -tags verif:\n%s", string(out))
		}
		run.Drift("the repository's suite produced no hook trace (hooks without VERIF_TRACE support?)")
		return
	}
	// HookTrace.tla speaks about the STREAM and scrypt events only; the flow events (age.enc.*, age.dec.*) in the same
	// log are AgeFlowTrace's business (C01, C03, C04, C11)
	var kept []byte
	for _, line := range bytes.Split(b, []byte("\n")) {
		if bytes.Contains(line, []byte(`"ev":"stream.`)) || bytes.Contains(line, []byte(`"ev":"scrypt.`)) {
			kept = append(append(kept, line...), '\n')
		}
	}
	b = kept
	if err := os.WriteFile(trace, b, 0o644); err != nil {
		vk.Infra("%v", err)
	}
	nlines := bytes.Count(b, []byte("\n"))
	cfg := "SPECIFICATION Spec\nCONSTANTS\n C = 65536\n MaxLogN = 22\nCONSTRAINT HighWater\nPOSTCONDITION Accepted\nCHECK_DEADLOCK FALSE\n"
	res := run.TLC("repo-suite-hook-trace", vk.TLCOpts{Module: "HookTrace", Config: cfg, Workers: 1, Env: map[string]string{"TRACE": trace}})
	run.Traces(1)
	run.Add("repo_suite_hook_events", nlines)
	if acc := res.PrintsWithPrefix("ACCEPTED "); len(acc) == 1 {
		return
	}
	if rej := res.PrintsWithPrefix("REJECTED "); len(rej) == 1 {
		var at int
		fmt.Sscan(rej[0], &at)
		lines := bytes.Split(b, []byte("\n"))
		ev := ""
		if at >= 1 && at <= len(lines) {
			ev = string(lines[at-1])
		}
		run.Violation("C06:repo-suite-trace-rejected", fmt.Sprintf("while the repository's own tests ran, the library took a step HookTrace.tla does not allow at event %d: %s", at, ev), map[string]interface{}{"check": "C06.hooktrace", "event": ev})
		return
	}
	vk.Infra("HookTrace gave no verdict:\n%s", res.Output)
}
