package c05

import (
	"bytes"
	"encoding/base64"
	"fmt"
	"io"
	"strconv"

	"filippo.io/age"
	"filippo.io/age/internal/format"
	"filippo.io/age/xverif/internal/vk"
	"golang.org/x/crypto/chacha20poly1305"
	"golang.org/x/crypto/scrypt"
)

// passphraseBytes: the scrypt stanza is keyed by the passphrase's exact bytes (age v1: scrypt over the passphrase as
// given, salt "age-encryption.org/v1/scrypt" || salt). A passphrase that begins or ends with blanks, is only blanks,
// or is not valid UTF-8 is a passphrase like any other: the stanza of the written file is opened here by an independent
// derivation from the exact bytes, a reference stanza built from the exact bytes is opened by the library, and a
// neighbour that differs in the blanks only does not open it.
func passphraseBytes(run *vk.Run) {
	msg := []byte("the passphrase is used as given")
	label := []byte("age-encryption.org/v1/scrypt")
	pws := []string{"hunter2", " hunter2", "hunter2 ", "hunter2\n", "hunter2\r\n", "\thunter2\t", "two  words", " ", "\n", " hunter2 ", " x ", "hunter2\x00", "\xff\xfe", "Hunter2", "hunter2\v", "\ufeffhunter2"}
	for i, pw := range pws {
		sig := fmt.Sprintf("passphrase-bytes:%q", pw)
		r, err := age.NewScryptRecipient(pw)
		if err != nil {
			// (no file to look at; the identity side below is what "existing files keep decrypting" is about)
			run.Drift("passphrase bytes: NewScryptRecipient(%q) refused: %v", pw, err)
			if _, ierr := age.NewScryptIdentity(pw); ierr != nil {
				run.Violation("C05:reference-file-does-not-decrypt:"+sig, fmt.Sprintf("the non-empty passphrase %q is refused by NewScryptIdentity (%v): a file made with it can no longer be decrypted", pw, ierr), map[string]interface{}{"check": "C05.pwbytes", "passphrase": []byte(pw)})
			}
			continue
		}
		r.SetWorkFactor(3 + i%3)
		var buf bytes.Buffer
		w, err := age.Encrypt(&buf, r)
		if err != nil {
			vk.Infra("%v", err)
		}
		w.Write(msg)
		w.Close()
		run.Eval(1)
		hdr, _, err := format.Parse(bytes.NewReader(buf.Bytes()))
		if err != nil || len(hdr.Recipients) != 1 || hdr.Recipients[0].Type != "scrypt" || len(hdr.Recipients[0].Args) != 2 {
			run.Drift("passphrase bytes: own file does not parse as a one-stanza scrypt file: %v", err)
			continue
		}
		st := hdr.Recipients[0]
		salt, err1 := base64.RawStdEncoding.DecodeString(st.Args[0])
		logN, err2 := strconv.Atoi(st.Args[1])
		if err1 != nil || err2 != nil || logN > 10 {
			run.Drift("passphrase bytes: stanza arguments %v", st.Args)
			continue
		}
		open := func(p string) ([]byte, error) {
			k, err := scrypt.Key([]byte(p), append(append([]byte{}, label...), salt...), 1<<uint(logN), 8, 1, 32)
			if err != nil {
				return nil, err
			}
			a, _ := chacha20poly1305.New(k)
			return a.Open(nil, make([]byte, 12), st.Body, nil)
		}
		if fk, err := open(pw); err != nil || len(fk) != 16 {
			run.Violation("C05:passphrase-not-used-as-given:"+sig, fmt.Sprintf("the scrypt stanza written for passphrase %q is not opened by a key derived from those exact bytes (age v1 prescribes scrypt over the passphrase as given): %v", pw, err), map[string]interface{}{"check": "C05.pwbytes", "passphrase": []byte(pw)})
			continue
		}
		// the library opens it with the same passphrase
		id, err := age.NewScryptIdentity(pw)
		if err != nil {
			run.Violation("C05:reference-file-does-not-decrypt:"+sig, fmt.Sprintf("the non-empty passphrase %q is refused by NewScryptIdentity (%v): a file made with it can no longer be decrypted", pw, err), map[string]interface{}{"check": "C05.pwbytes", "passphrase": []byte(pw)})
			continue
		}
		id.SetMaxWorkFactor(10)
		got := []byte(nil)
		rd, err := age.Decrypt(bytes.NewReader(buf.Bytes()), id)
		if err == nil {
			got, err = io.ReadAll(rd)
		}
		if err != nil || !bytes.Equal(got, msg) {
			run.Violation("C05:reference-file-does-not-decrypt:"+sig, fmt.Sprintf("a file whose stanza is keyed by the exact bytes of %q does not decrypt with that passphrase: %v", pw, err), map[string]interface{}{"check": "C05.pwbytes", "passphrase": []byte(pw)})
		}
		run.Distinct(sig)
	}
	run.Add("passphrase_byte_forms", len(pws))
}
