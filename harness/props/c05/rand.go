package c05

import (
	crand "crypto/rand"
	"io"
)

func cryptoRand() io.Reader { return crand.Reader }
