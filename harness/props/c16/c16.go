// Package c16: the plugin client follows the protocol for every plugin behaviour.
package c16

import (
	"bufio"
	"bytes"
	"encoding/base64"
	"encoding/json"
	"errors"
	"fmt"
	"io"
	"os"
	"path/filepath"
	"strings"
	"sync/atomic"
	"time"

	"filippo.io/age"
	"filippo.io/age/plugin"
	"filippo.io/age/xverif/internal/vk"
	"filippo.io/age/xverif/internal/world"
)

type pcase struct {
	Mode string `json:"mode"`
	UI   struct {
		Disp string `json:"disp"`
		Req  string `json:"req"`
		Conf string `json:"conf"`
	} `json:"ui"`
	Script  []string            `json:"script"`
	Replies []string            `json:"replies"`
	Result  string              `json:"result"`
	Stanzas int                 `json:"stanzas"`
	Labels  string              `json:"labels"`
	Fk      bool                `json:"fk"`
	Opening map[string][]string `json:"opening"`
}

type step struct {
	Send    string `json:"send"`
	Expect  bool   `json:"expect"`
	Replies int    `json:"replies"` // read this many replies after sending (burst mode)
}

// the text of the scripted plugin's error message: it must come back verbatim, whatever it contains
const pluginErrText = "boom: the plugin's own text, disk 100% full %s %d %!x(MISSING) 50%"

func b64(s string) string { return base64.RawStdEncoding.EncodeToString([]byte(s)) }

var fileKey = []byte("0123456789abcdef")

// message text for each symbol of the model's alphabet
func msgText(m string) (string, bool) {
	body := func(s string) string {
		// canonical stanza body: 64-column lines, the last one shorter (empty if the encoding is a multiple of 64)
		e := b64(s)
		var b strings.Builder
		for len(e) >= 64 {
			b.WriteString(e[:64] + "\n")
			e = e[64:]
		}
		return b.String() + e + "\n"
	}
	switch m {
	case "rs_ok":
		return "-> recipient-stanza 0 vtype arg1 arg2\n" + body("stanza body one"), true
	case "rs_ok2":
		return "-> recipient-stanza 0 vtype2\n\n", true
	case "rs_long":
		return "-> recipient-stanza 0 vtype3 " + strings.Repeat("a", 5000) + "\n" + body("x"), true
	case "unknown_long":
		return "-> frobnicate " + strings.Repeat("z", 9000) + "\n\n", true
	case "rs_idx1":
		return "-> recipient-stanza 1 vtype arg1\n" + body("x"), true
	case "rs_neg":
		return "-> recipient-stanza -1 vtype arg1\n" + body("x"), true
	case "rs_nan":
		return "-> recipient-stanza zero vtype arg1\n" + body("x"), true
	case "rs_short":
		return "-> recipient-stanza 0\n\n", true
	case "labels0":
		return "-> labels\n\n", true
	case "labels_ab":
		return "-> labels a b\n\n", true
	case "labels_ba":
		return "-> labels b a\n\n", true
	case "fk_ok":
		return "-> file-key 0\n" + base64.RawStdEncoding.EncodeToString(fileKey) + "\n", true
	case "fk_idx1":
		return "-> file-key 1\n" + base64.RawStdEncoding.EncodeToString(fileKey) + "\n", true
	case "fk_neg":
		return "-> file-key -1\n" + base64.RawStdEncoding.EncodeToString(fileKey) + "\n", true
	case "fk_nan":
		return "-> file-key x\n" + base64.RawStdEncoding.EncodeToString(fileKey) + "\n", true
	case "fk_args0":
		return "-> file-key\n" + base64.RawStdEncoding.EncodeToString(fileKey) + "\n", true
	case "fk_args2":
		return "-> file-key 0 extra\n" + base64.RawStdEncoding.EncodeToString(fileKey) + "\n", true
	case "error":
		return "-> error internal\n" + body(pluginErrText), true
	case "done":
		return "-> done\n\n", false
	case "msg":
		return "-> msg\n" + body("hello from the plugin"), true
	case "req_secret":
		return "-> request-secret\n" + body("PIN please"), true
	case "req_public":
		return "-> request-public\n" + body("Name please"), true
	case "confirm1":
		return "-> confirm " + b64("Yes") + "\n" + body("Proceed?"), true
	case "confirm2":
		return "-> confirm " + b64("Yes") + " " + b64("No") + "\n" + body("Proceed?"), true
	case "confirm0":
		return "-> confirm\n" + body("Proceed?"), true
	case "confirm3":
		return "-> confirm " + b64("Yes") + " " + b64("No") + " " + b64("Maybe") + "\n" + body("Proceed?"), true
	case "confirm_bad64":
		return "-> confirm %%%\n" + body("Proceed?"), true
	case "unknown":
		return "-> frobnicate now\n\n", true
	case "garbage":
		return "hello world, this is not a stanza\n", true
	case "trunc":
		return "-> msg\nQUJDREVG", false
	case "eof":
		return "", false
	case "x_manyargs":
		return "-> confirm" + strings.Repeat(" "+b64("a"), 40) + "\n" + body("?"), true
	case "x_longline":
		return "-> msg " + strings.Repeat("A", 70000) + "\n\n", true
	case "x_bigbody":
		return "-> msg\n" + strings.Repeat(strings.Repeat("QUJD", 16)+"\n", 3000) + "\n", true
	case "x_binary":
		return "-> \x00\xff\x80 \x01\n\x00\x01\x02\n", true
	case "x_confirm9":
		return "-> confirm " + b64("y") + " " + b64("n") + " " + b64("m") + " " + b64("x") + " x y z w v\n" + body("?"), true
	case "x_emptytype":
		return "->  \n\n", true
	// the error command in every argument shape (the protocol has `error internal`, `error recipient N`,
	// `error identity N`, `error stanza F N`): indices negative, huge, overflowing, non-numeric, missing
	case "x_err_noargs":
		return "-> error\n" + body("e"), true
	case "x_err_stanza_neg":
		return "-> error stanza 0 -1\n" + body("e"), true
	case "x_err_stanza_min":
		return "-> error stanza 0 -9223372036854775808\n" + body("e"), true
	case "x_err_stanza_big":
		return "-> error stanza 0 99999\n" + body("e"), true
	case "x_err_stanza_over":
		return "-> error stanza 0 99999999999999999999\n" + body("e"), true
	case "x_err_stanza_nan":
		return "-> error stanza zero one\n" + body("e"), true
	case "x_err_stanza_f1":
		return "-> error stanza 1 0\n" + body("e"), true
	case "x_err_stanza_ok":
		return "-> error stanza 0 0\n" + body("e"), true
	case "x_err_stanza_short":
		return "-> error stanza 0\n" + body("e"), true
	case "x_err_recipient_neg":
		return "-> error recipient -1\n" + body("e"), true
	case "x_err_identity_neg":
		return "-> error identity -1\n" + body("e"), true
	case "x_err_identity_big":
		return "-> error identity 7\n" + body("e"), true
	case "x_err_nobody":
		return "-> error internal\n\n", true
	}
	panic("message " + m)
}

var counter int64

type transcriptEvent struct {
	Ev   string   `json:"ev"`
	Type string   `json:"type"`
	Args []string `json:"args"`
	Body []byte   `json:"body"`
	Note string   `json:"note"`
}

func readTranscript(path string) []transcriptEvent {
	f, err := os.Open(path)
	if err != nil {
		return nil
	}
	defer f.Close()
	var out []transcriptEvent
	sc := bufio.NewScanner(f)
	sc.Buffer(make([]byte, 1<<20), 1<<20)
	for sc.Scan() {
		var e transcriptEvent
		if json.Unmarshal(sc.Bytes(), &e) == nil {
			out = append(out, e)
		}
	}
	return out
}

func replyClass(e transcriptEvent) string {
	switch e.Type {
	case "ok":
		if len(e.Args) == 1 {
			return "ok_" + e.Args[0]
		}
		if len(e.Body) > 0 {
			return "ok_value"
		}
		return "ok"
	case "fail", "unsupported":
		return e.Type
	}
	return "other:" + e.Type
}

func mkUI(c *pcase) *plugin.ClientUI {
	ui := &plugin.ClientUI{}
	switch c.UI.Disp {
	case "ok":
		ui.DisplayMessage = func(name, message string) error { return nil }
	case "err":
		ui.DisplayMessage = func(name, message string) error { return errors.New("cannot display") }
	}
	switch c.UI.Req {
	case "ok":
		ui.RequestValue = func(name, prompt string, secret bool) (string, error) { return requestValue(c), nil }
	case "err":
		ui.RequestValue = func(name, prompt string, secret bool) (string, error) { return "", errors.New("no input") }
	}
	switch c.UI.Conf {
	case "yes":
		ui.Confirm = func(name, prompt, yes, no string) (bool, error) { return true, nil }
	case "no":
		ui.Confirm = func(name, prompt, yes, no string) (bool, error) { return false, nil }
	case "err":
		ui.Confirm = func(name, prompt, yes, no string) (bool, error) { return false, errors.New("no tty") }
	}
	return ui
}

// requestValue: what the application answers to request-secret/request-public; the length varies with the conversation
// (9, 47, 48, 49, 96 bytes: around the 48-byte line width of stanza bodies).
func requestValue(c *pcase) string {
	n := []int{9, 48, 47, 96, 49}[(len(c.Script)+len(strings.Join(c.Script, "")))%5]
	return strings.Repeat("v", n)
}

func sig(c *pcase) string {
	return fmt.Sprintf("%s/ui=%s,%s,%s/%s", c.Mode, c.UI.Disp, c.UI.Req, c.UI.Conf, strings.Join(c.Script, "."))
}

// runCase plays one conversation against the real client.
func runCase(run *vk.Run, dir string, c *pcase, w *world.World) { runCaseMode(run, dir, c, w, false) }

// runCaseMode plays one conversation; with onlyCrash only panics and hangs are judged (C14).
func runCaseMode(run *vk.Run, dir string, c *pcase, w *world.World, onlyCrash bool) {
	id := fmt.Sprintf("s%d", atomic.AddInt64(&counter, 1))
	var steps []step
	for _, m := range c.Script {
		t, exp := msgText(m)
		if m == "eof" {
			continue
		}
		steps = append(steps, step{Send: t, Expect: exp})
	}
	burst := (len(c.Script)+len(c.UI.Disp)+len(c.Result))%3 == 0 && len(steps) > 1
	if burst {
		// a plugin that does not wait for each reply: everything in one write, replies read afterwards
		all := ""
		nexp := 0
		for _, st := range steps {
			all += st.Send
			if st.Expect {
				nexp++
			}
		}
		steps = []step{{Send: all, Expect: false, Replies: nexp}}
	}
	b, _ := json.Marshal(steps)
	os.WriteFile(filepath.Join(dir, "scripts", id+".json"), b, 0o644)
	ui := mkUI(c)
	fromIdentity := c.Mode == "recipient" && (len(c.Script)+len(c.Replies))%4 == 1
	s := sig(c)
	rp := map[string]interface{}{"check": "C16.conversation", "case": c}
	type outcome struct {
		stanzas []*age.Stanza
		labels  []string
		key     []byte
		err     error
	}
	done := make(chan outcome, 1)
	// every third recipient conversation goes through Wrap instead of WrapWithLabels: what the plugin is sent and what
	// it may answer are the same, only the labels cannot be handed back
	viaWrap := c.Mode == "recipient" && !fromIdentity && (len(c.Script)+len(strings.Join(c.Script, "")))%3 == 0
	hdrStanzas := []*age.Stanza{{Type: "vtype", Args: []string{"a1"}, Body: []byte("body-1")}, {Type: "X25519", Args: []string{"TEiF0ypqr+bpvcqXNyCVJpL7OuwPdVwPL7KQEbFDOCc"}, Body: bytes.Repeat([]byte{7}, 32)}}
	var encoding string
	go func() {
		var o outcome
		defer func() {
			if p := recover(); p != nil {
				o.err = fmt.Errorf("PANIC: %v", p)
			}
			done <- o
		}()
		if c.Mode == "recipient" && fromIdentity {
			// encrypting to a plugin identity (age -e -i / -j): the recipient-v1 machine is opened with add-identity
			encoding = plugin.EncodeIdentity("vscript", []byte(id))
			i, err := plugin.NewIdentity(encoding, ui)
			if err != nil {
				o.err = err
				return
			}
			o.stanzas, o.labels, o.err = i.Recipient().WrapWithLabels(fileKey)
		} else if c.Mode == "recipient" {
			encoding = plugin.EncodeRecipient("vscript", []byte(id))
			r, err := plugin.NewRecipient(encoding, ui)
			if err != nil {
				o.err = err
				return
			}
			if viaWrap {
				// through the plain age.Recipient method (a caller's wrapper type, code written before labels existed)
				o.stanzas, o.err = r.Wrap(fileKey)
			} else {
				o.stanzas, o.labels, o.err = r.WrapWithLabels(fileKey)
			}
		} else {
			encoding = plugin.EncodeIdentity("vscript", []byte(id))
			i, err := plugin.NewIdentity(encoding, ui)
			if err != nil {
				o.err = err
				return
			}
			o.key, o.err = i.Unwrap(hdrStanzas)
		}
	}()
	var o outcome
	select {
	case o = <-done:
	case <-time.After(20 * time.Second):
		run.Violation(run.Prop+":hang:plugin:"+s, "the plugin client call did not return within 20 s after the plugin finished its script", rp)
		return
	}
	run.Eval(1)
	if o.err != nil && strings.HasPrefix(o.err.Error(), "PANIC") {
		run.Violation(run.Prop+":panic:plugin:"+s, "hostile plugin output made the client panic: "+o.err.Error(), rp)
		return
	}
	if onlyCrash {
		os.Remove(filepath.Join(dir, "scripts", id+".json"))
		os.Remove(filepath.Join(dir, "scripts", id+".out"))
		return
	}
	if o.err != nil && strings.Contains(o.err.Error(), "couldn't start plugin") {
		vk.Infra("scripted plugin did not start: %v", o.err)
	}
	tr := readTranscript(filepath.Join(dir, "scripts", id+".out"))
	os.Remove(filepath.Join(dir, "scripts", id+".json"))
	os.Remove(filepath.Join(dir, "scripts", id+".out"))
	// phase 1
	var p1 []transcriptEvent
	var replies []string
	for _, e := range tr {
		switch e.Ev {
		case "phase1":
			p1 = append(p1, e)
		case "reply":
			replies = append(replies, replyClass(e))
			if replyClass(e) == "ok_value" && string(e.Body) != requestValue(c) {
				run.Violation("C16:reply-value:"+s, fmt.Sprintf("the answer to a request carried %q, the application gave %q", e.Body, requestValue(c)), rp)
				return
			}
		}
	}
	p1mode := c.Mode
	if fromIdentity {
		p1mode = "recipient-from-identity"
	}
	if want, ok := c.Opening[p1mode]; ok {
		// the order of the opening phase is the specification's (Plugin!Opening); the fields are checked below
		var got []string
		for _, e := range p1 {
			t := e.Type
			if strings.HasPrefix(t, "grease-") {
				t = "grease"
			}
			got = append(got, t)
		}
		if strings.Join(got, " ") != strings.Join(want, " ") {
			run.Violation("C16:opening:"+s, fmt.Sprintf("the client opened the %s conversation with [%s]; the protocol prescribes [%s]", p1mode, strings.Join(got, " "), strings.Join(want, " ")), rp)
			return
		}
	}
	if msg := checkPhase1(p1mode, p1, encoding, hdrStanzas); msg != "" {
		run.Violation("C16:phase1:"+c.Mode, "what the client sends first is not complete and well formed: "+msg, rp)
		return
	}
	// replies, one by one
	if strings.Join(replies, ",") != strings.Join(c.Replies, ",") {
		run.Violation("C16:replies:"+s, fmt.Sprintf("plugin script %v: the client replied %v, the protocol prescribes %v", c.Script, replies, c.Replies), rp)
		return
	}
	// final result
	bad := func(f string, a ...interface{}) {
		run.Violation("C16:result:"+s, fmt.Sprintf("plugin script %v: ", c.Script)+fmt.Sprintf(f, a...), rp)
	}
	switch c.Result {
	case "ok":
		if o.err != nil {
			bad("call failed: %v", o.err)
		} else if c.Mode == "recipient" {
			if len(o.stanzas) != c.Stanzas {
				bad("%d stanzas returned, %d sent with index 0", len(o.stanzas), c.Stanzas)
			}
			want := map[string]string{"none": "", "labels0": "", "labels_ab": "a,b", "labels_ba": "b,a"}[c.Labels]
			if !viaWrap && strings.Join(o.labels, ",") != want {
				bad("labels %v, want %q", o.labels, want)
			}
		} else if !bytes.Equal(o.key, fileKey) {
			bad("file key %x returned, the plugin sent %x", o.key, fileKey)
		}
	case "incorrect":
		if !errors.Is(o.err, age.ErrIncorrectIdentity) {
			bad("a plugin that yields no file key must make Unwrap report an incorrect identity (so other identities are tried); got %v", o.err)
		}
	case "err_plugin":
		if o.err == nil || !strings.Contains(o.err.Error(), pluginErrText) {
			bad("an error message must abort the call with the plugin's text; got %v", o.err)
		} else if errors.Is(o.err, age.ErrIncorrectIdentity) {
			bad("a plugin error is reported as an incorrect identity")
		}
	default: // err_malformed, err_io, err_zero, err_replabels, err_dupkey
		if o.err == nil {
			bad("the call succeeded (stanzas=%d key=%x), the protocol prescribes an error (%s)", len(o.stanzas), o.key, c.Result)
		} else if errors.Is(o.err, age.ErrIncorrectIdentity) {
			bad("a protocol violation (%s) is reported as an incorrect identity", c.Result)
		}
	}
}

func checkPhase1(mode string, p1 []transcriptEvent, encoding string, hdr []*age.Stanza) string {
	if len(p1) < 4 {
		return fmt.Sprintf("only %d stanzas", len(p1))
	}
	i := 0
	next := func() transcriptEvent { e := p1[i]; i++; return e }
	e := next()
	wantAdd := "add-recipient"
	if mode == "identity" || mode == "recipient-from-identity" {
		wantAdd = "add-identity"
	}
	if e.Type != wantAdd || len(e.Args) != 1 || e.Args[0] != encoding || len(e.Body) != 0 {
		return fmt.Sprintf("first stanza is %s %v", e.Type, e.Args)
	}
	e = next()
	if !strings.HasPrefix(e.Type, "grease-") {
		return "no grease stanza after " + wantAdd
	}
	if mode == "recipient" || mode == "recipient-from-identity" {
		e = next()
		if e.Type != "wrap-file-key" || len(e.Args) != 0 || !bytes.Equal(e.Body, fileKey) {
			return fmt.Sprintf("wrap-file-key carries %x", e.Body)
		}
		e = next()
		if e.Type != "extension-labels" || len(e.Args) != 0 {
			return "no extension-labels"
		}
	} else {
		for _, h := range hdr {
			if i >= len(p1) {
				return "header stanzas missing"
			}
			e = next()
			want := append([]string{"0", h.Type}, h.Args...)
			if e.Type != "recipient-stanza" || strings.Join(e.Args, " ") != strings.Join(want, " ") || !bytes.Equal(e.Body, h.Body) {
				return fmt.Sprintf("header stanza sent as %s %v", e.Type, e.Args)
			}
		}
	}
	if i >= len(p1) {
		return "no done"
	}
	e = next()
	if e.Type != "done" || i != len(p1) {
		return fmt.Sprintf("phase 1 ends with %s (%d of %d)", e.Type, i, len(p1))
	}
	return ""
}

func cfg(mode string, maxMsgs int) string {
	return fmt.Sprintf("SPECIFICATION Spec\nCONSTANTS\n MaxMsgs = %d\n Mode = \"%s\"\nINVARIANTS OnlyIndexZero NoDuplicateKeyOrLabels ErrorAckedThenAbort EmptyWrapFails NoKeyIsIncorrectIdentity Terminates RepliesMatch Emit\nCHECK_DEADLOCK FALSE\n", maxMsgs, mode)
}

// Setup prepares PATH and the script directory next to the scripted plugin binary.
func Setup() string {
	dir := os.Getenv("VCHECK_BIN")
	if dir == "" {
		vk.Infra("VCHECK_BIN not set (run through bin/check)")
	}
	if _, err := os.Stat(filepath.Join(dir, "age-plugin-vscript")); err != nil {
		vk.Infra("scripted plugin binary missing: %v", err)
	}
	os.MkdirAll(filepath.Join(dir, "scripts"), 0o755)
	os.Setenv("PATH", dir+string(os.PathListSeparator)+os.Getenv("PATH"))
	return dir
}

// Run is the C16 check.
func Run(tier string) {
	run := vk.NewRun("C16", tier, "model_checking")
	run.Rule("TLC (Plugin.tla) enumerates every conversation of up to MaxMsgs plugin messages over the protocol alphabet (22 symbols for recipient-v1, 19 for identity-v1: each command valid and malformed, end of stream at every point) x every configuration of the UI callbacks the conversation uses, checks the protocol invariants and emits the prescribed replies and result; each conversation is played by a scripted plugin process (age-plugin-vscript on PATH) against plugin.Recipient.WrapWithLabels / plugin.Identity.Unwrap; the transcript recorded by the plugin (phase-1 stanzas, one reply per message) and the call's result are compared with the model. Distinct = (mode, UI, script).")
	run.Assume("not generated: non-canonical zero indices (+0, 00), a file-key with an empty body")
	dir := Setup()
	w := world.New(run.Seed)
	total := 0
	for _, mode := range []string{"recipient", "identity"} {
		maxMsgs := run.Pick(2, 3)
		res := run.TLC("conversations-"+mode, vk.TLCOpts{Module: "Plugin", Config: cfg(mode, maxMsgs), Workers: 16})
		if res.Violated != "" || !res.OK {
			vk.Infra("Plugin.tla: %s\n%s", res.Violated, res.Output)
		}
		lines := res.PrintsWithPrefix("CASE ")
		// plus a stripe of longer conversations
		res2 := run.TLC("conversations-long-"+mode, vk.TLCOpts{Module: "Plugin", Config: cfg(mode, maxMsgs+1), Workers: 16})
		if res2.Violated != "" || !res2.OK {
			vk.Infra("Plugin.tla: %s\n%s", res2.Violated, res2.Output)
		}
		long := res2.PrintsWithPrefix("CASE ")
		stride := run.Pick(41, 7)
		for i, l := range long {
			if (i+int(run.Seed))%stride == 0 {
				lines = append(lines, l)
			}
		}
		cases := make([]pcase, len(lines))
		for i, l := range lines {
			if err := json.Unmarshal([]byte(l), &cases[i]); err != nil {
				vk.Infra("bad CASE: %v", err)
			}
		}
		vk.Parallel(len(cases), 16, func(i int) {
			runCase(run, dir, &cases[i], w)
			run.Distinct(sig(&cases[i]))
		})
		total += len(cases)
		run.Sample(map[string]interface{}{"mode": mode, "case": cases[len(cases)/2]})
	}
	run.Add("conversations", total)
	endToEnd(run, dir, w)
	run.Finish()
}

// endToEnd: a plugin identity that finds no key lets Decrypt move on to the next identity.
func endToEnd(run *vk.Run, dir string, w *world.World) {
	id := fmt.Sprintf("s%d", atomic.AddInt64(&counter, 1))
	b, _ := json.Marshal([]step{{Send: "-> done\n\n"}})
	os.WriteFile(filepath.Join(dir, "scripts", id+".json"), b, 0o644)
	pi, err := plugin.NewIdentity(plugin.EncodeIdentity("vscript", []byte(id)), &plugin.ClientUI{})
	if err != nil {
		vk.Infra("%v", err)
	}
	x := w.XIdentity("x1")
	var buf bytes.Buffer
	wc, _ := age.Encrypt(&buf, x.Recipient())
	wc.Write([]byte("after the plugin"))
	wc.Close()
	r, err := age.Decrypt(bytes.NewReader(buf.Bytes()), pi, x)
	run.Eval(1)
	if err != nil {
		run.Violation("C16:no-key-blocks-other-identities", fmt.Sprintf("a plugin identity without a key for the file stopped Decrypt: %v", err), nil)
		return
	}
	got, _ := io.ReadAll(r)
	if string(got) != "after the plugin" {
		run.Violation("C16:no-key-blocks-other-identities", "wrong plaintext", nil)
	}
	run.Distinct("end-to-end")
}

var asksUI = map[string]bool{"msg": true, "req_secret": true, "req_public": true, "confirm1": true, "confirm2": true, "confirm_bad64": true, "x_confirm9": true}

// HostileForC14 plays every one- and two-message conversation of the alphabet, plus oversized and binary variants, with the
// UI callbacks present, absent and failing, and judges only panics and hangs (C14: a plugin's protocol output is hostile input too).
func HostileForC14(run *vk.Run) {
	dir := Setup()
	w := world.New(run.Seed)
	var cases []pcase
	alpha := []string{"rs_ok", "rs_idx1", "rs_neg", "rs_nan", "rs_short", "labels0", "labels_ab", "fk_ok", "fk_idx1", "fk_neg", "fk_nan", "fk_args0", "fk_args2",
		"error", "done", "msg", "req_secret", "req_public", "confirm1", "confirm2", "confirm0", "confirm3", "confirm_bad64", "unknown", "garbage", "trunc", "eof",
		"x_manyargs", "x_longline", "x_bigbody", "x_binary", "x_confirm9", "x_emptytype",
		"x_err_noargs", "x_err_stanza_neg", "x_err_stanza_min", "x_err_stanza_big", "x_err_stanza_over", "x_err_stanza_nan", "x_err_stanza_f1", "x_err_stanza_ok",
		"x_err_stanza_short", "x_err_recipient_neg", "x_err_identity_neg", "x_err_identity_big", "x_err_nobody"}
	for _, mode := range []string{"recipient", "identity"} {
		for _, a := range alpha {
			for _, b := range append([]string{""}, "done", "confirm3", "msg", "x_confirm9") {
				// the application's callbacks in every configuration the ClientUI documentation allows (any of them
				// may be nil, any may fail) for the messages that reach a callback; all present otherwise
				uis := [][3]string{{"ok", "ok", "yes"}}
				if asksUI[a] || asksUI[b] {
					uis = append(uis, [3]string{"nil", "nil", "nil"}, [3]string{"err", "err", "err"}, [3]string{"ok", "nil", "no"}, [3]string{"nil", "ok", "nil"})
				}
				for _, u := range uis {
					c := pcase{Mode: mode}
					c.UI.Disp, c.UI.Req, c.UI.Conf = u[0], u[1], u[2]
					c.Script = []string{a}
					if b != "" {
						c.Script = append(c.Script, b)
					}
					cases = append(cases, c)
				}
			}
		}
	}
	vk.Parallel(len(cases), 16, func(i int) {
		runCaseMode(run, dir, &cases[i], w, true)
		run.Distinct("plugin:" + sig(&cases[i]))
	})
	run.Add("hostile_plugin_conversations", len(cases))
}

// ScriptedRecipient returns a plugin recipient (plugin "vscript") whose plugin plays the given script of message
// symbols of Plugin.tla (e.g. "rs_ok", "error", "done"). For checks of other properties that need a real plugin
// recipient in a recipient list; dir is what Setup returned.
func ScriptedRecipient(dir string, script []string) (age.Recipient, error) {
	enc, err := ScriptedRecipientString(dir, script)
	if err != nil {
		return nil, err
	}
	return plugin.NewRecipient(enc, &plugin.ClientUI{})
}

// ScriptedRecipientString is the recipient string (age1vscript1...) of such a recipient, for the command line.
func ScriptedRecipientString(dir string, script []string) (string, error) {
	id := fmt.Sprintf("x%d", atomic.AddInt64(&counter, 1))
	var steps []step
	for _, m := range script {
		if m == "eof" {
			continue
		}
		t, exp := msgText(m)
		steps = append(steps, step{Send: t, Expect: exp})
	}
	b, _ := json.Marshal(steps)
	if err := os.WriteFile(filepath.Join(dir, "scripts", id+".json"), b, 0o644); err != nil {
		return "", err
	}
	return plugin.EncodeRecipient("vscript", []byte(id)), nil
}
