// Package c02: tampered, truncated or reordered payload is never accepted.
package c02

import (
	"bytes"
	"encoding/json"
	"errors"
	"fmt"
	"golang.org/x/crypto/chacha20poly1305"
	"io"
	"math/rand"
	"os"
	"path/filepath"
	"strings"
	"time"

	"filippo.io/age"
	"filippo.io/age/internal/stream"
	"filippo.io/age/xverif/internal/rd"
	"filippo.io/age/xverif/internal/strm"
	"filippo.io/age/xverif/internal/vk"
)

type gcase struct {
	File     []strm.Frame `json:"file"`
	Avail    int          `json:"avail"`
	Cut      int          `json:"cut"`
	Class    string       `json:"class"`
	Released int          `json:"released"`
	Opened   int          `json:"opened"`
	Honest   bool         `json:"honest"`
}

func frameSig(fs []strm.Frame, cut int) string {
	var p []string
	for _, f := range fs {
		if f.K == "G" {
			p = append(p, fmt.Sprintf("G%d", f.Size))
		} else {
			fin := "n"
			if f.Fin {
				fin = "F"
			}
			p = append(p, fmt.Sprintf("%s%d%s%d", f.Key, f.Ctr, fin, f.Len))
		}
	}
	s := strings.Join(p, ".")
	if cut > 0 {
		s += fmt.Sprintf("-cut%d", cut)
	}
	return s
}

// SourceKinds for the payload reader.
// (buffered sources too: the reader may be handed a *bufio.Reader - cmd/age does - and must not treat it specially)
var SourceKinds = []string{"bytes", "onebyte", "dataerr", "half", "zeronil", "chunk7", "s65551", "s65552", "s65553", "s65552eof", "bufio", "bufio16", "bufio65536"}

func Source(kind string, b []byte) io.Reader {
	switch kind {
	case "s65551", "s65552", "s65553":
		n := map[string]int{"s65551": 65551, "s65552": 65552, "s65553": 65553}[kind]
		return &rd.Chunked{R: bytes.NewReader(b), N: n}
	case "s65552eof":
		var sizes []int
		for i := 0; i < len(b)/65552+2; i++ {
			sizes = append(sizes, 65552)
		}
		return &strm.Scripted{B: b, Sizes: sizes, EOFWithData: true, FailAt: -1}
	}
	return rd.New(kind, b)
}

// CheckPayload runs the real STREAM reader over payload bytes and evaluates the C02 predicates.
// P: original plaintext; honest: the payload is an untouched encryption (of P[:n] for some n).
func CheckPayload(run *vk.Run, key []byte, payload []byte, P []byte, honest bool, sig string, kinds, policies []string, rp interface{}) {
	for _, kind := range kinds {
		for _, pol := range policies {
			r, err := stream.NewReader(key, Source(kind, payload))
			if err != nil {
				vk.Infra("%v", err)
			}
			res := strm.Drain(r, pol)
			run.Eval(1)
			where := fmt.Sprintf("source=%s read=%s", kind, pol)
			if res.Panic != nil {
				run.Violation("C02:panic:"+sig, fmt.Sprintf("%s: reader panicked: %v", where, res.Panic), rp)
				return
			}
			if len(res.Data) > len(P) || !bytes.Equal(res.Data, P[:len(res.Data)]) {
				run.Violation("C02:released-not-prefix:"+sig, fmt.Sprintf("%s: %d bytes released that are not the original plaintext prefix", where, len(res.Data)), rp)
				return
			}
			if !honest && res.Err == io.EOF {
				run.Violation("C02:clean-eof-on-altered-payload:"+sig, fmt.Sprintf("%s: altered payload (%d bytes) reached a clean end of stream after %d plaintext bytes", where, len(payload), len(res.Data)), rp)
				return
			}
			if !honest && res.AfterErr != "" {
				run.Violation("C02:not-sticky:"+sig, fmt.Sprintf("%s: %s", where, res.AfterErr), rp)
				return
			}
			if honest && res.Err != io.EOF {
				run.Drift("untouched payload rejected (%s, %s): %v — judged by C01/C12", sig, where, res.Err)
			}
		}
	}
}

func pick(all []string, k int, salt int) []string {
	if k >= len(all) {
		return all
	}
	out := []string{}
	for i := 0; i < k; i++ {
		out = append(out, all[(salt+i*3)%len(all)])
	}
	return out
}

func mcCfg(C, T, maxL int, reads string, faults bool) string {
	f := "FALSE"
	if faults {
		f = "TRUE"
	}
	return fmt.Sprintf(`SPECIFICATION Spec
CONSTANTS
 C = %d
 T = %d
 KeepHist = FALSE
 Mode = "reader"
 MaxL = %d
 ReadSizes = %s
 WriteSizes = {}
 MaxWrites = 0
 Faults = %s
 ProbeIgnoresN = FALSE
INVARIANTS PrefixOnlyS CleanOnlyIfHonestS FailureSurfaces ScheduleIndependence ReadAhead NoPanicR TypeOK
PROPERTIES Sticky
VIEW view
CHECK_DEADLOCK FALSE
`, C, T, maxL, reads, f)
}

func genCfg(C, T, maxFrames int, lens string, maxCtr int) string {
	return fmt.Sprintf(`SPECIFICATION Spec
CONSTANTS
 C = %d
 T = %d
 MaxFrames = %d
 Lens = %s
 MaxCtr = %d
INVARIANTS Emit HonestAccepted
CHECK_DEADLOCK FALSE
`, C, T, maxFrames, lens, maxCtr)
}

// Run is the C02 check.
func Run(tier string) {
	run := vk.NewRun("C02", tier, "model_checking")
	run.Rule("TLC model-checks the small-step STREAM reader (StreamMC.tla) against every truncation/extension/corruption/drop/duplication/swap/re-flagging of every honest file of 0..MaxL units under every delivery schedule and read size (invariants PrefixOnly, CleanOnlyIfHonest, ScheduleIndependence, Sticky, ReadAhead, NoPanic). StreamGen.tla enumerates every frame sequence up to MaxFrames over own/foreign-key x counter x flag x length variants and garbage, with every truncation of the last frame; each is concretised (unit map 0,1,65535,65536 bytes) and replayed into internal/stream.NewReader under several sources and read policies. Byte level: every single-bit flip and every truncation of the payload of small age files, chunk-boundary offsets of multi-chunk files, every prefix an interrupted writer leaves, trailing bytes. Random tamper runs of the real reader are recorded and validated by TLC (StreamTrace.tla, real constants). Distinct = frame-sequence signature or byte offset class.")
	run.Assume("perfect AEAD: a block opens iff it is exactly a frame sealed under the same key, counter and flag (x/crypto chacha20poly1305 is trusted)")
	seed := run.Seed
	// 1. the design: exhaustive model checking of the reader machine
	run.SpecMustHold("reader-mc", vk.TLCOpts{Module: "StreamMC", Config: mcCfg(2, 1, run.Pick(5, 7), "{0, 1, 2, 3}", false), Workers: 16, Expect: []string{"RCall", "RFill", "RProbe"}})
	if run.Thorough() {
		run.SpecMustHold("reader-mc-C3", vk.TLCOpts{Module: "StreamMC", Config: mcCfg(3, 2, 10, "{0, 1, 3, 4}", false), Workers: 16})
	}
	// 2. frame alphabet, replayed
	C, T := 3, 2
	maxFrames := run.Pick(3, 4)
	res := run.TLC("frames", vk.TLCOpts{Module: "StreamGen", Config: genCfg(C, T, maxFrames, "{0, 1, 2, 3}", 3), Workers: 16})
	if res.Violated != "" || !res.OK {
		vk.Infra("StreamGen: specification-level failure: %s\n%s", res.Violated, res.Output)
	}
	lines := res.PrintsWithPrefix("CASE ")
	if len(lines) == 0 {
		vk.Infra("StreamGen produced no cases")
	}
	cases := make([]gcase, len(lines))
	for i, l := range lines {
		if err := json.Unmarshal([]byte(l), &cases[i]); err != nil {
			vk.Infra("bad CASE: %v", err)
		}
	}
	w := strm.NewWorld(seed, C, T, 6)
	nk, np := run.Pick(4, len(SourceKinds)), run.Pick(3, len(strm.ReadPolicies))
	nhonest := 0
	vk.Parallel(len(cases), 16, func(i int) {
		c := &cases[i]
		rng := rand.New(rand.NewSource(seed*31 + int64(i)))
		payload := w.FileBytes(c.File, c.Cut, rng)
		sig := frameSig(c.File, c.Cut)
		rp := map[string]interface{}{"check": "C02.frames", "frames": c.File, "cut": c.Cut, "seed": seed}
		CheckPayload(run, w.KeyK, payload, w.P, c.Honest, "frames:"+sig, pick(SourceKinds, nk, i), pick(strm.ReadPolicies, np, i/3), rp)
		run.Distinct("frames:" + sig)
	})
	for _, c := range cases {
		if c.Honest {
			nhonest++
		}
	}
	run.Add("frame_sequences", len(cases))
	run.Add("frame_sequences_honest", nhonest)
	run.Sample(map[string]interface{}{"generator": "frames", "file": frameSig(cases[len(cases)/2].File, cases[len(cases)/2].Cut), "spec_class": cases[len(cases)/2].Class})

	byteLevel(run, seed)
	traceValidate(run, seed)
	run.Finish()
}

// byteLevel: the real file end to end (age.Encrypt / age.Decrypt), edits after the header.
func byteLevel(run *vk.Run, seed int64) {
	rng := rand.New(rand.NewSource(seed))
	id, err := age.GenerateX25519Identity()
	if err != nil {
		vk.Infra("%v", err)
	}
	mk := func(n int) ([]byte, []byte, int, [][]byte) {
		pt := make([]byte, n)
		rng.Read(pt)
		var rec recW
		wc, err := age.Encrypt(&rec, id.Recipient())
		if err != nil {
			vk.Infra("%v", err)
		}
		hdrLen := rec.buf.Len() - 16
		step := 50000
		for off := 0; off < n; off += step {
			e := off + step
			if e > n {
				e = n
			}
			wc.Write(pt[off:e])
		}
		wc.Close()
		return rec.buf.Bytes(), pt, hdrLen, rec.prefixes
	}
	decrypt := func(file []byte, kind, pol string) strm.Result {
		r, err := age.Decrypt(Source(kind, file), id)
		if err != nil {
			return strm.Result{Err: err}
		}
		return strm.Drain(r, pol)
	}
	judge := func(file, pt []byte, sig, what string, kinds, pols []string) {
		for _, kind := range kinds {
			for _, pol := range pols {
				res := decrypt(file, kind, pol)
				run.Eval(1)
				rp := map[string]interface{}{"check": "C02.bytes", "what": what, "source": kind, "read": pol}
				if res.Panic != nil {
					run.Violation("C02:panic:"+sig, fmt.Sprint(res.Panic), rp)
					return
				}
				if len(res.Data) > len(pt) || !bytes.Equal(res.Data, pt[:len(res.Data)]) {
					run.Violation("C02:released-not-prefix:"+sig, what+": released bytes are not a prefix of the plaintext", rp)
					return
				}
				if res.Err == io.EOF {
					run.Violation("C02:clean-eof-on-altered-payload:"+sig, fmt.Sprintf("%s (source=%s read=%s): clean end of stream after %d of %d plaintext bytes", what, kind, pol, len(res.Data), len(pt)), rp)
					return
				}
				if res.AfterErr != "" {
					run.Violation("C02:not-sticky:"+sig, what+": "+res.AfterErr, rp)
					return
				}
			}
		}
	}
	small := []string{"bytes", "dataerr", "onebyte"}
	// exhaustive flips and truncations for tiny plaintexts
	for _, n := range []int{0, 1, 5} {
		file, pt, hdr, _ := mk(n)
		for off := hdr; off < len(file); off++ {
			for bit := 0; bit < 8; bit++ {
				f := append([]byte{}, file...)
				f[off] ^= 1 << bit
				judge(f, pt, fmt.Sprintf("flip:n=%d", n), fmt.Sprintf("bit %d of payload byte %d flipped (plaintext %d bytes)", bit, off-hdr, n), small[:1], []string{"readall"})
			}
			run.Distinct(fmt.Sprintf("flip:%d:%d", n, off-hdr))
		}
		for cut := hdr; cut < len(file); cut++ {
			judge(file[:cut], pt, fmt.Sprintf("trunc:n=%d", n), fmt.Sprintf("payload truncated to %d of %d bytes", cut-hdr, len(file)-hdr), small, []string{"readall", "buf1"})
			run.Distinct(fmt.Sprintf("trunc:%d:%d", n, cut-hdr))
		}
	}
	// multi-chunk: offsets around the nonce end and every chunk edge, plus sampled interior offsets
	sizes := []int{65536, 65537, 131072, 140000}
	if run.Thorough() {
		sizes = append(sizes, 65535, 131071, 196608, 196609)
	}
	for _, n := range sizes {
		file, pt, hdr, prefixes := mk(n)
		pay := len(file) - hdr
		var offs []int
		for e := 16; e <= pay; e += strm.EncChunk {
			for d := -2; d <= 2; d++ {
				offs = append(offs, e+d, e+d+16)
			}
		}
		offs = append(offs, 0, 1, 15, pay-1, pay-2, pay-16, pay-17)
		for i := 0; i < run.Pick(6, 64); i++ {
			offs = append(offs, rng.Intn(pay))
		}
		for _, o := range offs {
			if o < 0 || o >= pay {
				continue
			}
			f := append([]byte{}, file...)
			f[hdr+o] ^= 1 << uint(rng.Intn(8))
			judge(f, pt, fmt.Sprintf("flip:n=%d", n), fmt.Sprintf("payload byte %d of %d flipped (plaintext %d bytes)", o, pay, n), []string{"bytes"}, []string{"copy"})
			judge(file[:hdr+o], pt, fmt.Sprintf("trunc:n=%d", n), fmt.Sprintf("payload truncated to %d of %d bytes (plaintext %d bytes)", o, pay, n), []string{"bytes", "s65552eof"}, []string{"readall"})
			run.Distinct(fmt.Sprintf("edge:%d:%d", n, o))
		}
		// every prefix an interrupted writer can leave behind (after and inside each dst.Write)
		for _, p := range prefixes {
			if len(p) >= len(file) || len(p) < hdr {
				continue
			}
			judge(p, pt, fmt.Sprintf("writer-prefix:n=%d", n), fmt.Sprintf("file cut where an interrupted writer stops (%d of %d bytes)", len(p), len(file)), []string{"bytes", "dataerr"}, []string{"copy", "readall"})
			run.Distinct(fmt.Sprintf("wprefix:%d:%d", n, len(p)))
		}
		// trailing data of several lengths under several deliveries
		for _, t := range []int{1, 2, 17, 65552, 65553} {
			f := append(append([]byte{}, file...), make([]byte, t)...)
			judge(f, pt, fmt.Sprintf("trailing:n=%d", n), fmt.Sprintf("%d trailing bytes after a %d-byte plaintext", t, n), SourceKinds, []string{"readall", "copy", "copyplain", "buf65536"})
			run.Distinct(fmt.Sprintf("trailing:%d:%d", n, t))
			// ... and behind a source failure: the source answers the read that follows the final chunk with an
			// error of its own (for good, or once) instead of the trailing bytes. Whatever the reader makes of that
			// error, the extended file must not reach a clean end of stream.
			for _, once := range []bool{false, true} {
				for _, pol := range []string{"readall", "copy", "buf65536", "buf1"} {
					if pol == "buf1" && n > 65537 {
						continue
					}
					src := &strm.Scripted{B: f, FailAt: int64(len(file)), Once: once, Err: errors.New("injected source failure behind the final chunk")}
					var res strm.Result
					if r, err := age.Decrypt(src, id); err != nil {
						res = strm.Result{Err: err}
					} else {
						res = strm.Drain(r, pol)
					}
					run.Eval(1)
					sig := fmt.Sprintf("trailing-behind-failure:n=%d", n)
					rp := map[string]interface{}{"check": "C02.bytes", "what": "trailing bytes behind a failing read", "n": n, "trailing": t, "once": once, "read": pol}
					if res.Panic != nil {
						run.Violation("C02:panic:"+sig, fmt.Sprint(res.Panic), rp)
					} else if len(res.Data) > len(pt) || !bytes.Equal(res.Data, pt[:len(res.Data)]) {
						run.Violation("C02:released-not-prefix:"+sig, "released bytes are not a prefix of the plaintext", rp)
					} else if res.Err == io.EOF {
						run.Violation("C02:clean-eof-on-altered-payload:"+sig, fmt.Sprintf("%d trailing bytes after a %d-byte plaintext, the source failing (once=%v) on the read behind the final chunk (read=%s): clean end of stream", t, n, once, pol), rp)
					} else if res.AfterErr != "" {
						run.Violation("C02:not-sticky:"+sig, res.AfterErr, rp)
					}
				}
			}
			run.Distinct(fmt.Sprintf("trailing-behind-failure:%d:%d", n, t))
		}
	}
	emptyFinalAfterFull(run, rng)
	cliTruncation(run, id, rng)
	if run.Thorough() {
		carry(run, id, rng)
		secondCarryReplay(run, rng)
	}
}

// cliTruncation: the command-line tool is a caller of the library like any other: files cut at every chunk boundary (and
// one byte either side), and files with trailing bytes, given to `age -d` on a file and on standard input, must not end
// with exit status 0.
func cliTruncation(run *vk.Run, id *age.X25519Identity, rng *rand.Rand) {
	ageBin := filepath.Join(vk.BuildCLI(), "age")
	dir, err := os.MkdirTemp("", "c02cli-")
	if err != nil {
		vk.Infra("%v", err)
	}
	defer os.RemoveAll(dir)
	os.WriteFile(filepath.Join(dir, "k.txt"), []byte(id.String()+"\n"), 0o600)
	n := 2*strm.Chunk + 100
	pt := make([]byte, n)
	rng.Read(pt)
	var buf bytes.Buffer
	wc, _ := age.Encrypt(&buf, id.Recipient())
	wc.Write(pt)
	wc.Close()
	file := buf.Bytes()
	hdr := len(file) - (16 + n + 3*16)
	var cases []struct {
		name string
		b    []byte
	}
	for k := 0; k <= 2; k++ {
		cut := hdr + 16 + k*strm.EncChunk
		for _, d := range []int{-1, 0, 1} {
			if cut+d > hdr && cut+d < len(file) {
				cases = append(cases, struct {
					name string
					b    []byte
				}{fmt.Sprintf("cut-at-chunk-%d%+d", k, d), file[:cut+d]})
			}
		}
	}
	cases = append(cases, struct {
		name string
		b    []byte
	}{"trailing-1", append(append([]byte{}, file...), 0)})
	for _, c := range cases {
		for _, via := range []string{"file", "stdin"} {
			var p vk.Proc
			if via == "file" {
				os.WriteFile(filepath.Join(dir, "in.age"), c.b, 0o600)
				p = vk.RunProc(60*time.Second, dir, nil, []byte{}, ageBin, "-d", "-i", "k.txt", "-o", "out.bin", "in.age")
			} else {
				p = vk.RunProc(60*time.Second, dir, nil, c.b, ageBin, "-d", "-i", "k.txt", "-o", "out.bin")
			}
			run.Eval(1)
			out, _ := os.ReadFile(filepath.Join(dir, "out.bin"))
			os.Remove(filepath.Join(dir, "out.bin"))
			sig := fmt.Sprintf("cli:%s:%s", c.name, via)
			if p.Exit == 0 {
				run.Violation("C02:clean-eof-on-altered-payload:"+sig, fmt.Sprintf("age -d on a payload %s (%s) exited 0 after writing %d of %d plaintext bytes", c.name, via, len(out), n), map[string]interface{}{"check": "C02.cli", "case": c.name, "via": via})
			} else if len(out) > n || !bytes.Equal(out, pt[:len(out)]) {
				run.Violation("C02:released-not-prefix:"+sig, "age -d left bytes that are not a prefix of the plaintext", map[string]interface{}{"check": "C02.cli", "case": c.name, "via": via})
			}
			run.Distinct(sig)
		}
	}
}

// emptyFinalAfterFull: k full chunks followed by an empty final chunk is a second chunking of the same plaintext and must
// be rejected for every k >= 1, in particular where the counter's low byte is zero again (k = 256, 512), whatever the
// caller's buffer size. The payload is sealed here under a known stream key and read through stream.NewReader.
func emptyFinalAfterFull(run *vk.Run, rng *rand.Rand) {
	key := make([]byte, 32)
	rng.Read(key)
	a, err := chacha20poly1305.New(key)
	if err != nil {
		vk.Infra("%v", err)
	}
	block := make([]byte, strm.Chunk)
	rng.Read(block)
	ks := []int{1, 2, 255, 256, 257, 512}
	if run.Thorough() {
		ks = append(ks, 3, 128, 254, 768, 1024)
	}
	for _, k := range ks {
		payload := make([]byte, 0, k*strm.EncChunk+16)
		for c := 0; c < k; c++ {
			payload = a.Seal(payload, strm.Nonce(c, false), block, nil)
		}
		honestEnd := len(payload)
		payload = a.Seal(payload, strm.Nonce(k, true), nil, nil)
		for _, pol := range []string{"readall", "buf65536", "buf100000", "copy"} {
			r, err := stream.NewReader(key, bytes.NewReader(payload))
			if err != nil {
				vk.Infra("%v", err)
			}
			res := strm.Drain(r, pol)
			run.Eval(1)
			sig := fmt.Sprintf("empty-final-after-%d-full:%s", k, pol)
			if res.Err == io.EOF || res.Err == nil {
				run.Violation("C02:clean-eof-on-altered-payload:"+sig, fmt.Sprintf("%d full chunks followed by an empty final chunk (a second chunking of a %d-byte plaintext) ended with a clean EOF under read policy %s", k, k*strm.Chunk, pol), map[string]interface{}{"check": "C02.emptyfinal", "k": k, "policy": pol})
			}
			run.Distinct(sig)
		}
		_ = honestEnd
	}
}

// recW records every prefix the destination has seen (after each Write call and mid-call).
type recW struct {
	buf      bytes.Buffer
	prefixes [][]byte
}

func (r *recW) Write(p []byte) (int, error) {
	if len(p) > 3 {
		r.prefixes = append(r.prefixes, append(append([]byte{}, r.buf.Bytes()...), p[:len(p)/2]...))
	}
	r.buf.Write(p)
	r.prefixes = append(r.prefixes, append([]byte{}, r.buf.Bytes()...))
	return len(p), nil
}

// carry: files of 255, 256 and 257 chunks, edits around the first carry of the chunk counter.
func carry(run *vk.Run, id *age.X25519Identity, rng *rand.Rand) {
	for _, chunks := range []int{255, 256, 257} {
		n := chunks*strm.Chunk - 7
		pt := make([]byte, n)
		rng.Read(pt)
		var buf bytes.Buffer
		wc, _ := age.Encrypt(&buf, id.Recipient())
		wc.Write(pt)
		wc.Close()
		file := buf.Bytes()
		hdr := len(file) - (16 + n + chunks*16)
		r, err := age.Decrypt(bytes.NewReader(file), id)
		if err != nil {
			vk.Infra("%v", err)
		}
		got, err := io.ReadAll(r)
		run.Eval(1)
		if err != nil || !bytes.Equal(got, pt) {
			run.Drift("%d-chunk file does not round-trip: %v", chunks, err)
		}
		// swap chunks 255 and 256 (0-based) where present, drop chunk 255, duplicate chunk 254
		chunk := func(i int) (int, int) { s := hdr + 16 + i*strm.EncChunk; return s, s + strm.EncChunk }
		edits := map[string][]byte{}
		if chunks >= 257 {
			a0, a1 := chunk(254)
			b0, b1 := chunk(255)
			f := append([]byte{}, file[:a0]...)
			f = append(f, file[b0:b1]...)
			f = append(f, file[a0:a1]...)
			f = append(f, file[b1:]...)
			edits["swap254-255"] = f
		}
		if chunks >= 256 {
			a0, a1 := chunk(254)
			edits["drop254"] = append(append([]byte{}, file[:a0]...), file[a1:]...)
			edits["dup254"] = append(append(append([]byte{}, file[:a1]...), file[a0:a1]...), file[a1:]...)
			edits["chunk1-at-255"] = func() []byte { // a chunk with counter 1 placed where counter 256+1... would be
				s0, s1 := chunk(1)
				t0, t1 := chunk(254)
				f := append([]byte{}, file[:t0]...)
				f = append(f, file[s0:s1]...)
				return append(f, file[t1:]...)
			}()
		}
		for name, f := range edits {
			r, err := age.Decrypt(bytes.NewReader(f), id)
			if err != nil {
				continue
			}
			res := strm.Drain(r, "copy")
			run.Eval(1)
			sig := fmt.Sprintf("carry:%d:%s", chunks, name)
			if res.Err == io.EOF {
				run.Violation("C02:clean-eof-on-altered-payload:"+sig, "edit "+name+" accepted", nil)
			} else if len(res.Data) > len(pt) || !bytes.Equal(res.Data, pt[:len(res.Data)]) {
				run.Violation("C02:released-not-prefix:"+sig, "edit "+name+" released foreign bytes", nil)
			}
			run.Distinct(sig)
		}
	}
}

// traceValidate: random tamper runs of the real reader, validated by TLC against Stream.tla with real constants.
func traceValidate(run *vk.Run, seed int64) {
	rng := rand.New(rand.NewSource(seed ^ 0x5bd1e995))
	w := strm.NewWorld(seed+1, 65536, 16, 6)
	var evs []interface{}
	nruns := run.Pick(150, 1500)
	for t := 0; t < nruns; t++ {
		fs, cut := randomFile(rng)
		payload := fileBytesReal(w, fs, cut, rng)
		avail := len(payload)
		desc := make([]map[string]interface{}, len(fs))
		for i, f := range fs {
			desc[i] = map[string]interface{}{"k": f.K, "key": f.Key, "ctr": f.Ctr, "fin": f.Fin, "len": f.Len, "size": f.Size}
		}
		evs = append(evs, map[string]interface{}{"ev": "RReset", "file": desc, "avail": avail})
		src := &rd.Counting{R: bytes.NewReader(payload)}
		r, _ := stream.NewReader(w.KeyK, src)
		total := 0
		for c := 0; c < 12; c++ {
			p := []int{0, 1, 7, 4096, 65536, 65537, 100000}[rng.Intn(7)]
			buf := make([]byte, p)
			before := src.N
			n, err := r.Read(buf)
			es := ""
			if err == io.EOF {
				es = "EOF"
			} else if err != nil {
				es = "other"
			}
			ok := total+n <= len(w.P) && bytes.Equal(buf[:n], w.P[total:total+n])
			total += n
			evs = append(evs, map[string]interface{}{"ev": "Read", "p": p, "ret": n, "err": es, "src": src.N - before, "okPrefix": ok})
		}
	}
	dir, err := os.MkdirTemp("", "c02t-")
	if err != nil {
		vk.Infra("%v", err)
	}
	defer os.RemoveAll(dir)
	path := filepath.Join(dir, "trace.ndjson")
	if err := vk.WriteNDJSON(path, evs); err != nil {
		vk.Infra("%v", err)
	}
	ok, at := ValidateTrace(run, "reader-traces", path)
	run.Traces(nruns)
	run.Add("trace_events", len(evs))
	if ok {
		// binding self-test: the same log with one result field altered must be rejected
		for i := len(evs) / 2; i < len(evs); i++ {
			if m := evs[i].(map[string]interface{}); m["ev"] == "Read" && m["ret"].(int) > 0 {
				m["ret"] = m["ret"].(int) - 1
				vk.WriteNDJSON(path, evs)
				ok2, _ := ValidateTrace(run, "reader-traces-corrupted-selftest", path)
				if ok2 {
					vk.Infra("binding self-test failed: a corrupted trace was accepted by StreamTrace")
				}
				m["ret"] = m["ret"].(int) + 1
				run.Set("binding_selftest", "corrupted log rejected")
				break
			}
		}
	}
	if !ok {
		b, _ := json.Marshal(evs[at-1])
		run.Violation("C02:trace-rejected", fmt.Sprintf("the real reader took a step Stream.tla does not allow at trace line %d: %s", at, b), map[string]interface{}{"check": "C02.trace", "event": evs[at-1], "line": at})
	}
}

// ValidateTrace runs StreamTrace over a trace file; returns (accepted, first rejected line).
func ValidateTrace(run *vk.Run, what, path string) (bool, int) {
	cfg := "SPECIFICATION Spec\nCONSTANTS\n C = 65536\n T = 16\nINVARIANTS HoldbackT FrameShapeT SuccessT PrefixOnlyT CleanT\nCONSTRAINT HighWater\nPOSTCONDITION Accepted\nCHECK_DEADLOCK FALSE\n"
	res := run.TLC(what, vk.TLCOpts{Module: "StreamTrace", Config: cfg, Workers: 1, Env: map[string]string{"TRACE": path}})
	if acc := res.PrintsWithPrefix("ACCEPTED "); len(acc) == 1 && res.Violated == "" {
		return true, 0
	}
	if rej := res.PrintsWithPrefix("REJECTED "); len(rej) == 1 {
		var at int
		fmt.Sscan(rej[0], &at)
		return false, at
	}
	if res.Violated != "" {
		// an invariant of the specification is false on a state reached by the recorded run
		return false, int(res.Distinct)
	}
	vk.Infra("StreamTrace gave no verdict:\n%s", res.Output)
	return false, 0
}

func randomFile(rng *rand.Rand) ([]strm.Frame, int) {
	S := func(key string, c int, fin bool, ln int) strm.Frame {
		return strm.Frame{K: "S", Key: key, Ctr: c, Fin: fin, Len: ln, Size: ln + 16}
	}
	G := func(n int) strm.Frame { return strm.Frame{K: "G", Key: "-", Size: n} }
	n := 1 + rng.Intn(3)
	lastLen := []int{0, 1, 100, 65535, 65536}[rng.Intn(5)]
	if n > 1 && lastLen == 0 {
		lastLen = 1
	}
	var fs []strm.Frame
	for i := 0; i < n-1; i++ {
		fs = append(fs, S("K", i, false, 65536))
	}
	fs = append(fs, S("K", n-1, true, lastLen))
	cut := 0
	switch rng.Intn(10) {
	case 0, 1: // honest
	case 2:
		cut = 1 + rng.Intn(fs[len(fs)-1].Size)
	case 3:
		fs = append(fs, G([]int{1, 2, 16, 17, 65552}[rng.Intn(5)]))
	case 4:
		i := rng.Intn(len(fs))
		fs[i] = G(fs[i].Size)
	case 5:
		i := rng.Intn(len(fs))
		fs = append(fs[:i], fs[i+1:]...)
		if len(fs) == 0 {
			fs = []strm.Frame{G(5)}
		}
	case 6:
		i := rng.Intn(len(fs))
		fs = append(fs[:i+1], fs[i:]...)
	case 7:
		fs = append([]strm.Frame{G(65552)}, fs...)
	case 8:
		fs[len(fs)-1].Fin = false
	case 9:
		fs[0] = S("X", 0, fs[0].Fin, fs[0].Len)
	}
	return fs, cut
}

func fileBytesReal(w *strm.World, fs []strm.Frame, cut int, rng *rand.Rand) []byte {
	var out []byte
	for _, f := range fs {
		if f.K == "G" {
			b := make([]byte, f.Size)
			rng.Read(b)
			out = append(out, b...)
			continue
		}
		key := w.KeyK
		if f.Key != "K" {
			key = w.KeyX
		}
		out = append(out, sealReal(key, f, w.P)...)
	}
	return out[:len(out)-cut]
}

func sealReal(key []byte, f strm.Frame, P []byte) []byte {
	return strm.SealReal(key, f.Ctr, f.Fin, f.Len, P)
}

// secondCarryReplay: 65 538 chunks streamed writer -> pipe -> reader with chunk 65 536 replaced by a copy of chunk 0
// (same key; the counters differ by exactly 2^16). The reader must fail there and release only original plaintext.
func secondCarryReplay(run *vk.Run, rng *rand.Rand) {
	key := make([]byte, 32)
	rng.Read(key)
	pr, pw := io.Pipe()
	go func() {
		var first []byte
		idx := 0
		tap := writerFunc(func(p []byte) (int, error) {
			out := p
			if idx == 0 {
				first = append([]byte{}, p...)
			}
			if idx == 65536 {
				out = first
			}
			idx++
			_, err := pw.Write(out)
			return len(p), err
		})
		w, _ := stream.NewWriter(key, tap)
		chunk := make([]byte, 65536)
		for i := 0; i < 65538; i++ {
			for j := 0; j < 8; j++ {
				chunk[j] = byte(i >> (8 * uint(j)))
			}
			if _, err := w.Write(chunk); err != nil {
				break
			}
		}
		w.Close()
		pw.Close()
	}()
	r, _ := stream.NewReader(key, pr)
	buf := make([]byte, 65536)
	n := 0
	var rerr error
	bad := -1
	for {
		_, err := io.ReadFull(r, buf)
		if err != nil {
			rerr = err
			break
		}
		got := 0
		for j := 0; j < 8; j++ {
			got |= int(buf[j]) << (8 * uint(j))
		}
		if got != n && bad < 0 {
			bad = n
		}
		n++
	}
	pr.Close()
	run.Eval(1)
	if bad >= 0 {
		run.Violation("C02:released-not-prefix:second-carry", fmt.Sprintf("chunk %d of a 4 GiB stream was released with foreign content (a replay of chunk 0 at position 65536 was accepted)", bad), nil)
	} else if rerr == io.EOF || rerr == nil {
		run.Violation("C02:clean-eof-on-altered-payload:second-carry", fmt.Sprintf("a stream with chunk 65536 replaced by chunk 0 reached a clean end after %d chunks", n), nil)
	}
	run.Distinct("second-carry-replay")
}

type writerFunc func(p []byte) (int, error)

func (f writerFunc) Write(p []byte) (int, error) { return f(p) }
