// Package armrd replays behaviours of the ArmorRead machine (spec/ArmorRead.tla, instances in ArmorReadMC.tla)
// against armor.NewReader: TLC explores every text of the generator, every position at which the source fails and
// the read schedules, checks the machine's invariants, and prints each behaviour (text as line classes, calls with
// the results the machine gives). Here each line class is realised in bytes, the same calls are made on the real
// reader over a source that fails where the model says, and the real results are compared call by call.
//
// Verdicts come only from property predicates on what the real reader did (C08: acceptance, bytes, error type;
// C13: failures surface, prefix, stickiness); a per-call difference that leaves them true is recorded as drift.
package armrd

import (
	"bytes"
	"encoding/base64"
	"encoding/json"
	"errors"
	"fmt"
	"io"
	"strings"

	"filippo.io/age/armor"
	"filippo.io/age/xverif/internal/vk"
)

// Line is one abstract line: [k, kind, w, t, n].
type Line struct {
	K, Kind string
	W       int
	T       string
	N       int
}

func (l *Line) UnmarshalJSON(b []byte) error {
	var a []interface{}
	if err := json.Unmarshal(b, &a); err != nil || len(a) != 5 {
		return fmt.Errorf("bad line %s", b)
	}
	l.K, _ = a[0].(string)
	l.Kind, _ = a[1].(string)
	w, _ := a[2].(float64)
	l.W = int(w)
	l.T, _ = a[3].(string)
	n, _ := a[4].(float64)
	l.N = int(n)
	return nil
}

func (l Line) String() string {
	s := l.K
	if l.Kind != "" {
		s += "." + l.Kind
	}
	if l.K == "ws" {
		s += fmt.Sprint(l.W)
	}
	if l.K == "data" {
		s += fmt.Sprint(l.N)
	}
	if l.T != "lf" {
		s += "_" + l.T
	}
	return s
}

// Call is one Read call: [p, n, e].
type Call struct {
	P, N int
	E    string
}

func (c *Call) UnmarshalJSON(b []byte) error {
	var a []interface{}
	if err := json.Unmarshal(b, &a); err != nil || len(a) != 3 {
		return fmt.Errorf("bad call %s", b)
	}
	p, _ := a[0].(float64)
	n, _ := a[1].(float64)
	c.P, c.N = int(p), int(n)
	c.E, _ = a[2].(string)
	return nil
}

// Case is one printed behaviour.
type Case struct {
	Text      []Line `json:"text"`
	SrcFail   int    `json:"srcFail"`
	Calls     []Call `json:"calls"`
	Good      int    `json:"good"`
	Canonical bool   `json:"canonical"`
}

func (c *Case) Label() string {
	parts := make([]string, len(c.Text))
	for i, l := range c.Text {
		parts[i] = l.String()
	}
	return strings.Join(parts, ",")
}

const header = "-----BEGIN AGE ENCRYPTED FILE-----"
const footer = "-----END AGE ENCRYPTED FILE-----"

func content(i, n int, seed int64) []byte {
	b := make([]byte, n)
	for j := range b {
		b[j] = byte((i*31 + j*7 + int(seed)*13 + 5) % 256)
	}
	return b
}

var wsAlphabet = []byte{' ', '\t', ' ', '\v', '\f', ' '}

// realise turns the abstract text into bytes; returns the text, the start offset of each line (plus the total
// length as last element) and the plaintext of the well-formed body prefix.
func realise(c *Case, seed int64) (text []byte, starts []int, plain []byte, err error) {
	var b bytes.Buffer
	// the well-formed body: the data lines that directly follow a BEGIN line that is the first non-whitespace line
	first := -1
	for i, l := range c.Text {
		if l.K != "ws" {
			first = i
			break
		}
	}
	bodyEnd := -1
	if first >= 0 && c.Text[first].K == "begin" {
		bodyEnd = first + 1
		for bodyEnd < len(c.Text) && c.Text[bodyEnd].K == "data" {
			bodyEnd++
		}
	}
	var body []byte
	for i, l := range c.Text {
		starts = append(starts, b.Len())
		var s []byte
		switch l.K {
		case "ws":
			s = make([]byte, l.W)
			for j := range s {
				s[j] = wsAlphabet[(i+j)%len(wsAlphabet)]
			}
			if l.W >= 5 && (i+int(seed))%2 == 0 {
				// Go's bytes.TrimSpace is Unicode-aware: U+00A0 and U+0085 count as whitespace, CR inside too
				copy(s[1:], []byte{0xC2, 0xA0})
				s[3] = '\r'
			}
		case "begin":
			s = []byte(header)
		case "end":
			s = []byte(footer)
		case "data":
			d := content(i, l.N, seed)
			s = []byte(base64.StdEncoding.EncodeToString(d))
			if first >= 0 && i > first && i < bodyEnd {
				body = append(body, d...)
			}
		case "bad":
			switch l.Kind {
			case "garbage":
				s = []byte("hello")
			case "long":
				s = []byte(base64.StdEncoding.EncodeToString(content(i, 48, seed)) + "A")
			case "noncanon":
				s = []byte("QR==")
			case "nopad":
				s = []byte("QQ")
			case "kv":
				s = []byte("Key: v")
			case "crin":
				s = []byte("QU\rJD")
			case "spend":
				s = []byte(footer + " ")
			case "spbegin":
				s = []byte(header + " ")
			case "lower":
				s = []byte(strings.ToLower(header))
			case "pgpcrc":
				s = []byte("=QUJD")
			default:
				return nil, nil, nil, fmt.Errorf("unknown bad kind %q", l.Kind)
			}
		default:
			return nil, nil, nil, fmt.Errorf("unknown line class %q", l.K)
		}
		if len(s) != l.W {
			return nil, nil, nil, fmt.Errorf("line %d (%s): realised %d bytes, model says %d", i, l, len(s), l.W)
		}
		b.Write(s)
		switch l.T {
		case "lf":
			b.WriteByte('\n')
		case "crlf":
			b.WriteString("\r\n")
		case "none":
		default:
			return nil, nil, nil, fmt.Errorf("unknown terminator %q", l.T)
		}
	}
	starts = append(starts, b.Len())
	if c.Good > len(body) {
		return nil, nil, nil, fmt.Errorf("model says %d good bytes, the realised body has %d (%s)", c.Good, len(body), c.Label())
	}
	return b.Bytes(), starts, body[:c.Good], nil
}

var errInjected = errors.New("armrd: injected source failure")

// source delivers B[:FailAt] in pieces of varying sizes, then Err (or io.EOF if Err is nil).
type source struct {
	B      []byte
	Err    error
	Pieces []int
	pos, k int
	Fired  bool
	Calls  int
}

func (s *source) Read(p []byte) (int, error) {
	s.Calls++
	if s.pos >= len(s.B) {
		if s.Err != nil {
			s.Fired = true
			return 0, s.Err
		}
		return 0, io.EOF
	}
	n := s.Pieces[s.k%len(s.Pieces)]
	s.k++
	if n > len(p) {
		n = len(p)
	}
	if n > len(s.B)-s.pos {
		n = len(s.B) - s.pos
	}
	copy(p, s.B[s.pos:s.pos+n])
	s.pos += n
	return n, nil
}

func class(err error) string {
	if err == nil {
		return ""
	}
	if err == io.EOF {
		return "eof"
	}
	if errors.Is(err, errInjected) {
		return "io"
	}
	var ae *armor.Error
	if errors.As(err, &ae) {
		return "armor"
	}
	return "other:" + err.Error()
}

var pieceSets = [][]int{{1 << 20}, {1}, {7, 1, 64}, {4096}, {33}}

// Outcome of one replay.
type Outcome struct {
	Mismatch string // first per-call difference with the model ("" if none)
	Problems []Problem
	Reads    int
}

type Problem struct{ Kind, Detail string }

// Replay runs one case against armor.NewReader. variant selects the source's piece sizes and the failing offset
// inside the failing line.
func Replay(c *Case, seed int64, variant int) (o Outcome, err error) {
	text, starts, plain, err := realise(c, seed)
	if err != nil {
		return o, err
	}
	src := &source{B: text, Pieces: pieceSets[variant%len(pieceSets)]}
	if c.SrcFail > 0 {
		src.Err = errInjected
		if c.SrcFail <= len(c.Text) {
			off := starts[c.SrcFail-1]
			// inside the failing line, unless the line follows an END marker (there the model counts whole lines
			// against the trailing-whitespace limit)
			afterEnd := false
			for _, l := range c.Text[:c.SrcFail-1] {
				if l.K == "end" {
					afterEnd = true
				}
			}
			if w := starts[c.SrcFail] - off; !afterEnd && w > 1 && variant%3 != 0 {
				if variant%3 == 1 {
					off++
				} else {
					off += w / 2
				}
			}
			src.B = text[:off]
		}
	}
	defer func() {
		if r := recover(); r != nil {
			o.Problems = append(o.Problems, Problem{"panic", fmt.Sprint(r)})
		}
	}()
	r := armor.NewReader(src)
	var got []byte
	var firstErr error
	var final error
	check := func(n int, e error, p int) {
		if n < 0 || n > p {
			o.Problems = append(o.Problems, Problem{"bad-count", fmt.Sprintf("Read(%d) returned n=%d", p, n)})
		}
		if firstErr != nil {
			if n > 0 {
				o.Problems = append(o.Problems, Problem{"data-after-error", fmt.Sprintf("after %v a later Read returned %d bytes", firstErr, n)})
			}
			if e == nil {
				o.Problems = append(o.Problems, Problem{"not-sticky", fmt.Sprintf("after %v a later Read returned nil", firstErr)})
			} else if class(e) != class(firstErr) {
				o.Problems = append(o.Problems, Problem{"not-sticky", fmt.Sprintf("after %v a later Read returned %v", firstErr, e)})
			}
		}
		if e != nil && firstErr == nil {
			firstErr = e
		}
		if e != nil {
			final = e
		}
	}
	for i, cl := range c.Calls {
		buf := make([]byte, cl.P)
		n, e := r.Read(buf)
		o.Reads++
		if n >= 0 && n <= cl.P && firstErr == nil {
			got = append(got, buf[:n]...) // what arrives after an error is judged by check (data-after-error), not as content
		}
		check(n, e, cl.P)
		if o.Mismatch == "" && (n != cl.N || class(e) != cl.E) {
			o.Mismatch = fmt.Sprintf("call %d Read(%d): model (%d,%q) real (%d,%q: %v)", i+1, cl.P, cl.N, cl.E, n, class(e), e)
		}
	}
	// drain to the end so that every case is decided, and poke twice after the first error
	after := 0
	for k := 0; k < 10000 && after < 2; k++ {
		buf := make([]byte, 64)
		n, e := r.Read(buf)
		o.Reads++
		if n >= 0 && n <= 64 && firstErr == nil {
			got = append(got, buf[:n]...)
		}
		check(n, e, 64)
		if e != nil {
			after++
		} else if n == 0 {
			o.Problems = append(o.Problems, Problem{"no-progress", "Read(64) returned 0, nil"})
			break
		}
	}
	if final == nil {
		o.Problems = append(o.Problems, Problem{"no-end", "no error and no end of stream after 10000 reads"})
		return o, nil
	}
	fc := class(firstErr)
	if len(got) > len(plain) || !bytes.Equal(got, plain[:len(got)]) {
		o.Problems = append(o.Problems, Problem{"bytes", fmt.Sprintf("delivered %d bytes that are not a prefix of the %d-byte well-formed body", len(got), len(plain))})
	}
	if fc == "eof" {
		if c.SrcFail > 0 && src.Fired {
			o.Problems = append(o.Problems, Problem{"source-failure-hidden", "the source failed and de-armoring ended cleanly"})
		}
		if c.SrcFail > 0 && !src.Fired {
			// the reader never reached the failure: then the text before it must be complete by itself
			o.Problems = append(o.Problems, Problem{"source-failure-hidden", "de-armoring ended cleanly without reading to the end of its input"})
		}
		if !c.Canonical {
			o.Problems = append(o.Problems, Problem{"noncanonical-accept", "a text outside the canonical shape was accepted through to the end"})
		} else if !bytes.Equal(got, plain) {
			o.Problems = append(o.Problems, Problem{"bytes", fmt.Sprintf("clean end with %d of %d bytes", len(got), len(plain))})
		}
	} else {
		if c.Canonical && c.SrcFail == 0 {
			o.Problems = append(o.Problems, Problem{"canonical-reject", fmt.Sprintf("a canonical text was rejected: %v", firstErr)})
		}
		if c.SrcFail == 0 && fc != "armor" {
			o.Problems = append(o.Problems, Problem{"error-type", fmt.Sprintf("failure without the armor error type: %v", firstErr)})
		}
	}
	return o, nil
}

// Config builds the TLC configuration of an ArmorReadMC instance.
func Config(level, budget, maxLines, maxRep int, sizes string, maxCalls int, faults, emit bool) string {
	b := func(v bool) string {
		if v {
			return "TRUE"
		}
		return "FALSE"
	}
	return fmt.Sprintf(`SPECIFICATION Spec
CONSTANTS
 MaxWS = 1024
 Full = 48
 TextNext <- TN
 GenInit <- G0
 ReadSizes = %s
 MaxCalls = %d
 Faults = %s
 Emit = %s
 Level = %d
 Budget = %d
 MaxLines = %d
 MaxRep = %d
INVARIANTS TypeOK Sticky PrefixOnly CleanOnlyIfCanonical CanonicalIsClean ErrorTypes Progress EmitCase
VIEW view
CHECK_DEADLOCK FALSE
`, sizes, maxCalls, b(faults), b(emit), level, budget, maxLines, maxRep)
}

// c08Kinds / c13Kinds: which problems falsify which property.
var c08Kinds = map[string]bool{"noncanonical-accept": true, "canonical-reject": true, "bytes": true, "error-type": true, "panic": true, "no-progress": true, "no-end": true, "bad-count": true}
var c13Kinds = map[string]bool{"source-failure-hidden": true, "data-after-error": true, "not-sticky": true, "bytes": true, "panic": true, "bad-count": true}

// Run model-checks one instance and replays every printed behaviour. prop is "C08" (source never fails) or "C13".
func Run(run *vk.Run, what, cfg string, simulate string, depth int) {
	o := vk.TLCOpts{Module: "ArmorReadMC", Config: cfg, Workers: 16, Timeout: 40 * 60 * 1e9}
	if simulate != "" {
		o.Simulate, o.Depth, o.Seed, o.Workers = simulate, depth, run.Seed, 4
	} else {
		o.Expect = []string{"Grow", "Open", "Read"}
	}
	res := run.SpecMustHold(what, o)
	lines := res.PrintsWithPrefix("CASE ")
	if len(lines) == 0 {
		vk.Infra("ArmorReadMC %s printed no behaviours", what)
	}
	kinds := c08Kinds
	if run.Prop == "C13" {
		kinds = c13Kinds
	}
	var mism, canon, faulted int64
	type cnt struct{ mism, canon, faulted int }
	cs := make([]cnt, len(lines))
	vk.Parallel(len(lines), 16, func(i int) {
		var c Case
		if err := json.Unmarshal([]byte(lines[i]), &c); err != nil {
			vk.Infra("bad CASE %q: %v", lines[i], err)
		}
		label := c.Label()
		for v := 0; v < 2; v++ {
			variant := (i + v*3 + int(run.Seed)) % 15
			out, err := Replay(&c, run.Seed, variant)
			if err != nil {
				vk.Infra("replay %s: %v", label, err)
			}
			run.Eval(out.Reads)
			for _, p := range out.Problems {
				if !kinds[p.Kind] {
					run.Drift("%s (%s, not this property's clause): %s / fail=%d: %s", p.Kind, what, label, c.SrcFail, p.Detail)
					continue
				}
				run.Violation(fmt.Sprintf("%s:armor-reader-%s:%s/fail=%d", run.Prop, p.Kind, label, c.SrcFail), p.Detail,
					map[string]interface{}{"check": "armrd", "case": json.RawMessage(lines[i]), "variant": variant})
			}
			if out.Mismatch != "" {
				cs[i].mism++
				run.Drift("armor reader differs from ArmorRead.tla on %s fail=%d: %s", label, c.SrcFail, out.Mismatch)
			}
		}
		if c.Canonical {
			cs[i].canon = 1
		}
		if c.SrcFail > 0 {
			cs[i].faulted = 1
		}
		run.Distinct(fmt.Sprintf("armrd:%s/%d", label, c.SrcFail))
	})
	for _, c := range cs {
		mism += int64(c.mism)
		canon += int64(c.canon)
		faulted += int64(c.faulted)
	}
	run.Traces(len(lines))
	run.Add("armor_reader_behaviours_"+what, len(lines))
	run.Add("armor_reader_call_mismatches", int(mism))
	run.Add("armor_reader_canonical_cases", int(canon))
	run.Add("armor_reader_failing_source_cases", int(faulted))
}
