package c15

import (
	"bytes"
	"fmt"
	"io"
	"os"
	"path/filepath"
	"time"

	"filippo.io/age"
	"filippo.io/age/armor"
	"filippo.io/age/xverif/internal/vk"
)

// typedInput runs the commands of Cli.tla whose input is typed on the terminal (input "tty": no INPUT argument,
// standard input, output and error one pseudo-terminal): plaintext ended by end-of-input when encrypting, an armored
// file when decrypting. What the terminal shows (or the -o file holds) decides whether the result was delivered.
func typedInput(run *vk.Run, ks *kits, ageBin, root string, cases []ccase) {
	kit := ks.k["x25519"]
	plain := []byte("typed on the terminal\nsecond line\n")
	mism := 0
	for ci := range cases {
		cs := &cases[ci]
		c := &cs.Cmd
		wd := filepath.Join(root, fmt.Sprintf("tty%d", ci))
		os.MkdirAll(wd, 0o755)
		b, err := os.ReadFile(kit.idFile)
		if err != nil {
			vk.Infra("%v", err)
		}
		os.WriteFile(filepath.Join(wd, "idfile"), b, 0o600)
		var args []string
		var typed []byte
		if c.Op == "enc" {
			args = append(args, "-r", kit.rcpString)
			if c.Armor {
				args = append(args, "-a")
			}
			typed = append(append([]byte{}, plain...), 4) // end of input at the start of a line
		} else {
			args = append(args, "-d", "-i", "idfile")
			typed = libEncrypt(kit.recipient, plain, true)
		}
		switch c.Out {
		case "tty_dash":
			args = append(args, "-o", "-")
		case "new":
			args = append(args, "-o", "out")
		}
		p := vk.RunOnPty(60*time.Second, wd, []string{"TERM=dumb"}, typed, ageBin, args...)
		run.Eval(1)
		s := statusSig(c)
		rp := map[string]interface{}{"check": "C15.typed", "cmd": c, "argv": args}
		if p.TimedOut {
			run.Violation("C15:hang:"+s, "the command did not finish within 60 s of its input being typed", rp)
			os.RemoveAll(wd)
			continue
		}
		seen := bytes.ReplaceAll(p.Stdout, []byte("\r\n"), []byte("\n"))
		got := false
		switch {
		case c.Out == "new":
			out, err := os.ReadFile(filepath.Join(wd, "out"))
			if err == nil && c.Op == "dec" {
				got = bytes.Equal(out, plain)
			} else if err == nil {
				var rd io.Reader = bytes.NewReader(out)
				if bytes.HasPrefix(out, []byte(armor.Header)) {
					rd = armor.NewReader(rd)
				}
				if r, err := age.Decrypt(rd, kit.identity); err == nil {
					pt, err := io.ReadAll(r)
					got = err == nil && bytes.Equal(pt, plain)
				}
			}
		case c.Op == "dec":
			// the terminal shows the echo of what was typed, then the plaintext
			end := bytes.LastIndex(seen, []byte(armor.Footer))
			got = end >= 0 && bytes.Contains(seen[end:], plain)
		case c.Armor:
			// the last armor block the terminal shows is the result
			i := bytes.LastIndex(seen, []byte(armor.Header))
			j := bytes.LastIndex(seen, []byte(armor.Footer))
			if i >= 0 && j > i {
				txt := append(append([]byte{}, seen[i:j]...), []byte(armor.Footer+"\n")...)
				if r, err := age.Decrypt(armor.NewReader(bytes.NewReader(txt)), kit.identity); err == nil {
					pt, err := io.ReadAll(r)
					got = err == nil && bytes.Equal(pt, plain)
				}
			}
		default:
			got = bytes.Contains(seen, []byte("age-encryption.org/v1"))
		}
		if (p.Exit == 0) != got {
			run.Violation("C15:exit-status:"+s, fmt.Sprintf("age %v with its input typed on the terminal: exit status %d, complete result delivered: %v (terminal shows %d bytes)", args, p.Exit, got, len(seen)), rp)
		} else if (p.Exit == 0) != cs.Exit0 {
			mism++
			run.Drift("typed input: age %v exits %d, Cli.tla has exit0=%v", args, p.Exit, cs.Exit0)
		}
		run.Distinct("typed:" + s)
		os.RemoveAll(wd)
	}
	run.Add("typed_input_commands", len(cases))
	run.Add("typed_input_model_mismatches", mism)
}
