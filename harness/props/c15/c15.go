// Package c15: CLI exit status 0 if and only if the whole result was delivered.
package c15

import (
	"bytes"
	"crypto/ed25519"
	"crypto/rand"
	"crypto/rsa"
	"encoding/json"
	"encoding/pem"
	"fmt"
	"io"
	mrand "math/rand"
	"os"
	"os/exec"
	"path/filepath"
	"strings"
	"sync"
	"sync/atomic"
	"syscall"
	"time"

	"filippo.io/age"
	"filippo.io/age/agessh"
	"filippo.io/age/armor"
	"filippo.io/age/xverif/internal/vk"
	"golang.org/x/crypto/ssh"
)

type cmdT struct {
	Op       string `json:"op"`
	Key      string `json:"key"`
	Keyarg   string `json:"keyarg"`
	Armor    bool   `json:"armor"`
	Input    string `json:"input"`
	Size     int    `json:"size"`
	Damage   string `json:"damage"`
	Out      string `json:"out"`
	Spelling string `json:"spelling"`
	Limit    string `json:"limit"`
	Flagerr  string `json:"flagerr"`
}
type ccase struct {
	Cmd   cmdT   `json:"cmd"`
	Exit0 bool   `json:"exit0"`
	Out   string `json:"out"`
	Pre   string `json:"pre"`
}

// keyKit: files and strings for one key type.
type keyKit struct {
	idFile, idFileOther string // identity files (the right key, another key of the same type)
	rcpString           string
	rcpFileLine         string
	recipient           age.Recipient
	identity            age.Identity
}

type kits struct {
	dir string
	k   map[string]*keyKit
}

const passphrase = "c15-correct-horse"

func writeSSH(dir, name string, priv interface{}) (string, ssh.PublicKey) {
	blk, err := ssh.MarshalPrivateKey(priv, "c15")
	if err != nil {
		vk.Infra("%v", err)
	}
	p := filepath.Join(dir, name)
	os.WriteFile(p, pem.EncodeToMemory(blk), 0o600)
	var pk ssh.PublicKey
	switch k := priv.(type) {
	case ed25519.PrivateKey:
		pk, _ = ssh.NewPublicKey(k.Public())
	case *rsa.PrivateKey:
		pk, _ = ssh.NewPublicKey(&k.PublicKey)
	}
	os.WriteFile(p+".pub", ssh.MarshalAuthorizedKey(pk), 0o644)
	return p, pk
}

func mkKits(dir string) *kits {
	ks := &kits{dir: dir, k: map[string]*keyKit{}}
	// x25519
	x, _ := age.GenerateX25519Identity()
	x2, _ := age.GenerateX25519Identity()
	kx := &keyKit{idFile: filepath.Join(dir, "x.key"), idFileOther: filepath.Join(dir, "x2.key"), rcpString: x.Recipient().String(), recipient: x.Recipient(), identity: x}
	os.WriteFile(kx.idFile, []byte("# created: now\n"+x.String()+"\n"), 0o600)
	os.WriteFile(kx.idFileOther, []byte(x2.String()+"\n"), 0o600)
	kx.rcpFileLine = kx.rcpString
	ks.k["x25519"] = kx
	// ssh-ed25519
	_, e1, _ := ed25519.GenerateKey(rand.Reader)
	_, e2, _ := ed25519.GenerateKey(rand.Reader)
	p1, pk1 := writeSSH(dir, "id_ed", e1)
	p2, _ := writeSSH(dir, "id_ed_other", e2)
	er, _ := agessh.NewEd25519Recipient(pk1)
	ei, _ := agessh.NewEd25519Identity(e1)
	line := strings.TrimSpace(string(ssh.MarshalAuthorizedKey(pk1)))
	ks.k["ssh-ed25519"] = &keyKit{idFile: p1, idFileOther: p2, rcpString: line, rcpFileLine: line, recipient: er, identity: ei}
	// ssh-rsa
	r1, _ := rsa.GenerateKey(rand.Reader, 2048)
	r2, _ := rsa.GenerateKey(rand.Reader, 2048)
	p1, pk1 = writeSSH(dir, "id_rsa", r1)
	p2, _ = writeSSH(dir, "id_rsa_other", r2)
	rr, _ := agessh.NewRSARecipient(pk1)
	ri, _ := agessh.NewRSAIdentity(r1)
	line = strings.TrimSpace(string(ssh.MarshalAuthorizedKey(pk1)))
	ks.k["ssh-rsa"] = &keyKit{idFile: p1, idFileOther: p2, rcpString: line, rcpFileLine: line, recipient: rr, identity: ri}
	// scrypt
	sr, _ := age.NewScryptRecipient(passphrase)
	sr.SetWorkFactor(10)
	si, _ := age.NewScryptIdentity(passphrase)
	ks.k["scrypt"] = &keyKit{recipient: sr, identity: si}
	return ks
}

func sizeOf(class int) int { return []int{0, 5, 131073}[class] }

func libEncrypt(r age.Recipient, pt []byte, armored bool) []byte {
	var buf bytes.Buffer
	var sink io.Writer = &buf
	var aw io.WriteCloser
	if armored {
		aw = armor.NewWriter(&buf)
		sink = aw
	}
	w, err := age.Encrypt(sink, r)
	if err != nil {
		vk.Infra("%v", err)
	}
	w.Write(pt)
	w.Close()
	if aw != nil {
		aw.Close()
	}
	return buf.Bytes()
}

func libDecrypt(id age.Identity, file []byte) ([]byte, error) {
	var in io.Reader = bytes.NewReader(file)
	if bytes.HasPrefix(file, []byte(armor.Header)) {
		in = armor.NewReader(in)
	}
	r, err := age.Decrypt(in, id)
	if err != nil {
		return nil, err
	}
	return io.ReadAll(r)
}

// damage applies the model's damage to a binary age file.
func damage(bin []byte, kind string, n int, rng *mrand.Rand) []byte {
	b := append([]byte{}, bin...)
	hdrEnd := bytes.Index(b, []byte("\n--- ")) + 1
	macEnd := hdrEnd + bytes.IndexByte(b[hdrEnd:], '\n') + 1
	switch kind {
	case "hdrbit":
		// a bit inside the first stanza's body line (keeps the header parseable most of the time; any refusal is fine)
		nl := bytes.IndexByte(b[22:], '\n') + 22
		pos := nl + 3
		if b[pos] == 'A' {
			b[pos] = 'B'
		} else {
			b[pos] = 'A'
		}
	case "mac":
		pos := hdrEnd + 10
		if b[pos] == 'A' {
			b[pos] = 'B'
		} else {
			b[pos] = 'A'
		}
	case "paybit_first":
		b[macEnd+16+2] ^= 0x10
	case "paybit_last":
		b[len(b)-20] ^= 0x10
	case "trunc":
		b = b[:len(b)-10]
	case "trunc_chunk":
		// exactly at a chunk boundary: after the first whole chunk if there is more than one, else right after the nonce
		cut := macEnd + 16
		if len(b) > cut+65536+16 {
			cut += 65536 + 16
		}
		b = b[:cut]
	case "garbage":
		b = make([]byte, 300)
		rng.Read(b)
	}
	return b
}

func rearmor(bin []byte) []byte {
	var buf bytes.Buffer
	aw := armor.NewWriter(&buf)
	aw.Write(bin)
	aw.Close()
	return buf.Bytes()
}

var runID int64

type outcome struct {
	exit     int
	stdout   []byte
	stderr   string
	outPath  string
	outBytes []byte
	outExist bool
	timedOut bool
}

func sig(c *cmdT) string {
	return fmt.Sprintf("%s/%s/%s/armor=%v/in=%s/size=%d/dmg=%s/out=%s/%s/%s/flag=%s", c.Op, c.Key, c.Keyarg, c.Armor, c.Input, c.Size, c.Damage, c.Out, c.Spelling, c.Limit, c.Flagerr)
}

var sizeMu sync.Mutex
var outSizes = map[string]int{}

// execute realises one model command in a scratch directory and runs the real binary.
func execute(ks *kits, ageBin string, c *cmdT, root string, limitBytes int) (*outcome, []byte, []byte) {
	id := atomic.AddInt64(&runID, 1)
	dir := filepath.Join(root, fmt.Sprintf("r%d", id))
	os.MkdirAll(filepath.Join(dir, "sub"), 0o755)
	os.WriteFile(filepath.Join(dir, "afile"), []byte("a regular file"), 0o644)
	kit := ks.k[c.Key]
	rng := mrand.New(mrand.NewSource(id))
	pt := make([]byte, sizeOf(c.Size))
	rng.Read(pt)
	// key files are copied into the run directory so that "same as key file" outputs are private to the run
	keyFile := ""
	var args []string
	copyIn := func(src, name string) string {
		b, err := os.ReadFile(src)
		if err != nil {
			vk.Infra("%v", err)
		}
		p := filepath.Join(dir, name)
		os.WriteFile(p, b, 0o600)
		if pub, err := os.ReadFile(src + ".pub"); err == nil {
			os.WriteFile(p+".pub", pub, 0o644)
		}
		return p
	}
	var input []byte
	var expectOut []byte // what a complete output is compared with (decrypt: the plaintext; encrypt: decrypts to pt)
	if c.Op == "enc" {
		input = pt
		switch {
		case c.Key == "scrypt":
			args = append(args, "-p")
		case c.Keyarg == "r":
			args = append(args, "-r", kit.rcpString)
		case c.Keyarg == "R":
			keyFile = filepath.Join(dir, "recipients.txt")
			os.WriteFile(keyFile, []byte("# recipients\n"+kit.rcpFileLine+"\n"), 0o644)
			args = append(args, "-R", "recipients.txt")
		case c.Keyarg == "ei":
			keyFile = copyIn(kit.idFile, "idfile")
			args = append(args, "-e", "-i", "idfile")
		}
		if c.Armor {
			args = append(args, "-a")
		}
	} else {
		bin := libEncrypt(kit.recipient, pt, false)
		bin = damage(bin, c.Damage, len(pt), rng)
		input = bin
		if c.Armor && c.Damage != "garbage" {
			input = rearmor(bin)
		}
		expectOut = pt
		args = append(args, "-d")
		if c.Key != "scrypt" {
			src := kit.idFile
			if c.Damage == "wrongkey" {
				src = kit.idFileOther
			}
			keyFile = copyIn(src, "idfile")
			args = append(args, "-i", "idfile")
		}
	}
	// invalid flag combinations of the synopsis (the operation of the model command is irrelevant for these)
	xr := ks.k["x25519"].rcpString
	switch c.Flagerr {
	case "e_and_d":
		args = []string{"-e", "-d", "-i", "idfile"}
		copyIn(ks.k["x25519"].idFile, "idfile")
	case "a_with_d":
		args = []string{"-d", "-a", "-i", "idfile"}
		copyIn(ks.k["x25519"].idFile, "idfile")
	case "p_with_d":
		args = []string{"-d", "-p"}
	case "r_with_d":
		args = []string{"-d", "-r", xr}
	case "i_without_e":
		args = []string{"-i", "idfile"}
		copyIn(ks.k["x25519"].idFile, "idfile")
	case "no_recipient":
		args = []string{"-a"}
	case "p_with_r":
		args = []string{"-p", "-r", xr}
	case "two_inputs":
		args = []string{"-r", xr}
	case "R_stdin":
		args = []string{"-R", "-"} // and the input comes from standard input too
	case "i_stdin":
		args = []string{"-d", "-i", "-"}
	}
	inName := "input.bin"
	inPath := filepath.Join(dir, inName)
	var stdin []byte
	switch c.Input {
	case "file":
		os.WriteFile(inPath, input, 0o644)
	case "pipe":
		stdin = input
	case "missing":
	}
	o := &outcome{}
	spell := func(p string) string {
		base := filepath.Base(p)
		switch c.Spelling {
		case "dot":
			return "./" + base
		case "dotdot":
			return "sub/../" + base
		case "abs":
			return p
		case "dslash":
			return ".//" + base
		}
		return base
	}
	var stdoutFile *os.File
	old := []byte("PRE-EXISTING CONTENT OF THE OUTPUT FILE\n")
	switch c.Out {
	case "stdout":
	case "new":
		o.outPath = filepath.Join(dir, "out.bin")
		args = append(args, "-o", "out.bin")
	case "existing":
		o.outPath = filepath.Join(dir, "out.bin")
		os.WriteFile(o.outPath, old, 0o644)
		args = append(args, "-o", "out.bin")
	case "missingdir":
		o.outPath = filepath.Join(dir, "nodir", "out.bin")
		args = append(args, "-o", "nodir/out.bin")
	case "underfile":
		o.outPath = filepath.Join(dir, "afile", "out.bin")
		args = append(args, "-o", "afile/out.bin")
	case "same_input":
		o.outPath = inPath
		args = append(args, "-o", spell(inPath))
	case "same_keyfile":
		o.outPath = keyFile
		args = append(args, "-o", spell(keyFile))
	case "tty":
		// no -o; standard output will be a terminal (script(1) below)
	case "tty_dash":
		args = append(args, "-o", "-")
	case "devnull":
		args = append(args, "-o", "/dev/null")
	case "fifo", "fifo_gone":
		o.outPath = filepath.Join(dir, "out.fifo")
		if err := syscall.Mkfifo(o.outPath, 0o600); err != nil {
			vk.Infra("mkfifo: %v", err)
		}
		args = append(args, "-o", "out.fifo")
	case "devfull_o":
		args = append(args, "-o", "/dev/full")
	case "devfull_stdout":
		stdoutFile, _ = os.OpenFile("/dev/full", os.O_WRONLY, 0)
	case "limit":
		o.outPath = filepath.Join(dir, "out.bin")
		args = append(args, "-o", "out.bin")
	}
	if c.Flagerr == "two_inputs" {
		args = append(args, inName, "second-input")
	} else if c.Input != "pipe" {
		args = append(args, inName)
	}
	var pre []byte
	var fifoDone chan []byte
	if c.Out == "fifo" || c.Out == "fifo_gone" {
		// somebody reads the FIFO; whatever arrives until the writer closes is the output
		fifoDone = make(chan []byte, 1)
		path := o.outPath
		late := id%2 == 0
		gone := c.Out == "fifo_gone"
		go func() {
			if late {
				// the reader attaches late: a writer that does not wait for it loses what it writes
				time.Sleep(250 * time.Millisecond)
			}
			f, err := os.OpenFile(path, os.O_RDONLY, 0)
			if err != nil {
				fifoDone <- nil
				return
			}
			var b []byte
			if gone {
				// the reader has seen enough after ten bytes and leaves
				b = make([]byte, 10)
				n, _ := io.ReadFull(f, b)
				b = b[:n]
			} else {
				b, _ = io.ReadAll(f)
			}
			f.Close()
			fifoDone <- b
		}()
	} else if o.outPath != "" {
		pre, _ = os.ReadFile(o.outPath)
	}
	bin := ageBin
	argv := args
	if c.Out == "limit" {
		argv = append([]string{fmt.Sprintf("--fsize=%d", limitBytes), "--", ageBin}, args...)
		bin = "prlimit"
	}
	if c.Key == "scrypt" && c.Flagerr == "none" {
		// a controlling terminal for the passphrase prompt; the passphrase(s) arrive on the pty
		q := make([]string, len(argv))
		for i, a := range argv {
			q[i] = "'" + a + "'"
		}
		cmdline := "'" + bin + "' " + strings.Join(q, " ")
		pw := passphrase
		if c.Damage == "wrongkey" {
			pw = "not-the-passphrase"
		}
		stdin = []byte(pw + "\n" + pw + "\n")
		bin, argv = "script", []string{"-qec", cmdline, "/dev/null"}
	}
	if (c.Out == "tty" || c.Out == "tty_dash") && c.Key != "scrypt" {
		// standard input, output and error of the command are a pseudo-terminal; what it prints comes back through script
		q := make([]string, len(argv))
		for i, a := range argv {
			q[i] = "'" + a + "'"
		}
		bin, argv = "script", []string{"-qec", "'" + bin + "' " + strings.Join(q, " "), "/dev/null"}
		stdin = []byte{}
	}
	p := runProc(dir, stdin, stdoutFile, bin, argv...)
	if stdoutFile != nil {
		stdoutFile.Close()
	}
	o.exit, o.stdout, o.stderr, o.timedOut = p.Exit, p.Stdout, string(p.Stderr), p.TimedOut
	if fifoDone != nil {
		// if the command never opened the FIFO the reader is still waiting for a writer (or has not even arrived yet):
		// be one, briefly, until the reader has seen end-of-file
		deadline := time.Now().Add(15 * time.Second)
	waitReader:
		for {
			if w, err := os.OpenFile(o.outPath, os.O_WRONLY|syscall.O_NONBLOCK, 0); err == nil {
				w.Close()
			}
			select {
			case b := <-fifoDone:
				o.outBytes, o.outExist = b, true
				break waitReader
			case <-time.After(20 * time.Millisecond):
				if time.Now().After(deadline) {
					vk.Infra("FIFO reader did not finish")
				}
			}
		}
	} else if o.outPath != "" {
		b, err := os.ReadFile(o.outPath)
		o.outExist = err == nil
		o.outBytes = b
	}
	os.RemoveAll(dir)
	if c.Op == "enc" {
		expectOut = pt
	}
	return o, expectOut, pre
}

func runProc(dir string, stdin []byte, stdout *os.File, bin string, args ...string) vk.Proc {
	if stdout == nil {
		return vk.RunProc(60*time.Second, dir, []string{"TERM=dumb"}, stdinOrEmpty(stdin), bin, args...)
	}
	return vk.RunProcTo(60*time.Second, dir, []string{"TERM=dumb"}, stdinOrEmpty(stdin), stdout, bin, args...)
}

func stdinOrEmpty(b []byte) []byte {
	if b == nil {
		return []byte{}
	}
	return b
}

// delivered: did the whole operation succeed and its complete result reach the output?
// fullLen: length of the complete output when known from a fault-free run (-1: unknown).
func delivered(ks *kits, c *cmdT, o *outcome, want []byte, fullLen int) bool {
	if c.Damage != "none" || c.Flagerr != "none" || c.Input == "missing" {
		return false // there is no result to deliver
	}
	var got []byte
	switch c.Out {
	case "stdout":
		got = o.stdout
	case "devfull_o", "devfull_stdout":
		// a full device takes nothing; only an empty result is "delivered" to it
		return c.Op == "dec" && len(want) == 0
	case "devnull":
		return true // it takes everything and shows nothing: the result reached it whenever there was one
	case "tty", "tty_dash":
		// what the terminal received, with the line discipline's CR LF undone
		seen := bytes.ReplaceAll(o.stdout, []byte("\r\n"), []byte("\n"))
		if c.Armor {
			i := bytes.Index(seen, []byte("-----BEGIN AGE ENCRYPTED FILE-----"))
			j := bytes.Index(seen, []byte("-----END AGE ENCRYPTED FILE-----"))
			if i < 0 || j < i {
				return false
			}
			pt, err := libDecrypt(ks.k[c.Key].identity, append(seen[i:j:j], []byte("-----END AGE ENCRYPTED FILE-----\n")...))
			return err == nil && bytes.Equal(pt, want)
		}
		// binary on a terminal cannot be recovered exactly (the line discipline rewrites LF); its presence is what counts
		return bytes.Contains(seen, []byte("age-encryption.org/v1"))
	case "same_input", "same_keyfile":
		return false
	default:
		if !o.outExist {
			return false
		}
		got = o.outBytes
	}
	if fullLen >= 0 && len(got) != fullLen {
		return false
	}
	if c.Op == "dec" {
		return bytes.Equal(got, want)
	}
	pt, err := libDecrypt(ks.k[c.Key].identity, got)
	return err == nil && bytes.Equal(pt, want)
}

func judge(run *vk.Run, ks *kits, cs *ccase, o *outcome, want, pre []byte, fullLen int) {
	c := &cs.Cmd
	s := sig(c)
	rp := map[string]interface{}{"check": "C15.cli", "cmd": c}
	run.Eval(1)
	if o.timedOut {
		run.Violation("C15:hang:"+s, "the command did not finish within 60 s", rp)
		return
	}
	if c.Key == "scrypt" && strings.Contains(o.stderr+string(o.stdout), "script:") && o.exit != 0 && !strings.Contains(string(o.stdout), "age:") {
		vk.Infra("pty wrapper failed: %s", o.stdout)
	}
	got := delivered(ks, c, o, want, fullLen)
	if (o.exit == 0) != got {
		detail := fmt.Sprintf("%s: exit status %d, complete result delivered: %v (stderr: %s)", s, o.exit, got, strings.TrimSpace(o.stderr))
		run.Violation("C15:exit-status:"+statusSig(c), detail, rp)
		return
	}
	headerRefusal := c.Op == "dec" && (c.Damage == "hdrbit" || c.Damage == "mac" || c.Damage == "wrongkey" || c.Damage == "garbage")
	if (headerRefusal || c.Flagerr != "none" || c.Input == "missing") && o.outPath != "" && c.Out != "limit" {
		if c.Out == "fifo" || c.Out == "fifo_gone" {
			if len(o.outBytes) > 0 {
				run.Violation("C15:output-created-on-refusal:"+statusSig(c), s+": decryption was refused at the header (or the command line was invalid) yet bytes were written to the -o FIFO", rp)
				return
			}
		} else if pre == nil && o.outExist {
			run.Violation("C15:output-created-on-refusal:"+statusSig(c), s+": decryption was refused at the header (or the command line was invalid) yet the -o file was created", rp)
			return
		}
		if pre != nil && !bytes.Equal(pre, o.outBytes) {
			run.Violation("C15:output-modified-on-refusal:"+statusSig(c), s+": decryption was refused at the header yet the existing -o file was modified", rp)
			return
		}
	}
	if c.Out == "same_input" || c.Out == "same_keyfile" {
		if o.exit == 0 || !bytes.Equal(pre, o.outBytes) {
			run.Violation("C15:same-file-not-refused:"+fmt.Sprintf("%s/%s/%s", c.Op, c.Out, c.Spelling), fmt.Sprintf("%s: exit %d, file changed: %v", s, o.exit, !bytes.Equal(pre, o.outBytes)), rp)
			return
		}
	}
	if c.Op == "dec" && o.exit != 0 && o.outExist && !headerRefusal && c.Out != "same_input" && c.Out != "same_keyfile" {
		if len(o.outBytes) > len(want) || !bytes.Equal(o.outBytes, want[:len(o.outBytes)]) {
			run.Violation("C15:partial-output-not-prefix:"+statusSig(c), s+": output left behind after a payload failure is not a prefix of the true plaintext", rp)
			return
		}
	}
	if (o.exit == 0) != cs.Exit0 {
		run.Drift("exit status %d differs from the model's expectation (exit0=%v) for %s", o.exit, cs.Exit0, s)
	}
}

func statusSig(c *cmdT) string {
	return fmt.Sprintf("%s/%s/size=%d/dmg=%s/out=%s/%s/flag=%s", c.Op, c.Key, c.Size, c.Damage, c.Out, c.Limit, c.Flagerr)
}

// Run is the C15 check.
func Run(tier string) {
	run := vk.NewRun("C15", tier, "model_checking")
	run.Rule("TLC (Cli.tla) runs the phases of main() (flags, same-file check, open input, keys, header, lazy open, copy, close) for every command in the enumerated space: {encrypt with -r/-R/-e -i/-p, decrypt with -i/passphrase} x {x25519, ssh-ed25519, ssh-rsa, scrypt} x armor x input {file, pipe, missing} x size {0, 5, 131073} x damage {none, header bit, MAC, first/last payload chunk, truncation, wrong key, garbage} x output {stdout, -o new/existing/missing directory/under a regular file, -o naming the input or a key file under 5 spellings, /dev/full as -o and as stdout, /dev/null, a FIFO with a reader, a terminal with and without -o -, size-limited at 5 positions} plus invalid flag combinations; it checks ExitZeroIffDelivered / HeaderRefusalLeavesOutputAlone / SameFileRefused on the machine and emits the expected exit class and output state; a covering stripe (all commands in thorough) is executed with the real binaries built from /repo (prlimit for size limits, script(1) for a controlling terminal), and exit status, output file state and content are judged; size limits at every byte offset for small outputs; age-keygen over {stdout, -o new, -o existing, -y file/stdin, bad input, extra arguments} x output faults. Distinct = command signature.")
	run.Assume("symlink/hard-link aliases of the age -o file (age-keygen: covered), terminal INPUT (bufferTerminalInput) and Windows paths are not generated; passphrase encryption runs are few (work factor 18 costs ~1 s each)")
	bin := vk.BuildCLI()
	ageBin := filepath.Join(bin, "age")
	root, err := os.MkdirTemp("", "c15-")
	if err != nil {
		vk.Infra("%v", err)
	}
	defer os.RemoveAll(root)
	ks := mkKits(root)
	cfg := "SPECIFICATION Spec\nCONSTANTS\n Sizes = {0, 1, 2}\n Tier = \"" + tier + "\"\nINVARIANTS ExitZeroIffDelivered HeaderRefusalLeavesOutputAlone RefusedBeforeOpen SameFileRefused Emit\nCHECK_DEADLOCK FALSE\n"
	res := run.TLC("commands", vk.TLCOpts{Module: "Cli", Config: cfg, Workers: 16})
	if res.Violated != "" || !res.OK {
		vk.Infra("Cli.tla: %s\n%s", res.Violated, res.Output)
	}
	lines := res.PrintsWithPrefix("CASE ")
	var cases, typed []ccase
	nScryptEnc := 0
	for i, l := range lines {
		var c ccase
		if err := json.Unmarshal([]byte(l), &c); err != nil {
			vk.Infra("bad CASE: %v", err)
		}
		if c.Cmd.Input == "tty" {
			typed = append(typed, c) // their own executor: the harness is the terminal
			continue
		}
		if c.Cmd.Key == "scrypt" && c.Cmd.Input != "file" {
			continue // the pty carries the passphrase; input must be a file
		}
		if c.Cmd.Op == "dec" && c.Cmd.Size == 0 && (c.Cmd.Out == "devfull_o" || c.Cmd.Out == "devfull_stdout") {
			continue // an empty result for a full device: whether that is "delivered" is not decided by the property
		}
		interesting := c.Cmd.Flagerr != "none" || c.Cmd.Input == "missing" || (c.Cmd.Size == 0 && c.Cmd.Out != "stdout" && c.Cmd.Out != "new")
		nonRegular := ((c.Cmd.Out == "devnull" || c.Cmd.Out == "fifo" || c.Cmd.Out == "fifo_gone") && c.Cmd.Key != "scrypt" && (i+int(run.Seed))%3 == 0) || c.Cmd.Out == "tty" || c.Cmd.Out == "tty_dash"
		if !run.Thorough() && !interesting && !nonRegular && (i+int(run.Seed))%7 != 0 {
			continue
		}
		if c.Cmd.Key == "scrypt" && c.Cmd.Op == "enc" {
			nScryptEnc++
			if nScryptEnc > run.Pick(3, 24) {
				continue
			}
		}
		cases = append(cases, c)
	}
	if len(cases) == 0 {
		vk.Infra("no commands")
	}
	vk.Parallel(len(cases), 16, func(i int) {
		cs := &cases[i]
		c := &cs.Cmd
		limit := 0
		fullLen := -1
		if c.Out == "limit" {
			// learn the size of the complete output from a fault-free run of the same command
			probe := *c
			probe.Out, probe.Limit = "new", "zero"
			k := sig(&probe)
			sizeMu.Lock()
			T, ok := outSizes[k]
			sizeMu.Unlock()
			if !ok {
				po, _, _ := execute(ks, ageBin, &probe, root, 0)
				T = len(po.outBytes)
				sizeMu.Lock()
				outSizes[k] = T
				sizeMu.Unlock()
			}
			fullLen = T
			limit = map[string]int{"zero": 0, "one": 1, "mid": T / 2, "lastbutone": T - 1, "exact": T}[c.Limit]
			if limit < 0 {
				limit = 0
			}
		}
		o, want, pre := execute(ks, ageBin, c, root, limit)
		judge(run, ks, cs, o, want, pre, fullLen)
		run.Distinct(sig(c))
	})
	run.Add("commands_from_tlc", len(lines))
	run.Add("commands_executed", len(cases))
	run.Sample(map[string]interface{}{"cmd": cases[len(cases)/2].Cmd, "model": map[string]interface{}{"exit0": cases[len(cases)/2].Exit0, "out": cases[len(cases)/2].Out}})
	everyOffset(run, ks, ageBin, root)
	keygen(run, filepath.Join(bin, "age-keygen"), root)
	typedInput(run, ks, ageBin, root, typed)
	identityFiles(run, ageBin, root)
	synopsis(run, ageBin, root)
	run.Finish()
}

// everyOffset: size-limited -o destinations at every byte offset, for small outputs.
func everyOffset(run *vk.Run, ks *kits, ageBin, root string) {
	base := []cmdT{
		{Op: "enc", Key: "x25519", Keyarg: "r", Armor: false, Input: "file", Size: 1, Damage: "none", Out: "limit", Spelling: "same", Flagerr: "none"},
		{Op: "enc", Key: "x25519", Keyarg: "r", Armor: true, Input: "pipe", Size: 1, Damage: "none", Out: "limit", Spelling: "same", Flagerr: "none"},
		{Op: "dec", Key: "x25519", Keyarg: "r", Armor: false, Input: "file", Size: 1, Damage: "none", Out: "limit", Spelling: "same", Flagerr: "none"},
		{Op: "dec", Key: "ssh-ed25519", Keyarg: "r", Armor: true, Input: "file", Size: 0, Damage: "none", Out: "limit", Spelling: "same", Flagerr: "none"},
	}
	n := 0
	for bi := range base {
		probe := base[bi]
		probe.Out = "new"
		po, _, _ := execute(ks, ageBin, &probe, root, 0)
		T := len(po.outBytes)
		step := 1
		if !run.Thorough() && T > 60 {
			step = T / 40
		}
		var ks2 []int
		for k := 0; k <= T; k += step {
			ks2 = append(ks2, k)
		}
		ks2 = append(ks2, T-1, T)
		b := base[bi]
		vk.Parallel(len(ks2), 16, func(i int) {
			if ks2[i] < 0 {
				return
			}
			c := b
			c.Limit = fmt.Sprintf("byte%d", ks2[i])
			o, want, pre := execute(ks, ageBin, &c, root, ks2[i])
			cs := &ccase{Cmd: c, Exit0: ks2[i] >= T}
			judge(run, ks, cs, o, want, pre, T)
			run.Distinct(sig(&c))
		})
		n += len(ks2)
	}
	run.Add("size_limit_offsets", n)
}

// keygen: age-keygen's exit status, no-overwrite and file mode.
func keygen(run *vk.Run, kg, root string) {
	dir := filepath.Join(root, "keygen")
	os.MkdirAll(dir, 0o755)
	x, _ := age.GenerateX25519Identity()
	idf := filepath.Join(dir, "in.key")
	os.WriteFile(idf, []byte("# c\n"+x.String()+"\n"), 0o600)
	full := func() *os.File { f, _ := os.OpenFile("/dev/full", os.O_WRONLY, 0); return f }
	check := func(name string, exit int, ok bool, detail string) {
		run.Eval(1)
		if (exit == 0) != ok {
			run.Violation("C15:keygen-exit-status:"+name, fmt.Sprintf("age-keygen %s: exit %d, complete result delivered: %v %s", name, exit, ok, detail), map[string]interface{}{"check": "C15.keygen", "case": name})
		}
		run.Distinct("keygen:" + name)
	}
	// generate to stdout
	p := vk.RunProc(20*time.Second, dir, nil, []byte{}, kg)
	ids, err := age.ParseIdentities(bytes.NewReader(p.Stdout))
	check("stdout", p.Exit, err == nil && len(ids) == 1, "")
	// stdout is a full device
	f := full()
	p = vk.RunProcTo(20*time.Second, dir, nil, []byte{}, f, kg)
	f.Close()
	check("stdout=/dev/full", p.Exit, false, strings.TrimSpace(string(p.Stderr)))
	// -o new: mode 0600, content complete
	out := filepath.Join(dir, "new.key")
	p = vk.RunProc(20*time.Second, dir, nil, []byte{}, kg, "-o", out)
	b, _ := os.ReadFile(out)
	ids, err = age.ParseIdentities(bytes.NewReader(b))
	check("-o new", p.Exit, err == nil && len(ids) == 1, "")
	if st, err := os.Stat(out); err == nil && st.Mode().Perm()&0o077 != 0 {
		run.Violation("C15:keygen-mode", fmt.Sprintf("key file created with mode %o", st.Mode().Perm()), nil)
	}
	// -o existing: refused, unchanged
	p = vk.RunProc(20*time.Second, dir, nil, []byte{}, kg, "-o", out)
	b2, _ := os.ReadFile(out)
	run.Eval(1)
	if p.Exit == 0 || !bytes.Equal(b, b2) {
		run.Violation("C15:keygen-overwrites", fmt.Sprintf("age-keygen -o <existing file>: exit %d, file changed: %v", p.Exit, !bytes.Equal(b, b2)), nil)
	}
	run.Distinct("keygen:-o existing")
	// -o names an existing file under other spellings and through links: never overwritten, never re-moded
	victim := filepath.Join(dir, "victim.key")
	orig := []byte("# an existing key file\nAGE-SECRET-KEY-1QQQQQQQQQQQQQQQQQQQQQQQQQQQQQQQQQQQQQQQQQQQQQQQQQQQQ9YC6E5\n")
	os.WriteFile(victim, orig, 0o644)
	os.Symlink("victim.key", filepath.Join(dir, "link.key"))
	os.Symlink(victim, filepath.Join(dir, "abslink.key"))
	os.Symlink("link.key", filepath.Join(dir, "link2.key"))
	os.Link(victim, filepath.Join(dir, "hard.key"))
	os.MkdirAll(filepath.Join(dir, "sub"), 0o755)
	for _, sp := range []string{"link.key", "abslink.key", "link2.key", "hard.key", "./victim.key", "sub/../victim.key", victim, dir + "//victim.key"} {
		p = vk.RunProc(20*time.Second, dir, nil, []byte{}, kg, "-o", sp)
		now, _ := os.ReadFile(victim)
		st, _ := os.Stat(victim)
		run.Eval(1)
		if p.Exit == 0 || !bytes.Equal(now, orig) || (st != nil && st.Mode().Perm() != 0o644) {
			run.Violation("C15:keygen-overwrites:"+short(sp), fmt.Sprintf("age-keygen -o %s (an existing file reached through a link or another spelling): exit %d, file changed: %v", sp, p.Exit, !bytes.Equal(now, orig)), map[string]interface{}{"check": "C15.keygen", "case": "-o " + sp})
			os.WriteFile(victim, orig, 0o644)
		}
		run.Distinct("keygen:-o existing via " + short(sp))
	}
	// an existing file is an existing file whatever it holds and whatever its mode: empty (touch, mktemp), one byte, a
	// key file; 0644, 0600, 0640; directly or through a link; with and without -y
	for ci, content := range [][]byte{{}, {'\n'}, orig} {
		for _, mode := range []os.FileMode{0o644, 0o600, 0o640} {
			for _, via := range []string{"direct", "link"} {
				for _, y := range []bool{false, true} {
					name := fmt.Sprintf("pre%d_%o.key", ci, mode)
					path := filepath.Join(dir, name)
					os.Remove(path)
					os.WriteFile(path, content, mode)
					os.Chmod(path, mode)
					target := name
					if via == "link" {
						target = "l_" + name
						os.Remove(filepath.Join(dir, target))
						os.Symlink(name, filepath.Join(dir, target))
					}
					args := []string{"-o", target}
					if y {
						args = []string{"-y", "-o", target, idf}
					}
					p = vk.RunProc(20*time.Second, dir, nil, []byte{}, kg, args...)
					now, _ := os.ReadFile(path)
					st, _ := os.Stat(path)
					run.Eval(1)
					label := fmt.Sprintf("%d bytes/mode %o/%s/y=%v", len(content), mode, via, y)
					if p.Exit == 0 || !bytes.Equal(now, content) || st == nil || st.Mode().Perm() != mode {
						run.Violation("C15:keygen-overwrites:existing "+label, fmt.Sprintf("age-keygen %s where the -o target exists (%s): exit %d, content changed: %v, now %d bytes", strings.Join(args[:len(args)-0], " "), label, p.Exit, !bytes.Equal(now, content), len(now)), map[string]interface{}{"check": "C15.keygen", "case": "existing " + label})
					}
					run.Distinct("keygen:existing " + label)
				}
			}
		}
	}
	// somebody else creates the -o target while age-keygen is running (its standard error is a pipe that is full, so
	// it stops at its first message until the pipe is drained): whoever was first owns the file; if that was the
	// other party, its content survives
	for round := 0; round < 2; round++ {
		target := filepath.Join(dir, fmt.Sprintf("raced%d.key", round))
		pr, pw, err := os.Pipe()
		if err != nil {
			vk.Infra("%v", err)
		}
		pfd := int(pw.Fd()) // (once: every call of Fd puts the descriptor back into blocking mode)
		syscall.SetNonblock(pfd, true)
		fill := make([]byte, 4096)
		for {
			if _, err := syscall.Write(pfd, fill); err != nil {
				break
			}
		}
		syscall.SetNonblock(pfd, false)
		cmd := exec.Command(kg, "-o", target)
		cmd.Dir = dir
		cmd.Stderr = pw
		if err := cmd.Start(); err != nil {
			vk.Infra("%v", err)
		}
		pw.Close()
		theirs := []byte("somebody else's file, created while age-keygen was running\n")
		weCreated := false
		for waited := 0; waited < 60; waited++ {
			time.Sleep(10 * time.Millisecond)
			if _, err := os.Lstat(target); err == nil {
				break // age-keygen has made the file its own already
			}
			if waited == 40 {
				if f, err := os.OpenFile(target, os.O_WRONLY|os.O_CREATE|os.O_EXCL, 0o644); err == nil {
					f.Write(theirs)
					f.Close()
					weCreated = true
				}
				break
			}
		}
		go io.Copy(io.Discard, pr)
		werr := cmd.Wait()
		pr.Close()
		run.Eval(1)
		if weCreated {
			now, _ := os.ReadFile(target)
			if !bytes.Equal(now, theirs) {
				run.Violation("C15:keygen-overwrites:created-meanwhile", fmt.Sprintf("age-keygen -o F: F was created by somebody else while age-keygen was running (before it had created anything); age-keygen (exit error: %v) replaced its content", werr), map[string]interface{}{"check": "C15.keygen", "case": "raced"})
			} else if werr == nil {
				run.Violation("C15:keygen-exit-status:created-meanwhile", "age-keygen -o F exits 0 although F belongs to somebody else and holds no key", map[string]interface{}{"check": "C15.keygen", "case": "raced"})
			}
		}
		run.Distinct(fmt.Sprintf("keygen:raced:%v", weCreated))
	}
	// a dangling symlink is not an existing file; whatever happens, a key file that appears must be owner-only
	os.Symlink("nowhere.key", filepath.Join(dir, "dangling.key"))
	p = vk.RunProc(20*time.Second, dir, nil, []byte{}, kg, "-o", "dangling.key")
	if st, err := os.Stat(filepath.Join(dir, "nowhere.key")); err == nil && st.Mode().Perm()&0o077 != 0 {
		run.Violation("C15:keygen-mode:dangling", fmt.Sprintf("key file created through a dangling symlink with mode %o", st.Mode().Perm()), nil)
	}
	run.Eval(1)
	// -o with a size limit at every offset
	T := len(b)
	for k := 0; k <= T; k += 7 {
		o2 := filepath.Join(dir, fmt.Sprintf("lim%d.key", k))
		p = vk.RunProc(20*time.Second, dir, nil, []byte{}, "prlimit", fmt.Sprintf("--fsize=%d", k), "--", kg, "-o", o2)
		bb, _ := os.ReadFile(o2)
		ids, err := age.ParseIdentities(bytes.NewReader(bb))
		complete := err == nil && len(ids) == 1 && bytes.HasSuffix(bb, []byte("\n")) && len(bb) >= T-2
		check(fmt.Sprintf("-o size-limited"), p.Exit, complete, fmt.Sprintf("(limit %d of %d bytes)", k, T))
	}
	// -y conversions
	p = vk.RunProc(20*time.Second, dir, nil, []byte{}, kg, "-y", idf)
	check("-y file", p.Exit, strings.TrimSpace(string(p.Stdout)) == x.Recipient().String(), "")
	p = vk.RunProc(20*time.Second, dir, nil, []byte(x.String()+"\n"), kg, "-y")
	check("-y stdin", p.Exit, strings.TrimSpace(string(p.Stdout)) == x.Recipient().String(), "")
	f = full()
	p = vk.RunProcTo(20*time.Second, dir, nil, []byte{}, f, kg, "-y", idf)
	f.Close()
	check("-y stdout=/dev/full", p.Exit, false, "")
	yo := filepath.Join(dir, "y.out")
	p = vk.RunProc(20*time.Second, dir, nil, []byte{}, kg, "-y", "-o", yo, idf)
	yb, _ := os.ReadFile(yo)
	check("-y -o new", p.Exit, strings.TrimSpace(string(yb)) == x.Recipient().String(), "")
	// -y -o naming an existing file (an unrelated file, the key file itself): never overwritten, whatever the mode
	for _, target := range []string{"victim.key", "in.key", "link.key"} {
		before, _ := os.ReadFile(filepath.Join(dir, target))
		p = vk.RunProc(20*time.Second, dir, nil, []byte{}, kg, "-y", "-o", target, idf)
		after, _ := os.ReadFile(filepath.Join(dir, target))
		run.Eval(1)
		if p.Exit == 0 || !bytes.Equal(before, after) {
			run.Violation("C15:keygen-overwrites:-y -o "+target, fmt.Sprintf("age-keygen -y -o %s (an existing file): exit %d, file changed: %v", target, p.Exit, !bytes.Equal(before, after)), map[string]interface{}{"check": "C15.keygen", "case": "-y -o " + target})
			os.WriteFile(filepath.Join(dir, target), before, 0o600)
		}
		run.Distinct("keygen:-y -o existing " + target)
	}
	p = vk.RunProc(20*time.Second, dir, nil, []byte{}, "prlimit", "--fsize=10", "--", kg, "-y", "-o", filepath.Join(dir, "y2.out"), idf)
	check("-y -o size-limited", p.Exit, false, "")
	p = vk.RunProc(20*time.Second, dir, nil, []byte("not a key\n"), kg, "-y")
	check("-y bad input", p.Exit, false, "")
	p = vk.RunProc(20*time.Second, dir, nil, []byte{}, kg, "extra")
	check("extra argument", p.Exit, false, "")
	p = vk.RunProc(20*time.Second, dir, nil, []byte{}, kg, "-y", idf, "extra")
	check("-y extra argument", p.Exit, false, "")
	p = vk.RunProc(20*time.Second, dir, nil, []byte{}, kg, "-o", filepath.Join(dir, "nodir", "k"))
	check("-o missing directory", p.Exit, false, "")
}

func short(s string) string {
	if len(s) > 12 {
		return s[len(s)-12:]
	}
	return s
}
