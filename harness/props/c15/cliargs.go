package c15

import (
	"bytes"
	"encoding/json"
	"fmt"
	"io"
	"os"
	"path/filepath"
	"strings"
	"time"

	"filippo.io/age"
	"filippo.io/age/armor"
	"filippo.io/age/xverif/internal/vk"
)

type argsCase struct {
	Flags struct {
		E  bool `json:"e"`
		D  bool `json:"d"`
		P  bool `json:"p"`
		A  bool `json:"a"`
		R1 bool `json:"r"`
		RF bool `json:"R"`
		I  bool `json:"i"`
		N  int  `json:"n"`
	} `json:"flags"`
	Verdict string          `json:"verdict"`
	Valid   bool            `json:"valid"`
	Openers map[string]bool `json:"openers"`
}

func (c *argsCase) sig() string {
	var fl []string
	for _, p := range []struct {
		on bool
		s  string
	}{{c.Flags.E, "e"}, {c.Flags.D, "d"}, {c.Flags.P, "p"}, {c.Flags.A, "a"}, {c.Flags.R1, "r"}, {c.Flags.RF, "R"}, {c.Flags.I, "i"}} {
		if p.on {
			fl = append(fl, p.s)
		}
	}
	return fmt.Sprintf("args:%s/flags=%s/inputs=%d", c.Verdict, strings.Join(fl, ""), c.Flags.N)
}

// synopsis: the flag table of the age command (CliArgs.tla): every combination of -e -d -p -a -r -R -i with 0, 1 or 2
// input arguments, in a seed-chosen order and spelling, with valid key material behind every flag, run with the real
// binary on a pseudo-terminal. Verdicts: status 0 exactly when the complete result was delivered (for an encryption:
// a file that every key and passphrase named on the command line opens); a refused command line creates no output.
func synopsis(run *vk.Run, ageBin, root string) {
	res := run.SpecMustHold("synopsis", vk.TLCOpts{Module: "CliArgs", Config: "SPECIFICATION Spec\nINVARIANT Emit\nCHECK_DEADLOCK FALSE\n", Workers: 4})
	lines := res.PrintsWithPrefix("CASE ")
	if len(lines) != 384 {
		vk.Infra("CliArgs printed %d rows, the table has 384", len(lines))
	}
	x1, _ := age.GenerateX25519Identity()
	x2, _ := age.GenerateX25519Identity()
	x3, _ := age.GenerateX25519Identity()
	const pw = "the passphrase on the terminal"
	plaintext := []byte("every combination of flags\n")
	opener := func(k string) age.Identity {
		switch k {
		case "x1":
			return x1
		case "x2":
			return x2
		case "x3":
			return x3
		}
		id, _ := age.NewScryptIdentity(pw)
		return id
	}
	mism := make([]int, len(lines))
	vk.Parallel(len(lines), 16, func(ci int) {
		var c argsCase
		if err := json.Unmarshal([]byte(lines[ci]), &c); err != nil {
			vk.Infra("bad CASE: %v", err)
		}
		wd := filepath.Join(root, fmt.Sprintf("args%d", ci))
		os.MkdirAll(wd, 0o755)
		defer os.RemoveAll(wd)
		os.WriteFile(filepath.Join(wd, "rcp.txt"), []byte("# recipients\n"+x2.Recipient().String()+"\n"), 0o644)
		os.WriteFile(filepath.Join(wd, "id.txt"), []byte("# identity\n"+x3.String()+"\n"), 0o600)
		long := (ci+int(run.Seed))%2 == 0
		sp := func(short, lng string) string {
			if long {
				return lng
			}
			return short
		}
		var groups [][]string
		if c.Flags.E {
			groups = append(groups, []string{sp("-e", "--encrypt")})
		}
		if c.Flags.D {
			groups = append(groups, []string{sp("-d", "--decrypt")})
		}
		if c.Flags.P {
			groups = append(groups, []string{sp("-p", "--passphrase")})
		}
		if c.Flags.A {
			groups = append(groups, []string{sp("-a", "--armor")})
		}
		if c.Flags.R1 {
			groups = append(groups, []string{sp("-r", "--recipient"), x1.Recipient().String()})
		}
		if c.Flags.RF {
			groups = append(groups, []string{sp("-R", "--recipients-file"), "rcp.txt"})
		}
		if c.Flags.I {
			groups = append(groups, []string{sp("-i", "--identity"), "id.txt"})
		}
		groups = append(groups, []string{sp("-o", "--output"), "out"})
		// a rotation of the flag order chosen by row and seed
		k := (ci*7 + int(run.Seed)) % len(groups)
		groups = append(groups[k:], groups[:k]...)
		var args []string
		for _, g := range groups {
			args = append(args, g...)
		}
		// the input
		var in []byte
		switch {
		case c.Flags.D && c.Flags.I:
			in = encryptFor(x3.Recipient(), plaintext, ci%2 == 0)
		case c.Flags.D:
			sr, _ := age.NewScryptRecipient(pw)
			sr.SetWorkFactor(10)
			in = encryptFor(sr, plaintext, ci%2 == 0)
		default:
			in = plaintext
		}
		os.WriteFile(filepath.Join(wd, "in"), in, 0o600)
		os.WriteFile(filepath.Join(wd, "in2"), in, 0o600)
		q := []string{"'" + ageBin + "'"}
		for _, a := range args {
			q = append(q, "'"+a+"'")
		}
		switch c.Flags.N {
		case 0:
			q = append(q, "< in")
		case 1:
			q = append(q, "in")
		default:
			q = append(q, "in", "in2")
		}
		p := vk.RunProc(90*time.Second, wd, []string{"TERM=dumb"}, []byte(pw+"\n"+pw+"\n"), "script", "-qec", strings.Join(q, " "), "/dev/null")
		run.Eval(1)
		s := c.sig()
		rp := map[string]interface{}{"check": "C15.args", "case": json.RawMessage(lines[ci]), "argv": args}
		if p.TimedOut {
			run.Violation("C15:hang:"+s, "the command did not finish within 90 s", rp)
			return
		}
		out, oerr := os.ReadFile(filepath.Join(wd, "out"))
		got := false
		armored := false
		if oerr == nil {
			if c.Flags.D {
				got = bytes.Equal(out, plaintext)
			} else {
				armored = bytes.HasPrefix(out, []byte(armor.Header))
				n := 0
				got = true
				for k, on := range c.Openers {
					if !on {
						continue
					}
					n++
					var rd io.Reader = bytes.NewReader(out)
					if armored {
						rd = armor.NewReader(rd)
					}
					r, err := age.Decrypt(rd, opener(k))
					if err != nil {
						got = false
						break
					}
					if b, err := io.ReadAll(r); err != nil || !bytes.Equal(b, plaintext) {
						got = false
					}
				}
				if n == 0 {
					got = false
				}
			}
		}
		if (p.Exit == 0) != got {
			run.Violation("C15:exit-status:"+s, fmt.Sprintf("age %s: exit status %d, complete result delivered (a file every key and passphrase named on the command line opens): %v (%s)", strings.Join(args, " "), p.Exit, got, tailOf(p.Stdout)), rp)
			return
		}
		if !c.Valid && oerr == nil && p.Exit != 0 {
			run.Violation("C15:output-created-on-refusal:"+s, fmt.Sprintf("age %s: the command line is not one of the synopsis (%s), the command failed, yet the -o file was created", strings.Join(args, " "), c.Verdict), rp)
			return
		}
		if (p.Exit == 0) != c.Valid || (p.Exit == 0 && !c.Flags.D && armored != c.Flags.A) {
			mism[ci] = 1
			run.Drift("synopsis: age %s: exit %d, armored output %v; CliArgs.tla says %s", strings.Join(args, " "), p.Exit, armored, c.Verdict)
		}
		run.Distinct(s)
	})
	n := 0
	for _, m := range mism {
		n += m
	}
	run.Add("synopsis_rows", len(lines))
	run.Add("synopsis_model_mismatches", n)
}
