package c15

import (
	"bytes"
	"encoding/json"
	"fmt"
	"io"
	"os"
	"path/filepath"
	"strings"
	"time"

	"filippo.io/age"
	"filippo.io/age/armor"
	"filippo.io/age/xverif/internal/vk"
)

// identCase is one behaviour of CliIdent.tla.
type identCase struct {
	Op        string   `json:"op"`
	Target    string   `json:"target"`
	Files     []string `json:"files"`
	Answers   []string `json:"answers"`
	Tty       bool     `json:"tty"`
	Exit0     bool     `json:"exit0"`
	Asked     int      `json:"asked"`
	Why       string   `json:"why"`
	Delivered bool     `json:"delivered"`
}

func (c *identCase) sig() string {
	a := strings.Join(c.Answers, ",")
	if !c.Tty {
		a = "no-terminal"
	}
	return fmt.Sprintf("ident:%s/%s/%s/%s", c.Op, c.Target, strings.Join(c.Files, ","), a)
}

func identCfg(maxFiles int, kinds []string, withNone bool) string {
	q := make([]string, len(kinds))
	for i, k := range kinds {
		q[i] = `"` + k + `"`
	}
	wn := "FALSE"
	if withNone {
		wn = "TRUE"
	}
	return fmt.Sprintf("SPECIFICATION FairSpec\nCONSTANTS\n MaxFiles = %d\n Kinds = {%s}\n WithNone = %s\nINVARIANTS ExitZeroIffDelivered OpenedOnlyByAMatch NoPromptBeforeParsing AsksBounded InOrder WrongAnswerIsFinal Emit\nPROPERTIES Terminates\nCHECK_DEADLOCK FALSE\n", maxFiles, strings.Join(q, ", "), wn)
}

func encryptFor(r age.Recipient, pt []byte, armored bool) []byte {
	var buf bytes.Buffer
	var sink io.Writer = &buf
	var aw io.WriteCloser
	if armored {
		aw = armor.NewWriter(&buf)
		sink = aw
	}
	w, err := age.Encrypt(sink, r)
	if err != nil {
		vk.Infra("%v", err)
	}
	w.Write(pt)
	w.Close()
	if aw != nil {
		aw.Close()
	}
	return buf.Bytes()
}

// identityFiles: the command line's identity files as a machine (CliIdent.tla): every list of up to MaxFiles identity
// files over the kinds (unencrypted, passphrase-encrypted, encrypted to a key, malformed, missing; holding the file's key
// or another) x every sequence of terminal answers x decryption and encryption, each run with the real binary on a
// pseudo-terminal. C15's predicate (status 0 exactly when the complete result was delivered) gives the verdict; the
// exit status, the number of passphrase prompts and the order of consultation the machine prescribes are compared too.
func identityFiles(run *vk.Run, ageBin, root string) {
	all := []string{"plain_m", "plain_o", "plain_bad", "enc_m", "enc_o", "enc_bad", "enc_key", "missing"}
	cfg := identCfg(2, all, true)
	if run.Thorough() {
		cfg = identCfg(3, all, false)
	}
	res := run.SpecMustHold("identity-files", vk.TLCOpts{Module: "CliIdent", Config: cfg, Workers: 8, Expect: []string{"Parse", "Reject", "Consult", "Resolve"}})
	lines := res.PrintsWithPrefix("CASE ")
	if len(lines) == 0 {
		vk.Infra("CliIdent printed no behaviours")
	}
	var cases []identCase
	for i, l := range lines {
		var c identCase
		if err := json.Unmarshal([]byte(l), &c); err != nil {
			vk.Infra("bad CASE: %v", err)
		}
		if !run.Thorough() && len(c.Files) > 1 && (i+int(run.Seed))%2 != 0 {
			continue // every single-file command, a stripe of the longer ones
		}
		cases = append(cases, c)
	}
	m, err := age.GenerateX25519Identity()
	if err != nil {
		vk.Infra("%v", err)
	}
	o, _ := age.GenerateX25519Identity()
	plaintext := []byte("identity files on the command line\n")
	textOf := func(kind string) string {
		switch kind {
		case "plain_m", "enc_m", "enc_key":
			return "# created: today\n" + m.String() + "\n"
		case "plain_o", "enc_o":
			return "# another key\n" + o.String() + "\n"
		}
		return m.String() + "\nthis line is not a key\n"
	}
	var mismatches, prompts int
	results := make([][2]int, len(cases))
	vk.Parallel(len(cases), 16, func(ci int) {
		c := &cases[ci]
		wd := filepath.Join(root, fmt.Sprintf("ident%d", ci))
		os.MkdirAll(wd, 0o755)
		defer os.RemoveAll(wd)
		var args []string
		if c.Op == "dec" {
			args = append(args, "-d")
		} else {
			args = append(args, "-e")
		}
		var pass []string // passphrase of the n-th asking file
		for j, k := range c.Files {
			name := fmt.Sprintf("id%d.txt", j+1)
			p := filepath.Join(wd, name)
			switch k {
			case "missing":
			case "plain_m", "plain_o", "plain_bad":
				os.WriteFile(p, []byte(textOf(k)), 0o600)
			case "enc_key":
				os.WriteFile(p, encryptFor(o.Recipient(), []byte(textOf(k)), (ci+j)%2 == 0), 0o600)
			default:
				pw := fmt.Sprintf("passphrase of file %d (%d)", j+1, ci)
				sr, err := age.NewScryptRecipient(pw)
				if err != nil {
					vk.Infra("%v", err)
				}
				sr.SetWorkFactor(10)
				os.WriteFile(p, encryptFor(sr, []byte(textOf(k)), (ci+j)%2 == 0), 0o600)
				pass = append(pass, pw)
			}
			args = append(args, "-i", name)
		}
		var stdin bytes.Buffer
		for n, a := range c.Answers {
			if a == "right" && n < len(pass) {
				stdin.WriteString(pass[n] + "\n")
			} else {
				stdin.WriteString("not the passphrase\n")
			}
		}
		if c.Op == "dec" {
			var in []byte
			if c.Target == "pass" {
				sr, _ := age.NewScryptRecipient("the file's own passphrase")
				sr.SetWorkFactor(10)
				in = encryptFor(sr, plaintext, false)
			} else {
				in = encryptFor(m.Recipient(), plaintext, ci%3 == 0)
			}
			os.WriteFile(filepath.Join(wd, "in.age"), in, 0o600)
			args = append(args, "-o", "out", "in.age")
		} else {
			os.WriteFile(filepath.Join(wd, "in.txt"), plaintext, 0o600)
			args = append(args, "-o", "out", "in.txt")
		}
		q := make([]string, len(args))
		for i, a := range args {
			q[i] = "'" + a + "'"
		}
		var p vk.Proc
		if c.Tty {
			p = vk.RunProc(60*time.Second, wd, []string{"TERM=dumb"}, stdin.Bytes(), "script", "-qec", "'"+ageBin+"' "+strings.Join(q, " "), "/dev/null")
		} else {
			// a session of its own without a controlling terminal: no prompt can be shown or answered
			p = vk.RunProc(60*time.Second, wd, []string{"TERM=dumb"}, []byte{}, "setsid", append([]string{"-w", ageBin}, args...)...)
			p.Stdout = append(p.Stdout, p.Stderr...)
		}
		run.Eval(1)
		s := c.sig()
		rp := map[string]interface{}{"check": "C15.ident", "case": json.RawMessage(mustJSON(c))}
		if p.TimedOut {
			run.Violation("C15:hang:"+s, "the command did not finish within 60 s", rp)
			return
		}
		out, oerr := os.ReadFile(filepath.Join(wd, "out"))
		asked := strings.Count(string(p.Stdout), "Enter passphrase for identity file")
		got := false
		if oerr == nil {
			if c.Op == "dec" {
				got = bytes.Equal(out, plaintext)
			} else {
				// a complete result: a file every key of the listed identity files opens
				got = true
				holders := map[string]*age.X25519Identity{}
				for _, k := range c.Files {
					switch k {
					case "plain_m", "enc_m":
						holders["m"] = m
					case "plain_o", "enc_o":
						holders["o"] = o
					}
				}
				if len(holders) == 0 {
					got = false
				}
				for _, id := range holders {
					var in io.Reader = bytes.NewReader(out)
					r, err := age.Decrypt(in, id)
					if err != nil {
						got = false
						break
					}
					b, err := io.ReadAll(r)
					if err != nil || !bytes.Equal(b, plaintext) {
						got = false
					}
				}
			}
		}
		if (p.Exit == 0) != got {
			run.Violation("C15:exit-status:"+s, fmt.Sprintf("%s: exit status %d, complete result delivered: %v (%s)", s, p.Exit, got, tailOf(p.Stdout)), rp)
			return
		}
		if c.Op == "dec" && oerr == nil && p.Exit != 0 && len(out) > 0 {
			run.Violation("C15:partial-output-not-prefix:"+s, s+": the command failed and left output behind", rp)
			return
		}
		if (p.Exit == 0) != c.Exit0 || (c.Tty && asked != c.Asked) {
			results[ci][0] = 1
			run.Drift("identity files: %s: exit %d and %d passphrase prompts; CliIdent.tla has exit0=%v, %d prompts (%s)", s, p.Exit, asked, c.Exit0, c.Asked, c.Why)
		}
		results[ci][1] = asked
		run.Distinct(s)
	})
	for _, r := range results {
		mismatches += r[0]
		prompts += r[1]
	}
	run.Add("identity_file_commands", len(cases))
	run.Add("identity_file_model_mismatches", mismatches)
	run.Add("identity_file_passphrase_prompts", prompts)
}

func mustJSON(v interface{}) string {
	b, _ := json.Marshal(v)
	return string(b)
}

func tailOf(b []byte) string {
	s := strings.TrimSpace(string(b))
	if len(s) > 200 {
		s = s[len(s)-200:]
	}
	return s
}
