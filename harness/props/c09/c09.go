// Package c09: key strings round-trip, are canonical, and typos are rejected.
package c09

import (
	"bytes"
	"encoding/hex"
	"encoding/json"
	"fmt"
	"math/rand"
	"os"
	"path/filepath"
	"strings"
	"sync/atomic"

	"filippo.io/age"
	"filippo.io/age/internal/bech32"
	"filippo.io/age/plugin"
	"filippo.io/age/xverif/internal/vk"
)

type gcase struct {
	Class string `json:"class"`
	Kind  string `json:"kind"`
	Input []int  `json:"input"`
	Ok    bool   `json:"ok"`
	Key   []int  `json:"key"`
	Name  []int  `json:"name"`
	Orig  bool   `json:"orig"`
	Base  []int  `json:"base"`
}

func cpString(cps []int) string {
	var b strings.Builder
	for _, c := range cps {
		b.WriteRune(rune(c))
	}
	return b.String()
}

type presult struct {
	ok      bool
	key     []byte
	name    string
	respell string
	pan     interface{}
	err     error
}

// ParseKind runs the real parser for one kind of key string.
func ParseKind(kind, s string) (r presult) {
	defer func() {
		if p := recover(); p != nil {
			r.pan = p
			r.ok = false
		}
	}()
	switch kind {
	case "R":
		x, err := age.ParseX25519Recipient(s)
		if err != nil {
			r.err = err
			return
		}
		r.ok = true
		r.respell = x.String()
		_, r.key, _ = bech32.Decode(r.respell)
	case "I":
		x, err := age.ParseX25519Identity(s)
		if err != nil {
			r.err = err
			return
		}
		r.ok = true
		r.respell = x.String()
		_, r.key, _ = bech32.Decode(r.respell)
	case "PR":
		name, data, err := plugin.ParseRecipient(s)
		if err != nil {
			r.err = err
			return
		}
		r.ok, r.name, r.key = true, name, data
		r.respell = plugin.EncodeRecipient(name, data)
	case "PI":
		name, data, err := plugin.ParseIdentity(s)
		if err != nil {
			r.err = err
			return
		}
		r.ok, r.name, r.key = true, name, data
		r.respell = plugin.EncodeIdentity(name, data)
	}
	return
}

// classes the property names explicitly as "is rejected"
func explicitReject(class string) bool {
	for _, p := range []string{"wrongcase", "mixedcase", "plugin_hrp", "plugin_native", "hrp_", "insert", "len", "padbits", "surplus", "space_in", "kelvin", "longs", "fullwidth", "doti", "sep_moved", "truncated", "extended", "empty", "only_sep", "no_sep", "short_data"} {
		if strings.HasPrefix(class, p) {
			return true
		}
	}
	return false
}

func rp(kind, s string) interface{} {
	return map[string]interface{}{"check": "C09.parse", "kind": kind, "input": s, "codepoints": []rune(s)}
}

func sigChar(c rune) string {
	if c > 126 || c < 33 {
		return fmt.Sprintf("U+%04X", c)
	}
	return string(c)
}

// CheckString evaluates the C09 predicates on one string. base: the valid string it was derived from ("" if none).
func CheckString(run *vk.Run, kind, s, base, class, sig string, specOK *bool) {
	r := ParseKind(kind, s)
	run.Eval(1)
	if r.pan != nil {
		run.Violation("C09:panic:"+sig, fmt.Sprintf("parsing %q panicked: %v", s, r.pan), rp(kind, s))
		return
	}
	if r.ok && r.respell != s {
		run.Violation("C09:second-spelling:"+sig, fmt.Sprintf("%q is accepted but the key it denotes is spelled %q", s, r.respell), rp(kind, s))
		return
	}
	if r.ok && base != "" && s != base && (kind == "R" || kind == "I") {
		run.Violation("C09:typo-accepted:"+sig, fmt.Sprintf("%q differs from the valid %q in a few characters and is accepted", s, base), rp(kind, s))
		return
	}
	if specOK == nil {
		return
	}
	if r.ok && !*specOK && (explicitReject(class) || strings.HasPrefix(class, "plugin")) {
		run.Violation("C09:explicit-class-accepted:"+sig, fmt.Sprintf("%q (class %s) must be rejected and is accepted", s, class), rp(kind, s))
		return
	}
	if !r.ok && *specOK {
		run.Violation("C09:rejects-canonical:"+sig, fmt.Sprintf("%q is the canonical spelling of a key and is rejected: %v", s, r.err), rp(kind, s))
		return
	}
	if r.ok != *specOK {
		run.Drift("verdict differs from specification (spec ok=%v, code ok=%v) for class %s", *specOK, r.ok, class)
	}
}

func intSet(xs []int) string {
	p := make([]string, len(xs))
	for i, x := range xs {
		p[i] = fmt.Sprint(x)
	}
	return "{" + strings.Join(p, ",") + "}"
}

var charset = "qpzry9x8gf2tvdw0s3jn54khce6mua7l"

// what gets inserted: ASCII blanks and controls, the Unicode blanks strings.TrimSpace knows, invisible characters, and
// characters of the alphabet itself
var insChars = []int{' ', '\t', '\n', '\r', 11, 12, 0, 0x85, 0xA0, 0x1680, 0x2000, 0x2028, 0x3000, 0xFEFF, 0x200B, 'q', 'p', 'Q', '1', '-'}

func genCfg(mode string, seed int64, sub []int, alpha []int, maxName int, invs string) string {
	return fmt.Sprintf(`SPECIFICATION Spec
CONSTANTS
 Mode = "%s"
 Seed = %d
 NShards = 16
 SubChars = %s
 NameAlphabet = %s
 MaxName = %d
 InsChars = %s
INVARIANTS %s
CHECK_DEADLOCK FALSE
`, mode, seed%200, intSet(sub), intSet(alpha), maxName, intSet(insChars), invs)
}

func runGen(run *vk.Run, what, cfg string) {
	res := run.TLC(what, vk.TLCOpts{Module: "Bech32Gen", Config: cfg, Workers: 16})
	if res.Violated != "" || !res.OK {
		vk.Infra("Bech32Gen %s: specification-level failure: %s\n%s", what, res.Violated, res.Output)
	}
	lines := res.PrintsWithPrefix("CASE ")
	if len(lines) == 0 {
		vk.Infra("Bech32Gen %s produced no cases", what)
	}
	cases := make([]gcase, len(lines))
	for i, l := range lines {
		if err := json.Unmarshal([]byte(l), &cases[i]); err != nil {
			vk.Infra("bad CASE: %v", err)
		}
	}
	bases := map[string]string{}
	for _, c := range cases {
		if c.Class == "subst" && c.Orig {
			bases[c.Kind] = cpString(c.Input)
		}
	}
	acc := 0
	vk.Parallel(len(cases), 16, func(i int) {
		c := &cases[i]
		s := cpString(c.Input)
		ok := c.Ok
		sig := c.Class
		base := ""
		if c.Class == "subst" {
			base = bases[c.Kind]
			if c.Orig {
				base = ""
			}
			// signature: kind + substituted character class (position-free, so one known finding covers one defect)
			for j, cp := range c.Input {
				if b := []rune(bases[c.Kind]); j < len(b) && rune(cp) != b[j] {
					sig = fmt.Sprintf("subst:%s:%s->%s", c.Kind, sigChar(b[j]), sigChar(rune(cp)))
				}
			}
		} else if c.Class == "insert" {
			base = cpString(c.Base)
			b := []rune(base)
			in := []rune(s)
			j := 0
			for j < len(b) && j < len(in) && in[j] == b[j] {
				j++
			}
			where := "inside"
			if j == 0 {
				where = "front"
			} else if j >= len(b) {
				where = "behind"
			}
			if j < len(in) {
				sig = fmt.Sprintf("insert:%s:%s:%s", c.Kind, where, sigChar(in[j]))
			}
		} else if strings.HasPrefix(c.Class, "plugin") {
			sig = c.Class + ":" + c.Kind + ":" + s
		}
		CheckString(run, c.Kind, s, base, c.Class, sig, &ok)
		run.Distinct(what + ":" + c.Kind + ":" + s)
	})
	for _, c := range cases {
		if c.Ok {
			acc++
		}
	}
	c := cases[len(cases)/2]
	run.Sample(map[string]interface{}{"generator": what, "class": c.Class, "kind": c.Kind, "input": cpString(c.Input), "spec_ok": c.Ok})
	run.Add("cases_"+what, len(cases))
	run.Add("accepted_by_spec_"+what, acc)
}

// Run is the C09 check.
func Run(tier string) {
	run := vk.NewRun("C09", tier, "model_checking")
	run.Rule("TLC (Bech32Gen over Bech32.tla) enumerates every single substitution of every position of the native recipient and identity strings of a seed-chosen key by charset characters, other ASCII, controls and Unicode case-folding confusables; valid-checksum semantic variants built at the 5-bit level (wrong HRP/case/length/padding/surplus group); plugin strings for every name over a class alphabet; each with the specification's verdict and OneSpelling checked. TLC evaluates the code-distance theorem Dist3 (quick) / Dist5 (thorough) of the checksum. Replayed into age.ParseX25519Recipient/Identity and plugin.ParseRecipient/Identity. Doubles (exhaustive in thorough), sampled triples/quadruples and random Encode calls are recorded and judged by TLC in oracle mode. Distinct = distinct input string.")
	run.Assume("the BIP-173 generator constants in Bech32.tla; binding of Dist5 to the code is by Encode equality on random (hrp, data) pairs and exhaustive/sampled rejection runs")
	seed := run.Seed
	sub := []int{}
	for _, c := range charset {
		sub = append(sub, int(c))
	}
	sub = append(sub, '1', 'b', 'i', 'o', 'A', 'Q', 'K', 'S', '-', ' ', 127, 0, 16, 18, 25, 10, 8490, 383, 304, 65345, 233, 0x80, 0xff)
	runGen(run, "subst", genCfg("subst", seed, sub, nil, 0, "Emit SubstRejected RoundTripKey"))
	runGen(run, "insert", genCfg("insert", seed, nil, nil, 0, "Emit InsertRejected"))
	runGen(run, "variants", genCfg("variants", seed, nil, nil, 0, "Emit"))
	alpha := []int{'a', 'Z', '7', '+', '-', '.', '_', '/', '\\', '!', '~', '%'}
	runGen(run, "plugin", genCfg("plugin", seed, nil, alpha, run.Pick(2, 3), "Emit"))

	// code distance theorem
	dcfg := "CONSTANT DoW34 = FALSE\n"
	if run.Thorough() {
		dcfg = "CONSTANT DoW34 = TRUE\n"
	}
	res := run.TLC("dist", vk.TLCOpts{Module: "Bech32Dist", Config: dcfg, Workers: 4, MaxSet: 4000000, Timeout: 0})
	d3 := res.PrintsWithPrefix("DIST3 ")
	if len(d3) != 1 || d3[0] != "TRUE" {
		vk.Infra("Dist3 does not hold for the specified code: %v\n%s", d3, res.Output)
	}
	run.Set("dist3_holds_on_spec", true)
	if run.Thorough() {
		d5 := res.PrintsWithPrefix("DIST5 ")
		if len(d5) != 1 || d5[0] != "TRUE" {
			vk.Infra("Dist5 does not hold for the specified code: %v\n%s", d5, res.Output)
		}
		run.Set("dist5_holds_on_spec", true)
	}
	rng := rand.New(rand.NewSource(seed))
	roundTrips(run, rng)
	multiSubst(run, rng)
	oracle(run, rng)
	run.Finish()
}

func randKey(rng *rand.Rand) []byte {
	k := make([]byte, 32)
	rng.Read(k)
	return k
}

func strings32(k []byte) (string, string) {
	r, _ := bech32.Encode("age", k)
	i, _ := bech32.Encode("AGE-SECRET-KEY-", k)
	return r, i
}

// roundTrips: printed strings parse back to the same key (library-only predicate).
func roundTrips(run *vk.Run, rng *rand.Rand) {
	keys := [][]byte{make([]byte, 32), bytesOf(0xff, 32)}
	for b := 0; b < 256; b += 17 {
		k := make([]byte, 32)
		k[b/8] = 1 << (b % 8)
		keys = append(keys, k)
	}
	// the values a curve implementation treats specially: 0, 1, the points of order 8, p-1, p, p+1 (p = 2^255-19), the
	// same with the top bit set, 2^255-1, 2^255
	for _, h := range []string{
		"0100000000000000000000000000000000000000000000000000000000000000",
		"e0eb7a7c3b41b8ae1656e3faf19fc46ada098deb9c32b1fd866205165f49b800",
		"5f9c95bca3508c24b1d0b1559c83ef5b04445cc4581c8e86d8224eddd09f1157",
		"ecffffffffffffffffffffffffffffffffffffffffffffffffffffffffffff7f",
		"edffffffffffffffffffffffffffffffffffffffffffffffffffffffffffff7f",
		"eeffffffffffffffffffffffffffffffffffffffffffffffffffffffffffff7f",
		"ecffffffffffffffffffffffffffffffffffffffffffffffffffffffffffffff",
		"edffffffffffffffffffffffffffffffffffffffffffffffffffffffffffffff",
		"ffffffffffffffffffffffffffffffffffffffffffffffffffffffffffffff7f",
		"0000000000000000000000000000000000000000000000000000000000000080",
		"0100000000000000000000000000000000000000000000000000000000000080",
	} {
		k, _ := hex.DecodeString(h)
		keys = append(keys, k)
	}
	n := run.Pick(2000, 20000)
	for i := 0; i < n; i++ {
		keys = append(keys, randKey(rng))
	}
	// every 32-byte value is a key with exactly one spelling, on the recipient side too (recipients need not be derived
	// from an identity: plugin.EncodeX25519Recipient prints any public key)
	for _, k := range keys {
		rs, _ := strings32(k)
		rr, err := age.ParseX25519Recipient(rs)
		run.Eval(1)
		if err != nil {
			run.Violation("C09:roundtrip:recipient-value", fmt.Sprintf("the recipient string %q of the 32-byte value %x does not parse: %v", rs, k, err), nil)
		} else if rr.String() != rs {
			run.Violation("C09:roundtrip:recipient-value", fmt.Sprintf("the recipient string %q of %x prints back as %q", rs, k, rr.String()), nil)
		}
	}
	for _, k := range keys {
		id, err := age.ParseX25519Identity(mustI(k))
		run.Eval(1)
		if err != nil {
			run.Violation("C09:roundtrip:identity", fmt.Sprintf("identity string of key %x does not parse: %v", k, err), nil)
			continue
		}
		if id.String() != mustI(k) {
			run.Violation("C09:roundtrip:identity-respell", fmt.Sprintf("identity %x prints as %q", k, id.String()), nil)
		}
		rs := id.Recipient().String()
		rr, err := age.ParseX25519Recipient(rs)
		if err != nil || rr.String() != rs {
			run.Violation("C09:roundtrip:recipient", fmt.Sprintf("recipient string %q does not parse back to itself: %v", rs, err), nil)
		}
	}
	// plugin names and payloads
	var kept []keptPayload
	names := []string{"a", "yubikey", "se", "x.y_z+w-1", "A", "Z9"}
	for _, nm := range names {
		for l := 0; l <= 40; l++ {
			data := make([]byte, l)
			rng.Read(data)
			s := plugin.EncodeRecipient(nm, data)
			n2, d2, err := plugin.ParseRecipient(s)
			kept = append(kept, keptPayload{s, append([]byte{}, data...), d2})
			run.Eval(1)
			if err != nil || n2 != strings.ToLower(nm) && n2 != nm || string(d2) != string(data) {
				run.Violation("C09:roundtrip:plugin-recipient", fmt.Sprintf("plugin recipient %q (name %q, %d bytes) parses to (%q, %x, %v)", s, nm, l, n2, d2, err), nil)
			}
			s = plugin.EncodeIdentity(nm, data)
			n2, d2, err = plugin.ParseIdentity(s)
			kept = append(kept, keptPayload{s, append([]byte{}, data...), d2})
			if err != nil || n2 != strings.ToLower(nm) || string(d2) != string(data) {
				run.Violation("C09:roundtrip:plugin-identity", fmt.Sprintf("plugin identity %q (name %q, %d bytes) parses to (%q, %x, %v)", s, nm, l, n2, d2, err), nil)
			}
		}
	}
	// what a parser returned is the caller's: later calls (accepted or refused) must not change it
	plugin.ParseRecipient("age1notaplugin1qqqqqqqqqqqqqqqqqqqqqqqqqqqqqqqq")
	age.ParseX25519Recipient(strings32First(keys))
	for _, k := range kept {
		if !bytes.Equal(k.got, k.want) {
			run.Violation("C09:roundtrip:payload-changes-after-return", fmt.Sprintf("the payload returned for %q was %x and reads %x after later parser calls", k.s, k.want, k.got), nil)
			break
		}
	}
	run.Add("roundtrip_keys", len(keys))
}

type keptPayload struct {
	s         string
	want, got []byte
}

func strings32First(keys [][]byte) string { r, _ := strings32(keys[0]); return r }

func bytesOf(b byte, n int) []byte {
	out := make([]byte, n)
	for i := range out {
		out[i] = b
	}
	return out
}

func mustI(k []byte) string { _, i := strings32(k); return i }

// multiSubst: two to four substitutions in the data part of valid native strings are never accepted.
func multiSubst(run *vk.Run, rng *rand.Rand) {
	k := randKey(rng)
	r, i := strings32(k)
	var accepted int64
	var evals int64
	for _, tc := range []struct{ kind, s string }{{"R", r}, {"I", i}} {
		b := []byte(tc.s)
		start := strings.LastIndex(tc.s, "1") + 1
		cs := charset
		if tc.kind == "I" {
			cs = strings.ToUpper(charset)
		}
		// doubles: exhaustive in thorough, a stripe of position pairs in quick
		var pairs [][2]int
		for p := start; p < len(b); p++ {
			for q := p + 1; q < len(b); q++ {
				if run.Thorough() || (p+q+int(run.Seed))%23 == 0 {
					pairs = append(pairs, [2]int{p, q})
				}
			}
		}
		vk.Parallel(len(pairs), 16, func(pi int) {
			p, q := pairs[pi][0], pairs[pi][1]
			m := append([]byte{}, b...)
			n := 0
			for x := 0; x < 32; x++ {
				if cs[x] == b[p] {
					continue
				}
				m[p] = cs[x]
				for y := 0; y < 32; y++ {
					if cs[y] == b[q] {
						continue
					}
					m[q] = cs[y]
					n++
					if res := ParseKind(tc.kind, string(m)); res.ok || res.pan != nil {
						atomic.AddInt64(&accepted, 1)
						CheckString(run, tc.kind, string(m), tc.s, "subst2", fmt.Sprintf("subst2:%s:%d,%d", tc.kind, p, q), nil)
					}
				}
			}
			atomic.AddInt64(&evals, int64(n))
		})
		run.Distinct("doubles:" + tc.kind)
		// triples and quadruples, sampled
		ns := run.Pick(100000, 1500000)
		for t := 0; t < ns; t++ {
			m := append([]byte{}, b...)
			w := 3 + t%2
			for j := 0; j < w; j++ {
				p := start + rng.Intn(len(b)-start)
				m[p] = cs[rng.Intn(32)]
			}
			if string(m) == tc.s {
				continue
			}
			evals++
			if res := ParseKind(tc.kind, string(m)); res.ok || res.pan != nil {
				accepted++
				CheckString(run, tc.kind, string(m), tc.s, "substN", fmt.Sprintf("subst%d:%s", w, tc.kind), nil)
			}
		}
		run.Distinct("multi:" + tc.kind)
	}
	run.Eval(int(evals))
	run.Add("multi_substitution_strings", int(evals))
	run.Add("multi_substitution_accepted", int(accepted))
}

type orec struct {
	Name  string `json:"name"`
	Kind  string `json:"kind"`
	Input []int  `json:"input"`
	Ok    bool   `json:"ok"`
	Key   []int  `json:"key"`
	Nm    []int  `json:"nm"`
	Hrp   []int  `json:"hrp"`
	Data  []int  `json:"data"`
}

func cps(s string) []int {
	out := []int{}
	for _, c := range s {
		out = append(out, int(c))
	}
	return out
}

func oracle(run *vk.Run, rng *rand.Rand) {
	var recs []interface{}
	type in struct{ kind, s, base string }
	var ins []in
	add := func(name, kind, s, base string) {
		r := ParseKind(kind, s)
		o := orec{Name: name, Kind: kind, Input: cps(s), Ok: r.ok, Key: vk.Ints(r.key), Nm: cps(r.name), Hrp: []int{}, Data: []int{}}
		recs = append(recs, o)
		ins = append(ins, in{kind, s, base})
	}
	n := run.Pick(300, 3000)
	for t := 0; t < n; t++ {
		k := randKey(rng)
		r, i := strings32(k)
		kind, s := "R", r
		if t%2 == 1 {
			kind, s = "I", i
		}
		b := []rune(s)
		switch t % 5 {
		case 0: // untouched
		case 1, 2: // k substitutions anywhere by arbitrary printable ASCII
			for j := 0; j <= t%4; j++ {
				b[rng.Intn(len(b))] = rune(33 + rng.Intn(94))
			}
		case 3: // case change of a run
			p := rng.Intn(len(b))
			for j := p; j < len(b) && j < p+5; j++ {
				if b[j] >= 'a' && b[j] <= 'z' {
					b[j] -= 32
				} else if b[j] >= 'A' && b[j] <= 'Z' {
					b[j] += 32
				}
			}
		case 4: // truncate / extend
			if rng.Intn(2) == 0 {
				b = b[:rng.Intn(len(b))]
			} else {
				b = append(b, rune(charset[rng.Intn(32)]))
			}
		}
		add(fmt.Sprintf("mut%d", t), kind, string(b), s)
	}
	// Encode binding: random (hrp, data) pairs through the library's encoder
	ne := run.Pick(300, 3000)
	for t := 0; t < ne; t++ {
		hl := 1 + rng.Intn(12)
		hrp := make([]byte, hl)
		upper := rng.Intn(2) == 0
		for j := range hrp {
			c := byte(33 + rng.Intn(94))
			if c >= 'a' && c <= 'z' && upper {
				c -= 32
			}
			if c >= 'A' && c <= 'Z' && !upper {
				c += 32
			}
			hrp[j] = c
		}
		data := make([]byte, rng.Intn(40))
		rng.Read(data)
		s, err := bech32.Encode(string(hrp), data)
		if err != nil {
			continue
		}
		recs = append(recs, orec{Name: fmt.Sprintf("enc%d", t), Kind: "ENC", Input: cps(s), Hrp: vk.Ints(hrp), Data: vk.Ints(data), Key: []int{}, Nm: []int{}})
		ins = append(ins, in{"ENC", s, ""})
	}
	// binding self-test: a valid string recorded as rejected must be singled out by TLC
	{
		r, _ := strings32(randKey(rng))
		recs = append(recs, orec{Name: "selftest-falsified", Kind: "R", Input: cps(r), Ok: false, Key: []int{}, Nm: []int{}, Hrp: []int{}, Data: []int{}})
	}
	selfIdx := len(recs)
	dir, err := os.MkdirTemp("", "c09o-")
	if err != nil {
		vk.Infra("%v", err)
	}
	defer os.RemoveAll(dir)
	path := filepath.Join(dir, "cases.ndjson")
	// TLC's record field is "name" for the plugin name as well; rename to avoid a clash with the record label
	var out []interface{}
	for _, r := range recs {
		o := r.(orec)
		out = append(out, map[string]interface{}{"name": o.Nm, "label": o.Name, "kind": o.Kind, "input": o.Input, "ok": o.Ok, "key": o.Key, "hrp": o.Hrp, "data": o.Data})
	}
	if err := vk.WriteNDJSON(path, out); err != nil {
		vk.Infra("%v", err)
	}
	cfg := genCfg("oracle", run.Seed, nil, nil, 0, "Judge")
	res := run.TLC("oracle", vk.TLCOpts{Module: "Bech32Gen", Config: cfg, Workers: 16, Env: map[string]string{"CASES": path}})
	if res.Violated != "" || !res.OK {
		vk.Infra("Bech32Gen oracle failed: %s\n%s", res.Violated, res.Output)
	}
	run.Traces(len(recs))
	bad := res.PrintsWithPrefix("BAD ")
	selfSeen := false
	for _, l := range bad {
		var v struct {
			I   int    `json:"i"`
			Why string `json:"why"`
		}
		if err := json.Unmarshal([]byte(l), &v); err == nil && v.I == selfIdx {
			selfSeen = true
			continue
		}
		if err := json.Unmarshal([]byte(l), &v); err != nil || v.I < 1 || v.I > len(ins) {
			vk.Infra("bad BAD line %q", l)
		}
		x := ins[v.I-1]
		if x.kind == "ENC" {
			// the library prints a string the specification's encoder does not: the code under test no longer
			// implements the checksum whose distance TLC established; reproduce by decoding it back
			run.Violation("C09:encode-differs", fmt.Sprintf("bech32.Encode output %q differs from the specified encoding", x.s), rp("ENC", x.s))
			continue
		}
		run.Drift("oracle disagreement (%s) on %q", v.Why, x.s)
	}
	for _, x := range ins {
		if x.kind != "ENC" {
			CheckString(run, x.kind, x.s, x.base, "oracle", "oracle:"+x.kind, nil)
		}
	}
	if !selfSeen {
		vk.Infra("binding self-test failed: the Bech32 oracle did not flag a falsified record")
	}
	run.Set("binding_selftest", "falsified record flagged by Bech32Gen oracle")
	run.Add("oracle_records", len(recs)-1)
	run.Add("oracle_disagreements", len(bad)-1)
}

// HostileStrings returns TLC-generated key strings (substitutions, variants, plugin names) for C14.
func HostileStrings(run *vk.Run) []string {
	sub := []int{'q', 'l', '1', 'b', 'A', 'K', ' ', 127, 0, 16, 10, 8490, 383, 304, 65345, 0x80, 0xff}
	var out []string
	for _, m := range []struct {
		mode string
		cfg  string
	}{{"subst", genCfg("subst", run.Seed, sub, nil, 0, "Emit")}, {"variants", genCfg("variants", run.Seed, nil, nil, 0, "Emit")},
		{"plugin", genCfg("plugin", run.Seed, nil, []int{'a', 'Z', '-', '.', '/', '\\', '!'}, 2, "Emit")}} {
		res := run.TLC("keystrings-"+m.mode, vk.TLCOpts{Module: "Bech32Gen", Config: m.cfg, Workers: 16})
		if res.Violated != "" || !res.OK {
			vk.Infra("Bech32Gen: %s\n%s", res.Violated, res.Output)
		}
		for _, l := range res.PrintsWithPrefix("CASE ") {
			var c gcase
			if json.Unmarshal([]byte(l), &c) == nil {
				out = append(out, cpString(c.Input))
			}
		}
	}
	return out
}
