// Package rd provides the delivery schedules (reader kinds) and write policies shared by the checks.
package rd

import (
	"bufio"
	"bytes"
	"io"
	"testing/iotest"
)

// Kinds of source delivery for the same byte string.
var Kinds = []string{"bytes", "bufio", "bufio16", "onebyte", "dataerr", "half", "zeronil", "chunk7"}

// SourceKinds adds buffered readers of sizes around bufio's minimum-adoption threshold (a callee that wraps its input
// in a bufio.Reader gets the caller's own reader back only if that one is large enough).
var SourceKinds = append(append([]string{}, Kinds...), "bufio512", "bufio4095", "bufio65536")

// ZeroNil returns (0, nil) on every other call.
type ZeroNil struct {
	R    io.Reader
	flip bool
}

func (z *ZeroNil) Read(p []byte) (int, error) {
	z.flip = !z.flip
	if z.flip {
		return 0, nil
	}
	return z.R.Read(p)
}

// Chunked delivers at most N bytes per call.
type Chunked struct {
	R io.Reader
	N int
}

func (c *Chunked) Read(p []byte) (int, error) {
	if len(p) > c.N {
		p = p[:c.N]
	}
	return c.R.Read(p)
}

// Plain hides every optional interface (WriterTo, ReaderFrom, ...) of the wrapped value.
type Plain struct{ R io.Reader }

func (p Plain) Read(b []byte) (int, error) { return p.R.Read(b) }

type PlainW struct{ W io.Writer }

func (p PlainW) Write(b []byte) (int, error) { return p.W.Write(b) }

func New(kind string, b []byte) io.Reader {
	switch kind {
	case "bytes":
		return bytes.NewReader(b)
	case "bufio":
		return bufio.NewReader(bytes.NewReader(b))
	case "bufio16":
		return bufio.NewReaderSize(bytes.NewReader(b), 16)
	case "bufio512":
		return bufio.NewReaderSize(bytes.NewReader(b), 512)
	case "bufio4095":
		return bufio.NewReaderSize(bytes.NewReader(b), 4095)
	case "bufio65536":
		return bufio.NewReaderSize(bytes.NewReader(b), 65536)
	case "onebyte":
		return iotest.OneByteReader(bytes.NewReader(b))
	case "dataerr":
		return iotest.DataErrReader(bytes.NewReader(b))
	case "half":
		return iotest.HalfReader(bytes.NewReader(b))
	case "zeronil":
		return &ZeroNil{R: bytes.NewReader(b)}
	case "chunk7":
		return &Chunked{R: bytes.NewReader(b), N: 7}
	}
	panic(kind)
}

// Counting counts bytes taken from the source.
type Counting struct {
	R io.Reader
	N int64
}

func (c *Counting) Read(p []byte) (int, error) {
	n, err := c.R.Read(p)
	c.N += int64(n)
	return n, err
}
