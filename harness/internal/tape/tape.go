// Package tape replaces crypto/rand.Reader by a recording tape: either a pass-through over the system CSPRNG
// (to observe what the library draws) or a deterministic stream (to make ciphertexts reproducible).
package tape

import (
	crand "crypto/rand"
	"io"
	mrand "math/rand"
	"sync"
)

type Tape struct {
	mu    sync.Mutex
	src   io.Reader
	Draws [][]byte
}

func (t *Tape) Read(p []byte) (int, error) {
	t.mu.Lock()
	defer t.mu.Unlock()
	n, err := io.ReadFull(t.src, p)
	t.Draws = append(t.Draws, append([]byte{}, p[:n]...))
	return n, err
}

// Sizes returns the sizes of the draws so far.
func (t *Tape) Sizes() []int {
	t.mu.Lock()
	defer t.mu.Unlock()
	out := make([]int, len(t.Draws))
	for i, d := range t.Draws {
		out[i] = len(d)
	}
	return out
}

var orig = crand.Reader

// Deterministic installs a tape fed by a seeded generator. The returned function restores the system reader.
func Deterministic(seed int64) (*Tape, func()) {
	t := &Tape{src: mrand.New(mrand.NewSource(seed))}
	crand.Reader = t
	return t, func() { crand.Reader = orig }
}

// Recording installs a pass-through tape over the real CSPRNG.
func Recording() (*Tape, func()) {
	t := &Tape{src: orig}
	crand.Reader = t
	return t, func() { crand.Reader = orig }
}

var mu sync.Mutex

// WithDeterministic runs f while a deterministic tape is installed; calls are serialised.
func WithDeterministic(seed int64, f func()) {
	mu.Lock()
	defer mu.Unlock()
	_, restore := Deterministic(seed)
	defer restore()
	f()
}

// WithRecording runs f while a recording pass-through tape is installed; calls are serialised.
func WithRecording(f func()) *Tape {
	mu.Lock()
	defer mu.Unlock()
	t, restore := Recording()
	defer restore()
	f()
	return t
}
