package vk

import (
	"encoding/json"
	"fmt"
	"os"
	"path/filepath"
	"sort"
	"strconv"
	"strings"
	"sync"
	"time"
)

// Run collects what one check run (one property, one tier) did.
type Run struct {
	Prop  string
	Tier  string
	Seed  int64
	Level string

	mu          sync.Mutex
	start       time.Time
	evals       int64
	states      int64
	transitions int64
	traces      int64
	distinct    map[string]struct{}
	distinctN   int64
	samples     []interface{}
	rule        []string
	assumptions []string
	extra       map[string]interface{}
	violations  int
	known       int
	tlcRuns     []map[string]interface{}
	seenViol    map[string]bool
	exhaustive  bool
	drift       []string
}

// Known findings file format.
type knownFile struct {
	Findings []struct {
		Property  string `json:"property"`
		ID        string `json:"id"`
		Signature string `json:"signature"`
		What      string `json:"what"`
	} `json:"findings"`
	Fixed []string `json:"fixed"`
}

var known knownFile
var knownLoaded bool

func loadKnown() {
	if knownLoaded {
		return
	}
	knownLoaded = true
	b, err := os.ReadFile(filepath.Join(VerifRoot(), "known_findings.json"))
	if err != nil {
		return
	}
	if err := json.Unmarshal(b, &known); err != nil {
		Infra("known_findings.json: %v", err)
	}
}

// NewRun starts a run. Seed comes from VERIF_SEED.
func NewRun(prop, tier, level string) *Run {
	seed := int64(1)
	if s := os.Getenv("VERIF_SEED"); s != "" {
		if v, err := strconv.ParseInt(s, 10, 64); err == nil {
			seed = v
		}
	}
	// watchdog: a check never waits for ever (a call into the code under test that does not return and is not under a
	// timeout of its own ends the run with "no verdict", not with a silent hang)
	limit := 25 * time.Minute
	if tier == "thorough" {
		limit = 5 * time.Hour
	}
	if m := os.Getenv("VERIF_WATCHDOG_MIN"); m != "" {
		if v, err := strconv.Atoi(m); err == nil && v > 0 {
			limit = time.Duration(v) * time.Minute
		}
	}
	go func() {
		time.Sleep(limit)
		Infra("the %s %s check did not finish within %v (a call into the code under test that never returns?)", prop, tier, limit)
	}()
	return &Run{Prop: prop, Tier: tier, Seed: seed, Level: level, start: time.Now(),
		distinct: map[string]struct{}{}, extra: map[string]interface{}{}, seenViol: map[string]bool{}}
}

func (r *Run) Thorough() bool { return r.Tier == "thorough" }

// Pick returns q in the quick tier and t in the thorough tier.
func (r *Run) Pick(q, t int) int {
	if r.Thorough() {
		return t
	}
	return q
}

// Eval counts n executions against the real code.
func (r *Run) Eval(n int) {
	r.mu.Lock()
	r.evals += int64(n)
	r.mu.Unlock()
}

// Distinct records a non-trivial case under a structural key; duplicates are not counted twice.
func (r *Run) Distinct(key string) {
	r.mu.Lock()
	if len(r.distinct) < 2_000_000 {
		if _, ok := r.distinct[key]; !ok {
			r.distinct[key] = struct{}{}
			r.distinctN++
		}
	}
	r.mu.Unlock()
}

// Sample keeps up to 8 samples per run.
func (r *Run) Sample(v interface{}) {
	r.mu.Lock()
	if len(r.samples) < 8 {
		r.samples = append(r.samples, v)
	}
	r.mu.Unlock()
}

func (r *Run) Rule(s string)   { r.mu.Lock(); r.rule = append(r.rule, s); r.mu.Unlock() }
func (r *Run) Assume(s string) { r.mu.Lock(); r.assumptions = append(r.assumptions, s); r.mu.Unlock() }
func (r *Run) Traces(n int)    { r.mu.Lock(); r.traces += int64(n); r.mu.Unlock() }
func (r *Run) Exhaustive()     { r.mu.Lock(); r.exhaustive = true; r.mu.Unlock() }
func (r *Run) Set(k string, v interface{}) {
	r.mu.Lock()
	r.extra[k] = v
	r.mu.Unlock()
}
func (r *Run) Add(k string, n int) {
	r.mu.Lock()
	if v, ok := r.extra[k].(int); ok {
		r.extra[k] = v + n
	} else {
		r.extra[k] = n
	}
	r.mu.Unlock()
}

// Drift records behaviour that differs from the implementation-shaped model without falsifying a property predicate.
func (r *Run) Drift(format string, a ...interface{}) {
	r.mu.Lock()
	if len(r.drift) < 20 {
		r.drift = append(r.drift, fmt.Sprintf(format, a...))
	}
	r.mu.Unlock()
}

// TLC records a TLC run in the evidence (states, transitions) and fails the run on a spec-level violation.
func (r *Run) TLC(what string, o TLCOpts) *TLCResult {
	if o.Timeout == 0 && r.Thorough() {
		o.Timeout = 30 * time.Minute // a loaded machine must not turn a long exploration into "no verdict"
	}
	res := MustTLC(o)
	r.mu.Lock()
	r.states += res.Distinct
	r.transitions += res.Generated
	r.tlcRuns = append(r.tlcRuns, map[string]interface{}{"what": what, "module": o.Module, "config": firstLine(o.Config),
		"generated": res.Generated, "distinct": res.Distinct, "depth": res.Depth, "wall_s": res.Wall.Seconds(), "ok": res.OK})
	r.mu.Unlock()
	return res
}

// SpecMustHold: a model-checking run whose invariants are properties of the specification itself.
// A violated invariant here is a defect of the model (or the design), never a verdict about the code: exit 2.
func (r *Run) SpecMustHold(what string, o TLCOpts) *TLCResult {
	res := r.TLC(what, o)
	if res.Violated != "" || !res.OK {
		Infra("specification check %q failed in TLC (%s): %s\n%s", what, o.Module, res.Violated, res.Output)
	}
	for _, a := range o.Expect {
		if c, ok := res.Coverage[a]; !ok || c[1] == 0 {
			Infra("vacuity: action %s was never taken in %q (coverage %v)", a, what, res.Coverage)
		}
	}
	if len(o.Expect) > 0 {
		r.mu.Lock()
		r.tlcRuns[len(r.tlcRuns)-1]["action_coverage"] = res.Coverage
		r.mu.Unlock()
	}
	return res
}

// Violation reports a property-level predicate that is false on an execution of the real code.
// sig is a structural signature used for known-findings matching and de-duplication; replay is stored on disk.
func (r *Run) Violation(sig string, detail string, replay interface{}) {
	loadKnown()
	r.mu.Lock()
	defer r.mu.Unlock()
	if r.seenViol[sig] {
		return
	}
	r.seenViol[sig] = true
	for _, k := range known.Findings {
		if k.Property == r.Prop && k.Signature == sig {
			fmt.Printf("KNOWN-FINDING: property=%s %s (%s)\n", r.Prop, k.What, k.ID)
			r.known++
			return
		}
	}
	r.violations++
	if len(r.samples) < 8 {
		r.samples = append(r.samples, map[string]interface{}{"violating_case": sig, "case": replay})
	}
	if r.violations > 25 {
		return
	}
	if r.violations == 25 {
		// enough to decide and to diagnose: stop here instead of waiting for every remaining case (hangs cost 20 s each)
		fmt.Printf("stopping after 25 distinct violations\n")
		defer func() { go r.Finish() }()
	}
	dir := filepath.Join(OutRoot(), "replays", r.Prop)
	os.MkdirAll(dir, 0o755)
	name := sanitize(sig)
	if len(name) > 80 {
		name = name[:80]
	}
	path := filepath.Join(dir, fmt.Sprintf("%s-%s.json", r.Tier, name))
	b, _ := json.MarshalIndent(map[string]interface{}{"property": r.Prop, "tier": r.Tier, "seed": r.Seed,
		"signature": sig, "detail": detail, "case": replay}, "", " ")
	os.WriteFile(path, b, 0o644)
	fmt.Printf("VIOLATION property=%s replay=%s\n", r.Prop, path)
	fmt.Printf("  signature: %s\n  detail: %s\n", sig, truncate(detail, 600))
}

func truncate(s string, n int) string {
	if len(s) > n {
		return s[:n] + "…"
	}
	return s
}

func sanitize(s string) string {
	var b strings.Builder
	for _, c := range s {
		if c >= 'a' && c <= 'z' || c >= 'A' && c <= 'Z' || c >= '0' && c <= '9' || c == '-' || c == '_' || c == '.' {
			b.WriteRune(c)
		} else {
			b.WriteByte('_')
		}
	}
	return b.String()
}

func (r *Run) Violations() int { r.mu.Lock(); defer r.mu.Unlock(); return r.violations }

// Finish writes the evidence file and exits with the verdict.
func (r *Run) Finish() {
	r.mu.Lock()
	cov := map[string]interface{}{
		"evaluations":                   r.evals,
		"distinct_nontrivial":           r.distinctN,
		"rule":                          strings.Join(r.rule, " | "),
		"samples":                       r.samples,
		"states":                        r.states,
		"transitions":                   r.transitions,
		"traces_validated_against_impl": r.traces,
		"tlc_runs":                      r.tlcRuns,
		"known_findings_hit":            r.known,
	}
	if r.exhaustive {
		cov["exhaustive"] = true
	}
	if len(r.drift) > 0 {
		cov["drift"] = r.drift
	}
	keys := make([]string, 0, len(r.extra))
	for k := range r.extra {
		keys = append(keys, k)
	}
	sort.Strings(keys)
	for _, k := range keys {
		cov[k] = r.extra[k]
	}
	if r.samples == nil {
		cov["samples"] = []interface{}{}
	}
	ev := map[string]interface{}{
		"property_id": r.Prop,
		"tier":        r.Tier,
		"seed":        r.Seed,
		"level":       r.Level,
		"coverage":    cov,
		"assumptions": r.assumptions,
		"wall_s":      time.Since(r.start).Seconds(),
		"violations":  r.violations,
	}
	if r.assumptions == nil {
		ev["assumptions"] = []string{}
	}
	v := r.violations
	r.mu.Unlock()
	b, err := json.MarshalIndent(ev, "", " ")
	if err != nil {
		Infra("evidence: %v", err)
	}
	dir := filepath.Join(OutRoot(), "evidence")
	os.MkdirAll(dir, 0o755)
	if err := os.WriteFile(filepath.Join(dir, r.Prop+".json"), append(b, '\n'), 0o644); err != nil {
		Infra("evidence: %v", err)
	}
	fmt.Printf("%s %s seed=%d: evaluations=%d distinct=%d states=%d traces=%d violations=%d known=%d wall=%.1fs\n",
		r.Prop, r.Tier, r.Seed, r.evals, r.distinctN, r.states, r.traces, v, r.known, time.Since(r.start).Seconds())
	if v > 0 {
		os.Exit(1)
	}
	os.Exit(0)
}

// Infra reports an infrastructure failure (never a verdict): exit 2.
func Infra(format string, a ...interface{}) {
	fmt.Fprintf(os.Stderr, "INFRASTRUCTURE ERROR (no verdict): "+format+"\n", a...)
	os.Exit(2)
}

// Parallel runs f(i) for i in [0,n) on up to w goroutines.
func Parallel(n, w int, f func(i int)) {
	if w <= 0 {
		w = 16
	}
	var wg sync.WaitGroup
	ch := make(chan int, 64)
	for k := 0; k < w; k++ {
		wg.Add(1)
		go func() {
			defer wg.Done()
			for i := range ch {
				f(i)
			}
		}()
	}
	for i := 0; i < n; i++ {
		ch <- i
	}
	close(ch)
	wg.Wait()
}

// OutRoot is where evidence/ and replays/ are written: the verification tree, unless VERIF_OUT names another directory
// (bin/selftest points it at a scratch directory so that runs against seeded changes never touch the committed evidence).
func OutRoot() string {
	if d := os.Getenv("VERIF_OUT"); d != "" {
		return d
	}
	return VerifRoot()
}
