// Package vk is the verification kit shared by all property checks: running
// TLC/Apalache, collecting evidence, reporting verdicts.
package vk

import (
	"bufio"
	"bytes"
	"context"
	"encoding/json"
	"fmt"
	"io"
	"os"
	"os/exec"
	"path/filepath"
	"regexp"
	"strconv"
	"strings"
	"time"
)

// VerifRoot is the root of the verification tree (/verif unless overridden).
func VerifRoot() string {
	if r := os.Getenv("VERIF_ROOT"); r != "" {
		return r
	}
	return "/verif"
}

// RepoRoot is the repository under test.
func RepoRoot() string {
	if r := os.Getenv("VERIF_REPO"); r != "" {
		return r
	}
	return "/repo"
}

const tlaJar = "/opt/veriftools/tla/tla2tools.jar:/opt/veriftools/tla/CommunityModules-deps.jar"

// TLCOpts describes one TLC run.
type TLCOpts struct {
	Module   string            // module name (file spec/<Module>.tla)
	Config   string            // cfg file name inside spec/ (e.g. "mc/Stream.cfg") or inline text if it contains a newline
	Workers  int               // default 8
	Timeout  time.Duration     // default 10 min (30 min in the thorough tier)
	Env      map[string]string // environment for IOEnv
	Simulate string            // e.g. "num=1000" => -simulate num=1000
	Depth    int
	Seed     int64
	Coverage bool
	ExtraArg []string
	Expect   []string // actions that must have been taken (generated > 0); implies Coverage
	Deadlock bool     // check deadlock (default off)
	MaxSet   int
	DFS      bool              // StateDeque queue (depth first)
	OnLine   func(line string) // called for every stdout line
}

// TLCResult is what we parse from TLC's output.
type TLCResult struct {
	Generated    int64
	Distinct     int64
	Depth        int
	OK           bool // "Model checking completed. No error has been found."
	Violated     string
	Prints       []string // unescaped strings printed by PrintT("...")
	Output       string   // tail of output
	CoverageZero []string
	Coverage     map[string][2]int64 // action -> (distinct, generated)
	Wall         time.Duration
	Cmd          string
}

var reStates = regexp.MustCompile(`^(\d+) states generated, (\d+) distinct states found`)
var reDepth = regexp.MustCompile(`depth of the complete state graph search is (\d+)`)
var reInv = regexp.MustCompile(`^Error: Invariant (\S+) is violated`)
var reCov0 = regexp.MustCompile(`^<(\w+) line .*>: 0:0$`)
var reCov = regexp.MustCompile(`^<(\w+) line \d+, col \d+ to line \d+, col \d+ of module \w+>: (\d+):(\d+)$`)

// UnquoteTLA turns a TLC-printed string literal into its value.
func UnquoteTLA(s string) (string, bool) {
	s = strings.TrimSpace(s)
	if len(s) < 2 || s[0] != '"' || s[len(s)-1] != '"' {
		return "", false
	}
	s = s[1 : len(s)-1]
	var b strings.Builder
	for i := 0; i < len(s); i++ {
		if s[i] == '\\' && i+1 < len(s) {
			i++
			switch s[i] {
			case 'n':
				b.WriteByte('\n')
			case 't':
				b.WriteByte('\t')
			default:
				b.WriteByte(s[i])
			}
			continue
		}
		b.WriteByte(s[i])
	}
	return b.String(), true
}

// RunTLC runs TLC in a private scratch copy of spec/.
func RunTLC(o TLCOpts) (*TLCResult, error) {
	if o.Workers == 0 {
		o.Workers = 8
	}
	if o.Timeout == 0 {
		o.Timeout = 10 * time.Minute

	}
	scratch, err := os.MkdirTemp("", "vtlc-")
	if err != nil {
		return nil, err
	}
	defer os.RemoveAll(scratch)
	specDir := filepath.Join(VerifRoot(), "spec")
	ents, err := os.ReadDir(specDir)
	if err != nil {
		return nil, err
	}
	for _, e := range ents {
		if e.IsDir() || !strings.HasSuffix(e.Name(), ".tla") {
			continue
		}
		b, err := os.ReadFile(filepath.Join(specDir, e.Name()))
		if err != nil {
			return nil, err
		}
		if err := os.WriteFile(filepath.Join(scratch, e.Name()), b, 0o644); err != nil {
			return nil, err
		}
	}
	cfgPath := filepath.Join(scratch, "run.cfg")
	if strings.Contains(o.Config, "\n") {
		if err := os.WriteFile(cfgPath, []byte(o.Config), 0o644); err != nil {
			return nil, err
		}
	} else {
		b, err := os.ReadFile(filepath.Join(specDir, o.Config))
		if err != nil {
			return nil, err
		}
		if err := os.WriteFile(cfgPath, b, 0o644); err != nil {
			return nil, err
		}
	}
	args := []string{"-XX:+UseParallelGC", "-Xss512m", "-Xmx12g"}
	if o.DFS {
		args = append(args, "-Dtlc2.tool.queue.IStateQueue=StateDeque")
	}
	args = append(args, "-cp", tlaJar, "tlc2.TLC",
		"-metadir", filepath.Join(scratch, "meta"),
		"-workers", strconv.Itoa(o.Workers),
		"-config", "run.cfg", "-noGenerateSpecTE")
	if !o.Deadlock {
		args = append(args, "-deadlock")
	}
	if o.Simulate != "" {
		args = append(args, "-simulate", o.Simulate)
		if o.Depth > 0 {
			args = append(args, "-depth", strconv.Itoa(o.Depth))
		}
		args = append(args, "-seed", strconv.FormatInt(o.Seed, 10))
	}
	if o.Coverage || len(o.Expect) > 0 {
		args = append(args, "-coverage", "1")
	}
	if o.MaxSet > 0 {
		args = append(args, "-maxSetSize", strconv.Itoa(o.MaxSet))
	}
	args = append(args, o.ExtraArg...)
	args = append(args, o.Module)
	ctx, cancel := context.WithTimeout(context.Background(), o.Timeout)
	defer cancel()
	cmd := exec.CommandContext(ctx, "java", args...)
	cmd.Dir = scratch
	cmd.Env = os.Environ()
	for k, v := range o.Env {
		cmd.Env = append(cmd.Env, k+"="+v)
	}
	stdout, err := cmd.StdoutPipe()
	if err != nil {
		return nil, err
	}
	var stderr bytes.Buffer
	cmd.Stderr = &stderr
	res := &TLCResult{Cmd: "tlc " + strings.Join(args[6:], " ")}
	start := time.Now()
	if err := cmd.Start(); err != nil {
		return nil, err
	}
	var tail []string
	sc := bufio.NewReaderSize(stdout, 1<<20)
	for {
		line, err := sc.ReadString('\n')
		if len(line) > 0 {
			line = strings.TrimRight(line, "\r\n")
			if o.OnLine != nil {
				o.OnLine(line)
			}
			if m := reStates.FindStringSubmatch(line); m != nil {
				res.Generated, _ = strconv.ParseInt(m[1], 10, 64)
				res.Distinct, _ = strconv.ParseInt(m[2], 10, 64)
			} else if m := reDepth.FindStringSubmatch(line); m != nil {
				res.Depth, _ = strconv.Atoi(m[1])
			} else if m := reInv.FindStringSubmatch(line); m != nil {
				res.Violated = m[1]
			} else if strings.HasPrefix(line, "Model checking completed. No error has been found.") {
				res.OK = true
			} else if strings.HasPrefix(line, "Error:") && res.Violated == "" {
				res.Violated = line
			} else if m := reCov.FindStringSubmatch(line); m != nil {
				if res.Coverage == nil {
					res.Coverage = map[string][2]int64{}
				}
				d, _ := strconv.ParseInt(m[2], 10, 64)
				g, _ := strconv.ParseInt(m[3], 10, 64)
				res.Coverage[m[1]] = [2]int64{d, g}
				if g == 0 {
					res.CoverageZero = append(res.CoverageZero, m[1])
				}
			} else if len(line) > 0 && line[0] == '"' {
				if s, ok := UnquoteTLA(line); ok {
					res.Prints = append(res.Prints, s)
					continue
				}
			}
			if len(line) < 2000 {
				tail = append(tail, line)
				if len(tail) > 80 {
					tail = tail[1:]
				}
			}
		}
		if err != nil {
			if err != io.EOF {
				return nil, err
			}
			break
		}
	}
	werr := cmd.Wait()
	res.Wall = time.Since(start)
	res.Output = strings.Join(tail, "\n")
	if ctx.Err() != nil {
		return res, fmt.Errorf("tlc timeout after %v (%s)", o.Timeout, o.Module)
	}
	if o.Simulate != "" && werr == nil {
		res.OK = res.Violated == ""
	}
	if werr != nil && res.Violated == "" && !res.OK {
		return res, fmt.Errorf("tlc failed: %v\n%s\n%s", werr, res.Output, stderr.String())
	}
	return res, nil
}

// MustTLC runs TLC and turns infrastructure failures into exit 2.
func MustTLC(o TLCOpts) *TLCResult {
	r, err := RunTLC(o)
	if err != nil {
		Infra("TLC %s/%s: %v", o.Module, firstLine(o.Config), err)
	}
	return r
}

func firstLine(s string) string {
	if i := strings.IndexByte(s, '\n'); i >= 0 {
		return "(inline cfg)"
	}
	return s
}

// PrintsWithPrefix returns the payloads of printed strings starting with prefix.
func (r *TLCResult) PrintsWithPrefix(prefix string) []string {
	var out []string
	for _, p := range r.Prints {
		if strings.HasPrefix(p, prefix) {
			out = append(out, strings.TrimPrefix(p, prefix))
		}
	}
	return out
}

// WriteNDJSON writes one JSON value per line.
func WriteNDJSON(path string, vals []interface{}) error {
	f, err := os.Create(path)
	if err != nil {
		return err
	}
	w := bufio.NewWriterSize(f, 1<<20)
	enc := json.NewEncoder(w)
	enc.SetEscapeHTML(false)
	for _, v := range vals {
		if err := enc.Encode(v); err != nil {
			return err
		}
	}
	if err := w.Flush(); err != nil {
		return err
	}
	return f.Close()
}

// Ints converts bytes to a JSON-friendly []int (never nil).
func Ints(b []byte) []int {
	out := make([]int, len(b))
	for i, c := range b {
		out[i] = int(c)
	}
	return out
}

// Bytes converts []int (from JSON) to bytes.
func Bytes(v []int) []byte {
	out := make([]byte, len(v))
	for i, c := range v {
		out[i] = byte(c)
	}
	return out
}

// RunApalache runs apalache-mc check with the given args in a scratch copy of spec/.
func RunApalache(module string, timeout time.Duration, args ...string) (string, bool, error) {
	scratch, err := os.MkdirTemp("", "vapa-")
	if err != nil {
		return "", false, err
	}
	defer os.RemoveAll(scratch)
	ents, err := os.ReadDir(filepath.Join(VerifRoot(), "spec"))
	if err != nil {
		return "", false, err
	}
	for _, e := range ents { // the module and whatever it extends
		if e.IsDir() || !strings.HasSuffix(e.Name(), ".tla") {
			continue
		}
		b, err := os.ReadFile(filepath.Join(VerifRoot(), "spec", e.Name()))
		if err != nil {
			return "", false, err
		}
		if err := os.WriteFile(filepath.Join(scratch, e.Name()), b, 0o644); err != nil {
			return "", false, err
		}
	}
	ctx, cancel := context.WithTimeout(context.Background(), timeout)
	defer cancel()
	a := append([]string{"check", "--out-dir=" + filepath.Join(scratch, "out"), "--run-dir=" + filepath.Join(scratch, "run")}, args...)
	a = append(a, module+".tla")
	cmd := exec.CommandContext(ctx, "apalache-mc", a...)
	cmd.Dir = scratch
	out, err := cmd.CombinedOutput()
	s := string(out)
	ok := strings.Contains(s, "The outcome is: NoError")
	if ctx.Err() != nil {
		return s, false, fmt.Errorf("apalache timeout")
	}
	if err != nil && !strings.Contains(s, "The outcome is:") {
		return s, false, err
	}
	return s, ok, nil
}
