package vk

import (
	"bytes"
	"context"
	"fmt"
	"syscall"
	"unsafe"
	"os"
	"os/exec"
	"path/filepath"
	"sync"
	"time"
)

var cliOnce sync.Once
var cliDir string

// BuildCLI builds cmd/age and cmd/age-keygen from the repository's working tree (hooks on) into a scratch
// directory (removed by bin/check at exit) and returns that directory.
func BuildCLI() string {
	cliOnce.Do(func() {
		dir := os.Getenv("VCHECK_BIN")
		if dir == "" {
			d, err := os.MkdirTemp("", "vcli-")
			if err != nil {
				Infra("%v", err)
			}
			dir = d
		}
		for _, c := range []string{"age", "age-keygen"} {
			cmd := exec.Command("go", "build", "-tags", "verif", "-o", filepath.Join(dir, c), "./cmd/"+c)
			cmd.Dir = RepoRoot()
			cmd.Env = append(os.Environ(), "GOFLAGS=-mod=mod", "GOPROXY=off", "GOSUMDB=off")
			if out, err := cmd.CombinedOutput(); err != nil {
				Infra("building %s from %s failed: %v\n%s", c, RepoRoot(), err, out)
			}
		}
		cliDir = dir
	})
	return cliDir
}

// Proc is the outcome of one process run.
type Proc struct {
	Exit     int
	Stdout   []byte
	Stderr   []byte
	TimedOut bool
}

// RunProc runs a binary with a time bound.
func RunProc(timeout time.Duration, dir string, env []string, stdin []byte, bin string, args ...string) Proc {
	ctx, cancel := context.WithTimeout(context.Background(), timeout)
	defer cancel()
	cmd := exec.CommandContext(ctx, bin, args...)
	cmd.Dir = dir
	cmd.Env = append(os.Environ(), env...)
	var so, se bytes.Buffer
	cmd.Stdout, cmd.Stderr = &so, &se
	if stdin != nil {
		cmd.Stdin = bytes.NewReader(stdin)
	}
	err := cmd.Run()
	p := Proc{Stdout: so.Bytes(), Stderr: se.Bytes()}
	if ctx.Err() != nil {
		p.TimedOut = true
		p.Exit = -1
		return p
	}
	if err != nil {
		if ee, ok := err.(*exec.ExitError); ok {
			p.Exit = ee.ExitCode()
		} else {
			p.Exit = -2
		}
	}
	return p
}

// RunProcTo is RunProc with stdout connected to the given file.
func RunProcTo(timeout time.Duration, dir string, env []string, stdin []byte, stdout *os.File, bin string, args ...string) Proc {
	ctx, cancel := context.WithTimeout(context.Background(), timeout)
	defer cancel()
	cmd := exec.CommandContext(ctx, bin, args...)
	cmd.Dir = dir
	cmd.Env = append(os.Environ(), env...)
	var se bytes.Buffer
	cmd.Stdout, cmd.Stderr = stdout, &se
	if stdin != nil {
		cmd.Stdin = bytes.NewReader(stdin)
	}
	err := cmd.Run()
	p := Proc{Stderr: se.Bytes()}
	if ctx.Err() != nil {
		p.TimedOut = true
		p.Exit = -1
		return p
	}
	if err != nil {
		if ee, ok := err.(*exec.ExitError); ok {
			p.Exit = ee.ExitCode()
		} else {
			p.Exit = -2
		}
	}
	return p
}

// RunOnPty runs a command whose standard input, output and error are one fresh pseudo-terminal (its controlling
// terminal, in the terminal's default line mode), types `typed` on it and returns everything the terminal showed
// (echo of the typing included) in Stdout.
func RunOnPty(timeout time.Duration, dir string, env []string, typed []byte, bin string, args ...string) Proc {
	m, err := os.OpenFile("/dev/ptmx", os.O_RDWR|syscall.O_NOCTTY, 0)
	if err != nil {
		Infra("pty: %v", err)
	}
	defer m.Close()
	var n uint32
	var unlock int32
	if _, _, e := syscall.Syscall(syscall.SYS_IOCTL, m.Fd(), syscall.TIOCGPTN, uintptr(unsafe.Pointer(&n))); e != 0 {
		Infra("pty: TIOCGPTN: %v", e)
	}
	if _, _, e := syscall.Syscall(syscall.SYS_IOCTL, m.Fd(), syscall.TIOCSPTLCK, uintptr(unsafe.Pointer(&unlock))); e != 0 {
		Infra("pty: TIOCSPTLCK: %v", e)
	}
	s, err := os.OpenFile(fmt.Sprintf("/dev/pts/%d", n), os.O_RDWR|syscall.O_NOCTTY, 0)
	if err != nil {
		Infra("pty: %v", err)
	}
	cmd := exec.Command(bin, args...)
	cmd.Dir = dir
	cmd.Env = append(os.Environ(), env...)
	cmd.Stdin, cmd.Stdout, cmd.Stderr = s, s, s
	cmd.SysProcAttr = &syscall.SysProcAttr{Setsid: true, Setctty: true, Ctty: 0}
	if err := cmd.Start(); err != nil {
		s.Close()
		Infra("pty: start %s: %v", bin, err)
	}
	s.Close()
	var out bytes.Buffer
	rd := make(chan struct{})
	go func() {
		buf := make([]byte, 4096)
		for {
			k, err := m.Read(buf)
			out.Write(buf[:k])
			if err != nil {
				break
			}
		}
		close(rd)
	}()
	m.Write(typed)
	done := make(chan error, 1)
	go func() { done <- cmd.Wait() }()
	var p Proc
	select {
	case err := <-done:
		if ee, ok := err.(*exec.ExitError); ok {
			p.Exit = ee.ExitCode()
		} else if err != nil {
			p.Exit = -1
		}
	case <-time.After(timeout):
		cmd.Process.Kill()
		<-done
		p.TimedOut = true
		p.Exit = -1
	}
	select {
	case <-rd:
	case <-time.After(2 * time.Second):
	}
	p.Stdout = append([]byte{}, out.Bytes()...)
	return p
}
