package vk

import (
	"bytes"
	"context"
	"os"
	"os/exec"
	"path/filepath"
	"sync"
	"time"
)

var cliOnce sync.Once
var cliDir string

// BuildCLI builds cmd/age and cmd/age-keygen from the repository's working tree (hooks on) into a scratch
// directory (removed by bin/check at exit) and returns that directory.
func BuildCLI() string {
	cliOnce.Do(func() {
		dir := os.Getenv("VCHECK_BIN")
		if dir == "" {
			d, err := os.MkdirTemp("", "vcli-")
			if err != nil {
				Infra("%v", err)
			}
			dir = d
		}
		for _, c := range []string{"age", "age-keygen"} {
			cmd := exec.Command("go", "build", "-tags", "verif", "-o", filepath.Join(dir, c), "./cmd/"+c)
			cmd.Dir = RepoRoot()
			cmd.Env = append(os.Environ(), "GOFLAGS=-mod=mod", "GOPROXY=off", "GOSUMDB=off")
			if out, err := cmd.CombinedOutput(); err != nil {
				Infra("building %s from %s failed: %v\n%s", c, RepoRoot(), err, out)
			}
		}
		cliDir = dir
	})
	return cliDir
}

// Proc is the outcome of one process run.
type Proc struct {
	Exit     int
	Stdout   []byte
	Stderr   []byte
	TimedOut bool
}

// RunProc runs a binary with a time bound.
func RunProc(timeout time.Duration, dir string, env []string, stdin []byte, bin string, args ...string) Proc {
	ctx, cancel := context.WithTimeout(context.Background(), timeout)
	defer cancel()
	cmd := exec.CommandContext(ctx, bin, args...)
	cmd.Dir = dir
	cmd.Env = append(os.Environ(), env...)
	var so, se bytes.Buffer
	cmd.Stdout, cmd.Stderr = &so, &se
	if stdin != nil {
		cmd.Stdin = bytes.NewReader(stdin)
	}
	err := cmd.Run()
	p := Proc{Stdout: so.Bytes(), Stderr: se.Bytes()}
	if ctx.Err() != nil {
		p.TimedOut = true
		p.Exit = -1
		return p
	}
	if err != nil {
		if ee, ok := err.(*exec.ExitError); ok {
			p.Exit = ee.ExitCode()
		} else {
			p.Exit = -2
		}
	}
	return p
}

// RunProcTo is RunProc with stdout connected to the given file.
func RunProcTo(timeout time.Duration, dir string, env []string, stdin []byte, stdout *os.File, bin string, args ...string) Proc {
	ctx, cancel := context.WithTimeout(context.Background(), timeout)
	defer cancel()
	cmd := exec.CommandContext(ctx, bin, args...)
	cmd.Dir = dir
	cmd.Env = append(os.Environ(), env...)
	var se bytes.Buffer
	cmd.Stdout, cmd.Stderr = stdout, &se
	if stdin != nil {
		cmd.Stdin = bytes.NewReader(stdin)
	}
	err := cmd.Run()
	p := Proc{Stderr: se.Bytes()}
	if ctx.Err() != nil {
		p.TimedOut = true
		p.Exit = -1
		return p
	}
	if err != nil {
		if ee, ok := err.(*exec.ExitError); ok {
			p.Exit = ee.ExitCode()
		} else {
			p.Exit = -2
		}
	}
	return p
}
