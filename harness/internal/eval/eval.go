// Package eval evaluates the format terms printed by TLC from spec/AgeFormat.tla into bytes.
// It knows the primitives (HKDF, HMAC, ChaCha20-Poly1305, X25519, scrypt, SHA-256, RSA-OAEP, base64) and the
// generic shape operations (concatenation, 64-column wrapping, chunked sealing with parameters taken from the
// term). Every label, salt order, nonce layout and line structure comes from the TLA+ text.
package eval

import (
	"bytes"
	"crypto/hmac"
	"crypto/rsa"
	"crypto/sha256"
	"encoding/base64"
	"encoding/json"
	"errors"
	"fmt"
	"io"
	"strconv"

	"filippo.io/edwards25519"
	"golang.org/x/crypto/chacha20poly1305"
	"golang.org/x/crypto/curve25519"
	"golang.org/x/crypto/hkdf"
	"golang.org/x/crypto/scrypt"
)

// Env binds atoms to values. RSA keys are bound in the side tables.
type Env struct {
	B       map[string][]byte
	RSAPub  map[string]*rsa.PublicKey
	RSAPriv map[string]*rsa.PrivateKey
	// OaepBodies: when evaluating an "oaep" term (randomised), the n-th use takes the n-th recorded body after
	// checking that it opens to the message under the term's label.
	OaepBodies [][]byte
	oaepNext   int
	oaepCache  map[string][]byte // the same stanza term occurs in the header and under the MAC
}

func NewEnv() *Env {
	return &Env{B: map[string][]byte{}, RSAPub: map[string]*rsa.PublicKey{}, RSAPriv: map[string]*rsa.PrivateKey{}}
}

type node map[string]json.RawMessage

func (n node) str(k string) string {
	var s string
	json.Unmarshal(n[k], &s)
	return s
}
func (n node) num(k string) int {
	var v int
	json.Unmarshal(n[k], &v)
	return v
}

// Eval evaluates a term.
func (e *Env) Eval(raw json.RawMessage) ([]byte, error) {
	var n node
	if err := json.Unmarshal(raw, &n); err != nil {
		return nil, fmt.Errorf("term: %v: %.60s", err, raw)
	}
	sub := func(k string) ([]byte, error) {
		r, ok := n[k]
		if !ok {
			return nil, fmt.Errorf("term %s lacks field %s", n.str("op"), k)
		}
		return e.Eval(r)
	}
	switch op := n.str("op"); op {
	case "str":
		return []byte(n.str("s")), nil
	case "cat":
		var parts []json.RawMessage
		if err := json.Unmarshal(n["parts"], &parts); err != nil {
			return nil, err
		}
		var out []byte
		for _, p := range parts {
			b, err := e.Eval(p)
			if err != nil {
				return nil, err
			}
			out = append(out, b...)
		}
		return out, nil
	case "atom":
		b, ok := e.B[n.str("name")]
		if !ok {
			return nil, fmt.Errorf("unbound atom %q", n.str("name"))
		}
		return b, nil
	case "zero":
		return make([]byte, n.num("n")), nil
	case "dec":
		// the number may itself be an atom (reading side)
		var v int
		if err := json.Unmarshal(n["n"], &v); err == nil {
			return []byte(strconv.Itoa(v)), nil
		}
		return sub("n")
	case "b64raw":
		x, err := sub("x")
		if err != nil {
			return nil, err
		}
		return []byte(base64.RawStdEncoding.EncodeToString(x)), nil
	case "wrap64":
		x, err := sub("x")
		if err != nil {
			return nil, err
		}
		var out []byte
		for len(x) >= 64 {
			out = append(out, x[:64]...)
			out = append(out, '\n')
			x = x[64:]
		}
		return append(out, x...), nil
	case "hkdf":
		ikm, err := sub("ikm")
		if err != nil {
			return nil, err
		}
		salt, err := sub("salt")
		if err != nil {
			return nil, err
		}
		info, err := sub("info")
		if err != nil {
			return nil, err
		}
		out := make([]byte, n.num("n"))
		if _, err := io.ReadFull(hkdf.New(sha256.New, ikm, salt, info), out); err != nil {
			return nil, err
		}
		return out, nil
	case "hmac":
		k, err := sub("k")
		if err != nil {
			return nil, err
		}
		m, err := sub("m")
		if err != nil {
			return nil, err
		}
		h := hmac.New(sha256.New, k)
		h.Write(m)
		return h.Sum(nil), nil
	case "aead", "aeadopen":
		k, err := sub("k")
		if err != nil {
			return nil, err
		}
		nonce, err := sub("nonce")
		if err != nil {
			return nil, err
		}
		a, err := chacha20poly1305.New(k)
		if err != nil {
			return nil, err
		}
		if op == "aead" {
			pt, err := sub("pt")
			if err != nil {
				return nil, err
			}
			return a.Seal(nil, nonce, pt, nil), nil
		}
		ct, err := sub("ct")
		if err != nil {
			return nil, err
		}
		return a.Open(nil, nonce, ct, nil)
	case "x25519":
		s, err := sub("s")
		if err != nil {
			return nil, err
		}
		p, err := sub("p")
		if err != nil {
			return nil, err
		}
		return curve25519.X25519(s, p)
	case "basepoint":
		return curve25519.Basepoint, nil
	case "scrypt":
		pw, err := sub("pw")
		if err != nil {
			return nil, err
		}
		salt, err := sub("salt")
		if err != nil {
			return nil, err
		}
		var logN int
		if err := json.Unmarshal(n["logN"], &logN); err != nil {
			b, err := sub("logN")
			if err != nil {
				return nil, err
			}
			logN, err = strconv.Atoi(string(b))
			if err != nil {
				return nil, err
			}
		}
		if logN < 1 || logN > 22 {
			return nil, fmt.Errorf("scrypt work factor %d outside the evaluator's range", logN)
		}
		return scrypt.Key(pw, salt, 1<<uint(logN), n.num("r"), n.num("p"), n.num("n"))
	case "sha256":
		x, err := sub("x")
		if err != nil {
			return nil, err
		}
		h := sha256.Sum256(x)
		return h[:], nil
	case "take":
		x, err := sub("x")
		if err != nil {
			return nil, err
		}
		return x[:n.num("n")], nil
	case "ed2mont":
		x, err := sub("x")
		if err != nil {
			return nil, err
		}
		p, err := new(edwards25519.Point).SetBytes(x)
		if err != nil {
			return nil, err
		}
		return p.BytesMontgomery(), nil
	case "oaep":
		msg, err := sub("msg")
		if err != nil {
			return nil, err
		}
		label, err := sub("label")
		if err != nil {
			return nil, err
		}
		var pubName struct{ Name string }
		json.Unmarshal(n["pub"], &pubName)
		if b, ok := e.oaepCache[string(raw)]; ok {
			return b, nil
		}
		if e.oaepNext >= len(e.OaepBodies) {
			return nil, errors.New("no recorded OAEP body to open")
		}
		body := e.OaepBodies[e.oaepNext]
		e.oaepNext++
		priv := e.RSAPriv[pubName.Name]
		if priv == nil {
			return nil, fmt.Errorf("no RSA private key for %q", pubName.Name)
		}
		got, err := rsa.DecryptOAEP(sha256.New(), nil, priv, body, label)
		if err != nil {
			return nil, fmt.Errorf("recorded ssh-rsa body does not open under the specified label: %v", err)
		}
		if !bytes.Equal(got, msg) {
			return nil, errors.New("recorded ssh-rsa body opens to something else than the file key")
		}
		if e.oaepCache == nil {
			e.oaepCache = map[string][]byte{}
		}
		e.oaepCache[string(raw)] = body
		return body, nil
	case "oaepopen":
		ct, err := sub("ct")
		if err != nil {
			return nil, err
		}
		label, err := sub("label")
		if err != nil {
			return nil, err
		}
		var privName struct{ Name string }
		json.Unmarshal(n["priv"], &privName)
		priv := e.RSAPriv[privName.Name]
		if priv == nil {
			return nil, fmt.Errorf("no RSA private key bound to %q", privName.Name)
		}
		return rsa.DecryptOAEP(sha256.New(), nil, priv, ct, label)
	case "stream":
		k, err := sub("k")
		if err != nil {
			return nil, err
		}
		pt, err := sub("pt")
		if err != nil {
			return nil, err
		}
		return sealStream(k, pt, n.num("chunk"), n.num("ctrBytes"), byte(n.num("finalFlag")))
	case "streamopen":
		k, err := sub("k")
		if err != nil {
			return nil, err
		}
		ct, err := sub("ct")
		if err != nil {
			return nil, err
		}
		return openStream(k, ct, n.num("chunk"), n.num("ctrBytes"), byte(n.num("finalFlag")), n.num("tag"))
	case "armor":
		x, err := sub("x")
		if err != nil {
			return nil, err
		}
		cols := n.num("cols")
		enc := base64.StdEncoding.EncodeToString(x)
		var out bytes.Buffer
		out.WriteString(n.str("begin") + "\n")
		for len(enc) > 0 {
			k := cols
			if k > len(enc) {
				k = len(enc)
			}
			out.WriteString(enc[:k] + "\n")
			enc = enc[k:]
		}
		out.WriteString(n.str("end") + "\n")
		return out.Bytes(), nil
	default:
		return nil, fmt.Errorf("unknown op %q", op)
	}
}

func nonceFor(ctr uint64, ctrBytes int, last bool, flag byte) []byte {
	n := make([]byte, ctrBytes+1)
	for i := ctrBytes - 1; i >= 0 && ctr > 0; i-- {
		n[i] = byte(ctr)
		ctr >>= 8
	}
	if last {
		n[ctrBytes] = flag
	}
	return n
}

func sealStream(key, pt []byte, chunk, ctrBytes int, flag byte) ([]byte, error) {
	a, err := chacha20poly1305.New(key)
	if err != nil {
		return nil, err
	}
	var out []byte
	var ctr uint64
	for {
		last := len(pt) <= chunk
		n := chunk
		if last {
			n = len(pt)
		}
		out = a.Seal(out, nonceFor(ctr, ctrBytes, last, flag), pt[:n], nil)
		pt = pt[n:]
		ctr++
		if last {
			return out, nil
		}
	}
}

func openStream(key, ct []byte, chunk, ctrBytes int, flag byte, tag int) ([]byte, error) {
	a, err := chacha20poly1305.New(key)
	if err != nil {
		return nil, err
	}
	var out []byte
	var ctr uint64
	for {
		if len(ct) == 0 {
			return nil, errors.New("reference decoder: payload ends without a final chunk")
		}
		n := chunk + tag
		last := len(ct) <= n
		if last {
			n = len(ct)
		}
		if last && ctr > 0 && n == tag {
			return nil, errors.New("reference decoder: empty final chunk")
		}
		pt, err := a.Open(nil, nonceFor(ctr, ctrBytes, last, flag), ct[:n], nil)
		if err != nil && !last && len(ct) == n {
			pt, err = a.Open(nil, nonceFor(ctr, ctrBytes, true, flag), ct[:n], nil)
			last = true
		}
		if err != nil {
			return nil, fmt.Errorf("reference decoder: chunk #%d does not authenticate", ctr)
		}
		out = append(out, pt...)
		ct = ct[n:]
		ctr++
		if last {
			if len(ct) != 0 {
				return nil, errors.New("reference decoder: trailing data")
			}
			return out, nil
		}
	}
}
