// Package vectors loads the CCTV age test vectors embedded in the module the
// repository already uses for its own tests.
package vectors

import (
	"bytes"
	"io/fs"
	"sort"
	"strings"

	agetest "c2sp.org/CCTV/age"
)

type Vector struct {
	Name        string
	Expect      string
	Armored     bool
	Identities  []string
	Passphrases []string
	PayloadHash string
	FileKey     string
	File        []byte
}

// All returns all vectors sorted by name.
func All() []Vector {
	var out []Vector
	ents, err := fs.ReadDir(agetest.Vectors, ".")
	if err != nil {
		panic(err)
	}
	for _, e := range ents {
		b, err := fs.ReadFile(agetest.Vectors, e.Name())
		if err != nil {
			panic(err)
		}
		v := Vector{Name: e.Name()}
		for {
			line, rest, ok := bytes.Cut(b, []byte("\n"))
			if !ok {
				break
			}
			b = rest
			if len(line) == 0 {
				break
			}
			k, val, _ := strings.Cut(string(line), ": ")
			switch k {
			case "expect":
				v.Expect = val
			case "armored":
				v.Armored = true
			case "identity":
				v.Identities = append(v.Identities, val)
			case "passphrase":
				v.Passphrases = append(v.Passphrases, val)
			case "payload":
				v.PayloadHash = val
			case "file key":
				v.FileKey = val
			}
		}
		v.File = b
		out = append(out, v)
	}
	sort.Slice(out, func(i, j int) bool { return out[i].Name < out[j].Name })
	return out
}
