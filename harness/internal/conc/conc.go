// Package conc runs operation mixes on shared recipient/identity values (C20).
package conc

import (
	"bytes"
	"crypto/ed25519"
	"crypto/rand"
	"crypto/rsa"
	"fmt"
	"io"
	"sync"

	"filippo.io/age"
	"filippo.io/age/agessh"
	"golang.org/x/crypto/ssh"
)

// Shared holds ONE recipient value and ONE identity value of a kind, used by every goroutine.
type Shared struct {
	Kind      string
	Recipient age.Recipient
	Identity  age.Identity
	Plain     []byte
	File      []byte // a file for Identity, made before the goroutines start
}

var rsaOnce sync.Once
var rsaKey *rsa.PrivateKey

func NewShared(kind string, n int) (*Shared, error) {
	s := &Shared{Kind: kind, Plain: make([]byte, n)}
	rand.Read(s.Plain)
	switch kind {
	case "x25519":
		id, err := age.GenerateX25519Identity()
		if err != nil {
			return nil, err
		}
		s.Identity, s.Recipient = id, id.Recipient()
	case "scrypt":
		r, _ := age.NewScryptRecipient("shared passphrase")
		r.SetWorkFactor(3)
		i, _ := age.NewScryptIdentity("shared passphrase")
		s.Identity, s.Recipient = i, r
	case "ssh-ed25519":
		_, priv, _ := ed25519.GenerateKey(rand.Reader)
		i, err := agessh.NewEd25519Identity(priv)
		if err != nil {
			return nil, err
		}
		s.Identity, s.Recipient = i, i.Recipient()
	case "ssh-ed25519-fresh-recipient":
		// a recipient value that has never been used before the goroutines start (lazy initialisation shows here)
		_, priv, _ := ed25519.GenerateKey(rand.Reader)
		i, err := agessh.NewEd25519Identity(priv)
		if err != nil {
			return nil, err
		}
		pk, _ := ssh.NewPublicKey(priv.Public())
		r, err := agessh.NewEd25519Recipient(pk)
		if err != nil {
			return nil, err
		}
		s.Identity, s.Recipient = i, r
		f, err := EncryptWith(i.Recipient(), s.Plain)
		if err != nil {
			return nil, err
		}
		s.File = f
		return s, nil
	case "ssh-rsa":
		rsaOnce.Do(func() { rsaKey, _ = rsa.GenerateKey(rand.Reader, 2048) })
		i, err := agessh.NewRSAIdentity(rsaKey)
		if err != nil {
			return nil, err
		}
		s.Identity, s.Recipient = i, i.Recipient()
	default:
		return nil, fmt.Errorf("kind %q", kind)
	}
	f, err := EncryptWith(s.Recipient, s.Plain)
	if err != nil {
		return nil, err
	}
	s.File = f
	return s, nil
}

func EncryptWith(r age.Recipient, pt []byte) ([]byte, error) {
	var buf bytes.Buffer
	w, err := age.Encrypt(&buf, r)
	if err != nil {
		return nil, err
	}
	if _, err := w.Write(pt); err != nil {
		return nil, err
	}
	if err := w.Close(); err != nil {
		return nil, err
	}
	return buf.Bytes(), nil
}

// Result of one operation; checked after all goroutines have finished.
type Result struct {
	Op   string
	File []byte // enc: the file produced
	Out  []byte // dec: the plaintext obtained
	Err  error
}

// Do runs one operation on the shared values.
func (s *Shared) Do(op string) Result {
	switch op {
	case "enc":
		f, err := EncryptWith(s.Recipient, s.Plain)
		return Result{Op: op, File: f, Err: err}
	default:
		r, err := age.Decrypt(bytes.NewReader(s.File), s.Identity)
		if err != nil {
			return Result{Op: op, Err: err}
		}
		b, err := io.ReadAll(r)
		return Result{Op: op, Out: b, Err: err}
	}
}

// Verify checks that a result is what the operation yields alone (sequentially, after the fact).
func (s *Shared) Verify(r Result) string {
	if r.Err != nil {
		return fmt.Sprintf("%s failed: %v", r.Op, r.Err)
	}
	if r.Op == "enc" {
		rd, err := age.Decrypt(bytes.NewReader(r.File), s.Identity)
		if err != nil {
			return fmt.Sprintf("a file produced concurrently does not decrypt: %v", err)
		}
		b, err := io.ReadAll(rd)
		if err != nil || !bytes.Equal(b, s.Plain) {
			return fmt.Sprintf("a file produced concurrently decrypts to something else (%v)", err)
		}
		return ""
	}
	if !bytes.Equal(r.Out, s.Plain) {
		return "concurrent decryption returned the wrong plaintext"
	}
	return ""
}
