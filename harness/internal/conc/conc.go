// Package conc runs operation mixes on shared recipient/identity values (C20).
package conc

import (
	"bytes"
	"crypto/ed25519"
	"crypto/rand"
	"crypto/rsa"
	"fmt"
	"io"
	"math/big"
	"sync"
	"sync/atomic"

	"filippo.io/age"
	"filippo.io/age/agessh"
	"golang.org/x/crypto/ssh"
)

// Shared holds ONE recipient value and ONE identity value of a kind, used by every goroutine.
type Shared struct {
	Kind      string
	Recipient age.Recipient
	Identity  age.Identity
	Plain     []byte
	File      []byte // a file for Identity, made before the goroutines start
	// Files/Plains: further files for the same identity with other plaintexts (for passphrases: other salts and work
	// factors), decrypted in rotation, so that a value remembered from one file is wrong for the next
	Files  [][]byte
	Plains [][]byte
	// IDs is ONE identity list shared by every goroutine and passed as ids...: a decoy of the same kind first, then Identity
	IDs  []age.Identity
	turn int64
}

var rsaOnce sync.Once
var rsaKey *rsa.PrivateKey

func NewShared(kind string, n int) (*Shared, error) {
	s := &Shared{Kind: kind, Plain: make([]byte, n)}
	rand.Read(s.Plain)
	switch kind {
	case "x25519":
		id, err := age.GenerateX25519Identity()
		if err != nil {
			return nil, err
		}
		s.Identity, s.Recipient = id, id.Recipient()
	case "scrypt":
		r, _ := age.NewScryptRecipient("shared passphrase")
		r.SetWorkFactor(3)
		i, _ := age.NewScryptIdentity("shared passphrase")
		s.Identity, s.Recipient = i, r
	case "ssh-ed25519":
		_, priv, _ := ed25519.GenerateKey(rand.Reader)
		i, err := agessh.NewEd25519Identity(priv)
		if err != nil {
			return nil, err
		}
		s.Identity, s.Recipient = i, i.Recipient()
	case "ssh-ed25519-fresh-recipient":
		// a recipient value that has never been used before the goroutines start (lazy initialisation shows here)
		_, priv, _ := ed25519.GenerateKey(rand.Reader)
		i, err := agessh.NewEd25519Identity(priv)
		if err != nil {
			return nil, err
		}
		pk, _ := ssh.NewPublicKey(priv.Public())
		r, err := agessh.NewEd25519Recipient(pk)
		if err != nil {
			return nil, err
		}
		s.Identity, s.Recipient = i, r
		f, err := EncryptWith(i.Recipient(), s.Plain)
		if err != nil {
			return nil, err
		}
		s.File = f
		return s, s.more(i.Recipient()) // the shared recipient value stays unused until the goroutines start
	case "ssh-rsa":
		rsaOnce.Do(func() { rsaKey, _ = rsa.GenerateKey(rand.Reader, 2048) })
		i, err := agessh.NewRSAIdentity(rsaKey)
		if err != nil {
			return nil, err
		}
		s.Identity, s.Recipient = i, i.Recipient()
	case "ssh-rsa-from-components":
		// a key value assembled from its numbers (what a caller holding a key in another form hands to NewRSAIdentity):
		// no precomputed values, and never used for a private-key operation before the goroutines start
		rsaOnce.Do(func() { rsaKey, _ = rsa.GenerateKey(rand.Reader, 2048) })
		k := &rsa.PrivateKey{PublicKey: rsa.PublicKey{N: new(big.Int).Set(rsaKey.N), E: rsaKey.E}, D: new(big.Int).Set(rsaKey.D)}
		for _, p := range rsaKey.Primes {
			k.Primes = append(k.Primes, new(big.Int).Set(p))
		}
		i, err := agessh.NewRSAIdentity(k)
		if err != nil {
			return nil, err
		}
		s.Identity, s.Recipient = i, i.Recipient()
	default:
		return nil, fmt.Errorf("kind %q", kind)
	}
	f, err := EncryptWith(s.Recipient, s.Plain)
	if err != nil {
		return nil, err
	}
	s.File = f
	return s, s.more(s.Recipient)
}

// more fills Files/Plains (encrypting to enc) and IDs.
func (s *Shared) more(enc age.Recipient) error {
	s.Files, s.Plains = [][]byte{s.File}, [][]byte{s.Plain}
	for k := 1; k <= 3; k++ {
		pt := append([]byte(fmt.Sprintf("other plaintext %d ", k)), s.Plain...)
		r := enc
		if s.Kind == "scrypt" {
			sr, _ := age.NewScryptRecipient("shared passphrase")
			sr.SetWorkFactor(k) // other work factors as well as other salts
			r = sr
		}
		f, err := EncryptWith(r, pt)
		if err != nil {
			return err
		}
		s.Files, s.Plains = append(s.Files, f), append(s.Plains, pt)
	}
	// files for several recipients in which this identity's stanza stands first, in the middle and last, among
	// one to four stanzas for other people (what an identity remembers about one header must not steer the next)
	if s.Kind != "scrypt" {
		for k := 0; k < 8; k++ {
			var rs []age.Recipient
			for j := 0; j < 1+k%4; j++ {
				o, err := age.GenerateX25519Identity()
				if err != nil {
					return err
				}
				rs = append(rs, o.Recipient())
			}
			at := (k * 3) % (len(rs) + 1)
			rs = append(rs[:at], append([]age.Recipient{enc}, rs[at:]...)...)
			pt := append([]byte(fmt.Sprintf("shared file %d ", k)), s.Plain...)
			var buf bytes.Buffer
			w, err := age.Encrypt(&buf, rs...)
			if err != nil {
				return err
			}
			w.Write(pt)
			if err := w.Close(); err != nil {
				return err
			}
			s.Files, s.Plains = append(s.Files, buf.Bytes()), append(s.Plains, pt)
		}
	}
	var decoy age.Identity
	switch s.Kind {
	case "x25519":
		d, err := age.GenerateX25519Identity()
		if err != nil {
			return err
		}
		decoy = d
	case "scrypt":
		d, _ := age.NewScryptIdentity("not the shared passphrase")
		decoy = d
	case "ssh-rsa":
		rsaDecoyOnce.Do(func() { rsaDecoy, _ = rsa.GenerateKey(rand.Reader, 2048) })
		d, err := agessh.NewRSAIdentity(rsaDecoy)
		if err != nil {
			return err
		}
		decoy = d
	default:
		_, priv, _ := ed25519.GenerateKey(rand.Reader)
		d, err := agessh.NewEd25519Identity(priv)
		if err != nil {
			return err
		}
		decoy = d
	}
	s.IDs = []age.Identity{decoy, s.Identity}
	return nil
}

var rsaDecoyOnce sync.Once
var rsaDecoy *rsa.PrivateKey

func EncryptWith(r age.Recipient, pt []byte) ([]byte, error) {
	var buf bytes.Buffer
	w, err := age.Encrypt(&buf, r)
	if err != nil {
		return nil, err
	}
	if _, err := w.Write(pt); err != nil {
		return nil, err
	}
	if err := w.Close(); err != nil {
		return nil, err
	}
	return buf.Bytes(), nil
}

// Result of one operation; checked after all goroutines have finished.
type Result struct {
	Op   string
	Idx  int    // dec: which of Files was decrypted
	File []byte // enc: the file produced
	Out  []byte // dec: the plaintext obtained
	Err  error
}

// Do runs one operation on the shared values.
func (s *Shared) Do(op string) Result {
	switch op {
	case "enc":
		f, err := EncryptWith(s.Recipient, s.Plain)
		return Result{Op: op, File: f, Err: err}
	default:
		// files in rotation; alternately the identity alone and the shared identity list (decoy first)
		t := int(atomic.AddInt64(&s.turn, 1))
		idx := t % len(s.Files)
		var r io.Reader
		var err error
		if (t/len(s.Files))%2 == 0 {
			r, err = age.Decrypt(bytes.NewReader(s.Files[idx]), s.Identity)
		} else {
			r, err = age.Decrypt(bytes.NewReader(s.Files[idx]), s.IDs...)
		}
		if err != nil {
			return Result{Op: op, Idx: idx, Err: err}
		}
		b, err := io.ReadAll(r)
		if err == nil && t%3 == 0 {
			// a caller that asks once more after the end (legal; buffered wrappers do it): still the end, nothing else
			var one [16]byte
			if n, e := r.Read(one[:]); n != 0 || e != io.EOF {
				err = fmt.Errorf("Read after the end of the stream returned (%d, %v)", n, e)
			}
		}
		return Result{Op: op, Idx: idx, Out: b, Err: err}
	}
}

// Verify checks that a result is what the operation yields alone (sequentially, after the fact).
func (s *Shared) Verify(r Result) string {
	if r.Err != nil {
		return fmt.Sprintf("%s failed: %v", r.Op, r.Err)
	}
	if r.Op == "enc" {
		rd, err := age.Decrypt(bytes.NewReader(r.File), s.Identity)
		if err != nil {
			return fmt.Sprintf("a file produced concurrently does not decrypt: %v", err)
		}
		b, err := io.ReadAll(rd)
		if err != nil || !bytes.Equal(b, s.Plain) {
			return fmt.Sprintf("a file produced concurrently decrypts to something else (%v)", err)
		}
		return ""
	}
	if !bytes.Equal(r.Out, s.Plains[r.Idx]) {
		return "concurrent decryption returned the wrong plaintext"
	}
	if len(s.IDs) == 2 && s.IDs[1] != s.Identity {
		return "the shared identity list was reordered by a Decrypt call"
	}
	return ""
}
