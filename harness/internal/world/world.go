// Package world maps the symbolic keys, recipients and identities of AgeCore.tla / AgeFormat.tla to real ones.
package world

import (
	"crypto/ed25519"
	"crypto/rand"
	"crypto/rsa"
	"crypto/sha512"
	"errors"
	"fmt"
	mrand "math/rand"
	"strings"
	"sync"

	"filippo.io/age"
	"filippo.io/age/agessh"
	"filippo.io/age/internal/bech32"
	"filippo.io/age/xverif/internal/eval"
	"golang.org/x/crypto/curve25519"
	"golang.org/x/crypto/ssh"
)

// World holds real key material for model key ids (x*, e*, r*, s*).
type World struct {
	mu    sync.Mutex
	rng   *mrand.Rand
	XSec  map[string][]byte
	ESeed map[string][]byte
	RKey  map[string]*rsa.PrivateKey
	Pw    map[string]string
	WF    int // scrypt work factor used for recipients
}

var rsaOnce sync.Once
var rsaKeys []*rsa.PrivateKey

func rsaKey(i int) *rsa.PrivateKey {
	rsaOnce.Do(func() {
		for j := 0; j < 2; j++ {
			k, err := rsa.GenerateKey(rand.Reader, 2048)
			if err != nil {
				panic(err)
			}
			rsaKeys = append(rsaKeys, k)
		}
	})
	return rsaKeys[i%len(rsaKeys)]
}

func New(seed int64) *World {
	return &World{rng: mrand.New(mrand.NewSource(seed)), XSec: map[string][]byte{}, ESeed: map[string][]byte{}, RKey: map[string]*rsa.PrivateKey{}, Pw: map[string]string{}, WF: 2}
}

func (w *World) xsec(id string) []byte {
	w.mu.Lock()
	defer w.mu.Unlock()
	if b, ok := w.XSec[id]; ok {
		return b
	}
	b := make([]byte, 32)
	w.rng.Read(b)
	w.XSec[id] = b
	return b
}
func (w *World) eseed(id string) []byte {
	w.mu.Lock()
	defer w.mu.Unlock()
	if b, ok := w.ESeed[id]; ok {
		return b
	}
	b := make([]byte, 32)
	w.rng.Read(b)
	w.ESeed[id] = b
	return b
}
func (w *World) rkey(id string) *rsa.PrivateKey {
	w.mu.Lock()
	defer w.mu.Unlock()
	if k, ok := w.RKey[id]; ok {
		return k
	}
	k := rsaKey(len(w.RKey))
	w.RKey[id] = k
	return k
}
func (w *World) pw(id string) string {
	w.mu.Lock()
	defer w.mu.Unlock()
	if p, ok := w.Pw[id]; ok {
		return p
	}
	p := fmt.Sprintf("correct horse %s %d", id, w.rng.Intn(1000000))
	w.Pw[id] = p
	return p
}

// Type of a model key id.
func Type(id string) string {
	switch id[0] {
	case 'x':
		return "X25519"
	case 'e':
		return "ssh-ed25519"
	case 'r':
		return "ssh-rsa"
	}
	return "scrypt"
}

func (w *World) XIdentity(id string) *age.X25519Identity {
	s, _ := bech32.Encode("AGE-SECRET-KEY-", w.xsec(id))
	i, err := age.ParseX25519Identity(s)
	if err != nil {
		panic(err)
	}
	return i
}

func (w *World) EdPriv(id string) ed25519.PrivateKey { return ed25519.NewKeyFromSeed(w.eseed(id)) }

func (w *World) SSHPub(id string) ssh.PublicKey {
	var pk ssh.PublicKey
	var err error
	if Type(id) == "ssh-ed25519" {
		pk, err = ssh.NewPublicKey(w.EdPriv(id).Public())
	} else {
		pk, err = ssh.NewPublicKey(&w.rkey(id).PublicKey)
	}
	if err != nil {
		panic(err)
	}
	return pk
}

// Identity returns the real identity for a model key id.
func (w *World) Identity(id string) age.Identity {
	switch Type(id) {
	case "X25519":
		return w.XIdentity(id)
	case "ssh-ed25519":
		i, err := agessh.NewEd25519Identity(w.EdPriv(id))
		if err != nil {
			panic(err)
		}
		return i
	case "ssh-rsa":
		i, err := agessh.NewRSAIdentity(w.rkey(id))
		if err != nil {
			panic(err)
		}
		return i
	}
	i, err := age.NewScryptIdentity(w.pw(id))
	if err != nil {
		panic(err)
	}
	return i
}

// Recipient returns the real recipient for a model key id.
func (w *World) Recipient(id string) age.Recipient {
	switch Type(id) {
	case "X25519":
		return w.XIdentity(id).Recipient()
	case "ssh-ed25519":
		r, err := agessh.NewEd25519Recipient(w.SSHPub(id))
		if err != nil {
			panic(err)
		}
		return r
	case "ssh-rsa":
		r, err := agessh.NewRSARecipient(w.SSHPub(id))
		if err != nil {
			panic(err)
		}
		return r
	}
	r, err := age.NewScryptRecipient(w.pw(id))
	if err != nil {
		panic(err)
	}
	r.SetWorkFactor(w.WF)
	return r
}

// Bind adds the atoms for a key id to an evaluator environment.
func (w *World) Bind(e *eval.Env, id string) {
	switch Type(id) {
	case "X25519":
		sec := w.xsec(id)
		pub, _ := curve25519.X25519(sec, curve25519.Basepoint)
		e.B["sec:"+id], e.B["pub:"+id] = sec, pub
	case "ssh-ed25519":
		priv := w.EdPriv(id)
		h := sha512.Sum512(priv.Seed())
		e.B["sec:"+id] = h[:32]
		e.B["edpub:"+id] = []byte(priv.Public().(ed25519.PublicKey))
		e.B["wire:"+id] = w.SSHPub(id).Marshal()
	case "ssh-rsa":
		k := w.rkey(id)
		e.B["wire:"+id] = w.SSHPub(id).Marshal()
		e.RSAPub["rsapub:"+id] = &k.PublicKey
		e.RSAPriv["rsapub:"+id] = k
		e.RSAPriv["rsapriv:"+id] = k
	default:
		e.B["pw:"+id] = []byte(w.pw(id))
	}
}

// ---------------------------------------------------------------- custom recipients of the model

// GreaseRecipient produces a stanza of a type no identity knows.
// Long: the stanza's first line is longer than any line buffer (one argument of 5000 characters, then a hundred short
// ones) and its body has several lines; the format sets no limit on either.
type GreaseRecipient struct{ Long bool }

func (g GreaseRecipient) Wrap(fileKey []byte) ([]*age.Stanza, error) {
	b := make([]byte, 7)
	rand.Read(b)
	if g.Long {
		args := []string{strings.Repeat("x", 5000)}
		for i := 0; i < 100; i++ {
			args = append(args, fmt.Sprintf("a%d", i))
		}
		b = make([]byte, 48*3+5)
		rand.Read(b)
		return []*age.Stanza{{Type: "grease", Args: args, Body: b}}, nil
	}
	return []*age.Stanza{{Type: "grease", Args: []string{"arg"}, Body: b}}, nil
}

// LabelledRecipient declares labels (nil slice when Absent).
type LabelledRecipient struct {
	Present bool
	Labels  []string
}

func (l LabelledRecipient) Wrap(fileKey []byte) ([]*age.Stanza, error) {
	return []*age.Stanza{{Type: "labelled", Args: []string{"x"}, Body: []byte{1}}}, nil
}
func (l LabelledRecipient) WrapWithLabels(fileKey []byte) ([]*age.Stanza, []string, error) {
	s, _ := l.Wrap(fileKey)
	if !l.Present {
		return s, nil, nil
	}
	ls := make([]string, len(l.Labels)) // non-nil even when empty
	copy(ls, l.Labels)
	return s, ls, nil
}

// FailingRecipient cannot wrap.
type FailingRecipient struct{}

func (FailingRecipient) Wrap(fileKey []byte) ([]*age.Stanza, error) {
	return nil, errors.New("this recipient cannot wrap")
}

// RecordingIdentity logs the order in which identities are consulted.
type RecordingIdentity struct {
	Inner age.Identity
	Name  string
	Log   *[]string
	Mu    *sync.Mutex
}

func (r RecordingIdentity) Unwrap(stanzas []*age.Stanza) ([]byte, error) {
	r.Mu.Lock()
	*r.Log = append(*r.Log, r.Name)
	r.Mu.Unlock()
	return r.Inner.Unwrap(stanzas)
}

// Identity is an open interface: its implementations need not be comparable values. Keyring (a slice), IdentityFunc
// (a func) and BoxedIdentity (a struct with a slice field) are ordinary Go shapes of an Identity that cannot be a map
// key or an operand of ==.
type Keyring []age.Identity

func (k Keyring) Unwrap(stanzas []*age.Stanza) ([]byte, error) {
	var last error = age.ErrIncorrectIdentity
	for _, id := range k {
		fk, err := id.Unwrap(stanzas)
		if err == nil {
			return fk, nil
		}
		last = err
	}
	return nil, last
}

type IdentityFunc func(stanzas []*age.Stanza) ([]byte, error)

func (f IdentityFunc) Unwrap(stanzas []*age.Stanza) ([]byte, error) { return f(stanzas) }

type BoxedIdentity struct {
	Inner age.Identity
	Notes []string
}

func (b BoxedIdentity) Unwrap(stanzas []*age.Stanza) ([]byte, error) { return b.Inner.Unwrap(stanzas) }

// SameIdentity compares two identity values without ==.
func SameIdentity(a, b age.Identity) bool {
	switch x := a.(type) {
	case Keyring:
		y, ok := b.(Keyring)
		return ok && len(x) == len(y) && (len(x) == 0 || SameIdentity(x[0], y[0]))
	case IdentityFunc:
		_, ok := b.(IdentityFunc)
		return ok
	case BoxedIdentity:
		y, ok := b.(BoxedIdentity)
		return ok && SameIdentity(x.Inner, y.Inner)
	}
	switch b.(type) {
	case Keyring, IdentityFunc, BoxedIdentity:
		return false
	}
	return a == b
}

// NoStanzaRecipient declares labels like LabelledRecipient and contributes no stanza (AgeCore recipient kind "Z").
type NoStanzaRecipient struct {
	Present bool
	Labels  []string
}

func (l NoStanzaRecipient) Wrap(fileKey []byte) ([]*age.Stanza, error) { return nil, nil }
func (l NoStanzaRecipient) WrapWithLabels(fileKey []byte) ([]*age.Stanza, []string, error) {
	if !l.Present {
		return nil, nil, nil
	}
	ls := make([]string, len(l.Labels))
	copy(ls, l.Labels)
	return nil, ls, nil
}
