// Package coregen runs spec/AgeCore.tla in one of its modes and parses the emitted cases.
package coregen

import (
	"encoding/json"
	"fmt"
	"io"
	"strings"
	"sync"

	"filippo.io/age"
	"filippo.io/age/xverif/internal/vk"
	"filippo.io/age/xverif/internal/world"
)

type Labels struct {
	Present bool     `json:"present"`
	Ls      []string `json:"ls"`
}
type Recip struct {
	K      string `json:"k"`
	Key    string `json:"key"`
	Labels Labels `json:"labels"`
}
type Edit struct {
	E    string `json:"e"`
	P    int    `json:"p"`
	Q    int    `json:"q"`
	What string `json:"what"`
	Key  string `json:"key"`
	Perm []int  `json:"perm"`
	Mac  string `json:"mac"`
}
type Case struct {
	Rs   []Recip  `json:"rs"`
	Ids  []string `json:"ids"`
	Edit Edit     `json:"edit"`
	Enc  struct {
		Ok  bool   `json:"ok"`
		Why string `json:"why"`
	} `json:"enc"`
	Res struct {
		C     string `json:"c"`
		Fk    string `json:"fk"`
		Tried int    `json:"tried"`
	} `json:"res"`
	Untouched bool `json:"untouched"`
	Opener    int  `json:"opener"`
}

func set(xs []string) string {
	q := make([]string, len(xs))
	for i, x := range xs {
		q[i] = `"` + x + `"`
	}
	return "{" + strings.Join(q, ",") + "}"
}

// Cfg builds an AgeCore configuration.
func Cfg(mode string, keys []string, maxRecips, maxIds int, labelSets string, invs string) string {
	return fmt.Sprintf(`SPECIFICATION Spec
CONSTANTS
 Keys = %s
 MaxRecips = %d
 MaxIds = %d
 Mode = "%s"
 LabelSets <- %s
 WFs = {}
INVARIANTS %s
CHECK_DEADLOCK FALSE
`, set(keys), maxRecips, maxIds, mode, labelSets, invs)
}

const AllInvs = "EveryRecipientOpens HeaderBound NewFileOnly NoMatchNoReader ScryptAloneEnc LabelRule Emit"

// Generate runs TLC and returns the cases.
func Generate(run *vk.Run, what, cfg string) []Case {
	res := run.TLC(what, vk.TLCOpts{Module: "AgeCore", Config: cfg, Workers: 16})
	if res.Violated != "" || !res.OK {
		vk.Infra("AgeCore %s: specification-level failure: %s\n%s", what, res.Violated, res.Output)
	}
	lines := res.PrintsWithPrefix("CASE ")
	if len(lines) == 0 {
		vk.Infra("AgeCore %s produced no cases", what)
	}
	out := make([]Case, len(lines))
	for i, l := range lines {
		if err := json.Unmarshal([]byte(l), &out[i]); err != nil {
			vk.Infra("bad CASE: %v: %.200s", err, l)
		}
	}
	return out
}

// RecipSig is a structural signature of a recipient list.
func RecipSig(rs []Recip) string {
	p := make([]string, len(rs))
	for i, r := range rs {
		switch r.K {
		case "K":
			p[i] = r.Key
		case "L", "Z":
			if !r.Labels.Present {
				p[i] = r.K + "(absent)"
			} else {
				p[i] = r.K + "(" + strings.Join(r.Labels.Ls, "+") + ")"
			}
		default:
			p[i] = r.K
		}
	}
	return strings.Join(p, ",")
}

// Recipients builds the real recipients of a model list.
func Recipients(w *world.World, rs []Recip) []age.Recipient {
	var out []age.Recipient
	// a key listed twice: the same recipient value twice when the list has an even number of entries, two values built
	// from the same key otherwise (callers do both)
	same := map[string]age.Recipient{}
	for _, r := range rs {
		switch r.K {
		case "K":
			if rc, ok := same[r.Key]; ok && len(rs)%2 == 0 {
				out = append(out, rc)
				continue
			}
			rc := w.Recipient(r.Key)
			same[r.Key] = rc
			out = append(out, rc)
		case "G":
			out = append(out, world.GreaseRecipient{Long: (len(out)+len(rs))%2 == 1})
		case "L":
			out = append(out, world.LabelledRecipient{Present: r.Labels.Present, Labels: r.Labels.Ls})
		case "Z":
			out = append(out, world.NoStanzaRecipient{Present: r.Labels.Present, Labels: r.Labels.Ls})
		case "F":
			out = append(out, world.FailingRecipient{})
		}
	}
	return out
}

// Identities builds recording identities for model ids.
func Identities(w *world.World, ids []string) ([]age.Identity, *[]string) {
	log := &[]string{}
	mu := &sync.Mutex{}
	var out []age.Identity
	for i, id := range ids {
		rec := world.RecordingIdentity{Inner: w.Identity(id), Name: fmt.Sprintf("%d:%s", i+1, id), Log: log, Mu: mu}
		// the caller's identities come in every Go shape: comparable values, and (in lists of three or more, or at the
		// odd positions of lists of an even length) slices, funcs and structs that hold a slice
		switch (i*2 + len(ids) + int(id[len(id)-1])) % 6 {
		case 3:
			out = append(out, world.Keyring{rec})
		case 4:
			out = append(out, world.IdentityFunc(rec.Unwrap))
		case 5:
			out = append(out, world.BoxedIdentity{Inner: rec})
		default:
			out = append(out, rec)
		}
	}
	return out, log
}

// CountingWriter counts calls and bytes.
type CountingWriter struct {
	W     io.Writer
	Calls int
	Bytes int
}

func (c *CountingWriter) Write(p []byte) (int, error) {
	c.Calls++
	c.Bytes += len(p)
	if c.W == nil {
		return len(p), nil
	}
	return c.W.Write(p)
}
