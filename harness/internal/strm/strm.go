// Package strm concretises the abstract STREAM files of Stream.tla (frames, units) into real bytes for
// internal/stream, and provides scripted sources/destinations and recording drivers.
package strm

import (
	"bufio"
	"bytes"
	"crypto/cipher"
	"errors"
	"fmt"
	"io"
	"math/rand"

	"filippo.io/age/internal/stream"
	"golang.org/x/crypto/chacha20poly1305"
)

const Chunk = stream.ChunkSize
const Tag = 16
const EncChunk = Chunk + Tag

// Frame mirrors the TLA+ frame record.
type Frame struct {
	K    string `json:"k"`
	Key  string `json:"key"`
	Ctr  int    `json:"ctr"`
	Fin  bool   `json:"fin"`
	Len  int    `json:"len"`
	Size int    `json:"size"`
}

// World fixes keys and the original plaintext for one run.
type World struct {
	KeyK, KeyX []byte
	P          []byte // original plaintext (long enough for every counter used)
	C, T       int    // model constants
	Interior   []int  // byte lengths for interior unit counts 2..C-2
	aK, aX     cipher.AEAD
}

func NewWorld(seed int64, C, T, maxCtr int) *World {
	rng := rand.New(rand.NewSource(seed))
	w := &World{C: C, T: T, KeyK: make([]byte, 32), KeyX: make([]byte, 32)}
	rng.Read(w.KeyK)
	rng.Read(w.KeyX)
	w.P = make([]byte, (maxCtr+2)*Chunk)
	rng.Read(w.P)
	for i := 0; i <= C; i++ {
		w.Interior = append(w.Interior, 2+rng.Intn(Chunk-4))
	}
	w.aK, _ = chacha20poly1305.New(w.KeyK)
	w.aX, _ = chacha20poly1305.New(w.KeyX)
	return w
}

// LenMap maps a number of plaintext units inside one chunk to bytes: 0->0, 1->1, C-1->65535, C->65536.
func (w *World) LenMap(u int) int {
	switch {
	case u <= 0:
		return 0
	case u == 1:
		return 1
	case u == w.C:
		return Chunk
	case u == w.C-1:
		return Chunk - 1
	case u > w.C:
		return Chunk + (u - w.C)
	}
	return w.Interior[u]
}

// UnitBytes: bytes of the first u units of a frame with len plaintext units (tag units are Tag/T bytes each).
func (w *World) UnitBytes(ln, u int) int {
	if u <= ln {
		return w.LenMap(u)
	}
	t := u - ln
	if t > w.T {
		t = w.T
	}
	return w.LenMap(ln) + t*Tag/w.T
}

func Nonce(ctr int, fin bool) []byte {
	n := make([]byte, 12)
	c := uint64(ctr)
	for i := 10; i >= 3; i-- {
		n[i] = byte(c)
		c >>= 8
	}
	if fin {
		n[11] = 1
	}
	return n
}

// Bytes of one frame.
func (w *World) FrameBytes(f Frame, rng *rand.Rand) []byte {
	if f.K == "G" {
		n := 0
		if f.Size >= w.T {
			n = w.UnitBytes(f.Size-w.T, f.Size)
		} else {
			n = f.Size * Tag / w.T
		}
		b := make([]byte, n)
		rng.Read(b)
		return b
	}
	a := w.aK
	if f.Key != "K" {
		a = w.aX
	}
	n := w.LenMap(f.Len)
	off := f.Ctr * Chunk
	return a.Seal(nil, Nonce(f.Ctr, f.Fin), w.P[off:off+n], nil)
}

// FileBytes concretises a frame sequence with cut units removed from the end of the last frame.
func (w *World) FileBytes(fs []Frame, cut int, rng *rand.Rand) []byte {
	var out []byte
	for i, f := range fs {
		b := w.FrameBytes(f, rng)
		if i == len(fs)-1 && cut > 0 {
			keep := f.Size - cut
			var nb int
			if f.K == "G" {
				nb = len(b) * keep / f.Size
			} else {
				nb = w.UnitBytes(f.Len, keep)
			}
			b = b[:nb]
		}
		out = append(out, b...)
	}
	return out
}

// Honest returns the frame list of the untouched encryption of L bytes... in bytes, through the real writer.
func (w *World) Encrypt(n int) []byte {
	var b bytes.Buffer
	sw, err := stream.NewWriter(w.KeyK, &b)
	if err != nil {
		panic(err)
	}
	sw.Write(w.P[:n])
	sw.Close()
	return b.Bytes()
}

// ---------------------------------------------------------------- reading

// Result of draining a reader.
type Result struct {
	Data     []byte
	Err      error // terminal error (io.EOF = clean end)
	Panic    interface{}
	AfterErr string // "" or a description of a non-failing call after the terminal error
	Src      int64
}

// ErrInjected is the failure injected into sources and destinations.
var ErrInjected = errors.New("injected I/O failure")

// WriteScribbling hands pt to w in pieces of the given size through ONE buffer that is overwritten as soon as each
// Write has returned (what io.CopyBuffer and every read loop do; an io.Writer must not retain p).
func WriteScribbling(w io.Writer, pt []byte, piece int) error {
	buf := make([]byte, piece)
	for off := 0; off < len(pt); off += piece {
		n := copy(buf, pt[off:])
		k, err := w.Write(buf[:n])
		for i := range buf {
			buf[i] = 0xA5
		}
		if err != nil {
			return err
		}
		if k != n {
			return io.ErrShortWrite
		}
	}
	return nil
}

// Drain reads r to its terminal error using the given read policy, then keeps calling Read.
func Drain(r io.Reader, policy string) (res Result) {
	defer func() {
		if p := recover(); p != nil {
			res.Panic = p
		}
	}()
	var out bytes.Buffer
	switch policy {
	case "readall":
		b, err := io.ReadAll(r)
		out.Write(b)
		res.Err = err
		if err == nil {
			res.Err = io.EOF
		}
	case "copy":
		_, err := io.Copy(&out, r)
		res.Err = err
		if err == nil {
			res.Err = io.EOF
		}
	case "sniffcopy": // a short Read (a caller peeking at the content), then io.Copy for the rest
		head := make([]byte, 16)
		n, err := r.Read(head)
		out.Write(head[:n])
		if err == nil {
			_, err = io.Copy(&out, r)
		}
		res.Err = err
		if err == nil {
			res.Err = io.EOF
		}
	case "readfrom": // bytes.Buffer.ReadFrom: reads into the spare capacity of a growing buffer
		_, err := out.ReadFrom(r)
		res.Err = err
		if err == nil {
			res.Err = io.EOF
		}
	case "bufio1m": // a large buffered reader in front: Read calls with a 1 MiB buffer
		_, err := io.Copy(struct{ io.Writer }{&out}, bufio.NewReaderSize(r, 1<<20))
		res.Err = err
		if err == nil {
			res.Err = io.EOF
		}
	case "sniff512copybuf": // http.DetectContentType style: 512 bytes first, then io.CopyBuffer with a large buffer
		head := make([]byte, 512)
		n, err := io.ReadFull(r, head)
		out.Write(head[:n])
		if err == io.ErrUnexpectedEOF || err == io.EOF {
			err = nil
			_, err = io.CopyBuffer(struct{ io.Writer }{&out}, struct{ io.Reader }{r}, make([]byte, 1<<18))
		} else if err == nil {
			_, err = io.CopyBuffer(&out, r, make([]byte, 1<<18))
		}
		res.Err = err
		if err == nil {
			res.Err = io.EOF
		}
	case "copyplain": // io.Copy without WriterTo/ReaderFrom shortcuts on either side
		_, err := io.Copy(struct{ io.Writer }{&out}, struct{ io.Reader }{r})
		res.Err = err
		if err == nil {
			res.Err = io.EOF
		}
	default:
		var size int
		var buf []byte
		if _, err := fmt.Sscanf(policy, "win%d", &size); err == nil && size > 0 {
			buf = make([]byte, size, 200000) // a short window of a large reusable buffer: len(p) < cap(p)
		} else {
			fmt.Sscanf(policy, "buf%d", &size)
			if size <= 0 {
				size = 4096
			}
			buf = make([]byte, size)
		}
		for {
			n, err := r.Read(buf)
			if n > len(buf) || n < 0 {
				res.AfterErr = fmt.Sprintf("Read returned n=%d for len(p)=%d", n, len(buf))
				res.Err = errors.New("bad count")
				break
			}
			out.Write(buf[:n])
			if err != nil {
				res.Err = err
				break
			}
		}
	}
	res.Data = out.Bytes()
	// a stream that has ended or failed stays that way
	buf := make([]byte, 300)
	for i := 0; i < 6; i++ {
		n, err := r.Read(buf)
		if n != 0 || err == nil || (res.Err != io.EOF && err == io.EOF) {
			res.AfterErr = fmt.Sprintf("call %d after terminal error %v returned (%d, %v)", i+1, res.Err, n, err)
			break
		}
	}
	return
}

var ReadPolicies = []string{"readall", "copy", "copyplain", "buf1", "buf7", "buf65536", "buf100000", "win1000", "win70000", "sniffcopy", "readfrom", "bufio1m", "buf1048576", "sniff512copybuf"}

// BulkPolicies are the caller styles that hand the reader large buffers or switch between Read and io.Copy.
var BulkPolicies = []string{"readall", "copy", "sniffcopy", "buf4096", "copyplain", "readfrom", "buf1048576", "buf100000", "bufio1m", "sniff512copybuf", "buf65552", "win70000"}

// ---------------------------------------------------------------- sources and destinations

// Scripted delivers the given sizes, one per Read call (bounded by len(p)); then the rest; EOF with the last
// data if EOFWithData. FailAt >= 0 makes the Read that starts at that offset fail (once or for ever).
type Scripted struct {
	B           []byte
	Sizes       []int
	EOFWithData bool
	FailAt      int64
	Once        bool
	Err         error
	ZeroNil     bool // interleave (0, nil) results
	pos         int64
	fired       bool
	flip        bool
	Fired       bool
	Calls       int
}

func (s *Scripted) Read(p []byte) (int, error) {
	s.Calls++
	if s.ZeroNil {
		s.flip = !s.flip
		if s.flip {
			return 0, nil
		}
	}
	if s.FailAt >= 0 && s.pos >= s.FailAt && !(s.Once && s.fired) {
		s.fired, s.Fired = true, true
		return 0, s.Err
	}
	rem := int64(len(s.B)) - s.pos
	if rem == 0 {
		return 0, io.EOF
	}
	n := int64(len(p))
	if len(s.Sizes) > 0 {
		if int64(s.Sizes[0]) < n {
			n = int64(s.Sizes[0])
		}
		s.Sizes = s.Sizes[1:]
	}
	if n > rem {
		n = rem
	}
	if s.FailAt > s.pos && s.pos+n > s.FailAt && !(s.Once && s.fired) {
		n = s.FailAt - s.pos
	}
	if n == 0 && len(p) > 0 {
		n = 1
	}
	copy(p, s.B[s.pos:s.pos+n])
	s.pos += n
	if s.EOFWithData && s.pos == int64(len(s.B)) {
		return int(n), io.EOF
	}
	return int(n), nil
}

func (s *Scripted) Pos() int64 { return s.pos }

// FaultyDst fails the FailCall-th Write call (1-based; 0 = never) or the write that crosses FailByte (>=0),
// accepting the bytes before it. Once: only that one call fails.
type FaultyDst struct {
	Buf      bytes.Buffer
	FailCall int
	FailByte int64
	Once     bool
	Calls    int
	CallLens []int
	fired    bool
	Fired    bool
}

func NewFaultyDst() *FaultyDst { return &FaultyDst{FailByte: -1} }

func (d *FaultyDst) Write(p []byte) (int, error) {
	d.Calls++
	d.CallLens = append(d.CallLens, len(p))
	if d.fired && !d.Once {
		return 0, ErrInjected
	}
	if !d.fired || !d.Once {
		if d.FailCall > 0 && d.Calls == d.FailCall {
			d.fired, d.Fired = true, true
			return 0, ErrInjected
		}
		if d.FailByte >= 0 && !d.fired && int64(d.Buf.Len())+int64(len(p)) > d.FailByte {
			k := int(d.FailByte - int64(d.Buf.Len()))
			if k < 0 {
				k = 0
			}
			d.Buf.Write(p[:k])
			d.fired, d.Fired = true, true
			return k, ErrInjected
		}
	}
	return d.Buf.Write(p)
}

// SealReal seals P[ctr*Chunk : +len] under key with the spec's nonce layout (len in bytes).
func SealReal(key []byte, ctr int, fin bool, ln int, P []byte) []byte {
	a, _ := chacha20poly1305.New(key)
	off := ctr * Chunk
	return a.Seal(nil, Nonce(ctr, fin), P[off:off+ln], nil)
}
