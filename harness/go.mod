module filippo.io/age/xverif

go 1.19

require (
	c2sp.org/CCTV/age v0.0.0-20240306222714-3ec4d716e805
	filippo.io/age v0.0.0
)

replace filippo.io/age => /repo
