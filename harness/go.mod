module filippo.io/age/xverif

go 1.19

require (
	c2sp.org/CCTV/age v0.0.0-20240306222714-3ec4d716e805
	filippo.io/age v0.0.0
	filippo.io/edwards25519 v1.1.0
	golang.org/x/crypto v0.24.0
)

require golang.org/x/sys v0.21.0 // indirect

replace filippo.io/age => /repo
