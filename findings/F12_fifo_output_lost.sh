#!/bin/bash
# F12 (C15): `age -o FIFO` exited 0 although nobody had read the output (os.Create opens O_RDWR, which does not wait for
# a reader on a FIFO; the bytes written are discarded at close). Usage: F12_fifo_output_lost.sh <dir with age, age-keygen>
set -e
B="$1"; D="$(mktemp -d)"; cd "$D"
"$B/age-keygen" -o k.txt 2>/dev/null
printf hello > pt
"$B/age" -r "$("$B/age-keygen" -y k.txt)" -o ct pt
mkfifo ff
set +e
timeout 3 "$B/age" -d -i k.txt -o ff ct
rc=$?
echo "age -d -o FIFO with no reader: exit=$rc  (defect: 0 = reported success, plaintext discarded; fixed: 124 = still waiting for a reader)"
rm -rf "$D"
[ $rc -ne 0 ]
